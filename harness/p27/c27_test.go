// C27 — built and signed wallet transactions are valid and pay as requested.
//
// Drives the real wallet build path (account manager + utxo keeper over GoLevelDB, action decoders as the
// API uses them, MergeSpendAction, txbuilder.Build, template JSON round trips, txbuilder.Sign to quorum with
// chainkd keys held here, raw-transaction round trip as submit does) and decides with an oracle over the
// final transaction: consensus validation accepts it, every requested recipient output is present exactly,
// the remainder is change to the spending account with the exact amount, fee = in - out, every input is a
// known, unreserved UTXO of the requested account, and a failed build leaves no reservation behind.
package p27

import (
	"context"
	"encoding/hex"
	"encoding/json"
	"fmt"
	"io"
	"os"
	"runtime/debug"
	"sort"
	"strings"
	"testing"
	"time"

	"github.com/sirupsen/logrus"

	"github.com/bytom/bytom/account"
	"github.com/bytom/bytom/blockchain/txbuilder"
	"github.com/bytom/bytom/crypto/ed25519/chainkd"
	"github.com/bytom/bytom/errors"
	"github.com/bytom/bytom/protocol"
	"github.com/bytom/bytom/protocol/bc"
	"github.com/bytom/bytom/protocol/bc/types"
	"github.com/bytom/bytom/protocol/validation"
	"github.com/bytom/bytom/protocol/vm/vmutil"

	"verif/internal/ev"
)

func TestMain(m *testing.M) {
	logrus.SetOutput(io.Discard)
	logrus.SetLevel(logrus.PanicLevel)
	os.Exit(m.Run())
}

const (
	maxGasFee = uint64(60000000) // VMGasRate(200) * MaxGasAmount(300000): any larger BTM surplus buys the maximum gas
	buildsPer = 6
	maxInputs = 48 // worst-case inputs of a generated plan (see positive)
)

// ---- requests -------------------------------------------------------------------------------------------

type inReq struct {
	typ    string // spend_account | spend_account_unspent_output | veto
	acct   int
	asset  bc.AssetID
	amount uint64
	vote   []byte
	unconf bool
	outID  bc.Hash
}

type outReq struct {
	typ     string // control_address | control_program | retire | vote_output
	asset   bc.AssetID
	amount  uint64
	program []byte // expected program of the output (computed by the generator)
	address string
	vote    []byte
	arb     []byte
	raw     map[string]interface{} // overrides the JSON (malformed negative controls)
}

type action struct {
	in  *inReq
	out *outReq
}

func (w *world) actionJSON(a action) map[string]interface{} {
	if a.in != nil {
		r := a.in
		switch r.typ {
		case "spend_account":
			return map[string]interface{}{"type": r.typ, "account_id": w.accts[r.acct].acc.ID, "asset_id": r.asset.String(), "amount": r.amount, "use_unconfirmed": r.unconf}
		case "veto":
			m := map[string]interface{}{"type": r.typ, "account_id": w.accts[r.acct].acc.ID, "asset_id": r.asset.String(), "vote": hex.EncodeToString(r.vote), "use_unconfirmed": r.unconf}
			if r.amount != 0 {
				m["amount"] = r.amount
			}
			return m
		default:
			return map[string]interface{}{"type": r.typ, "output_id": r.outID.String(), "use_unconfirmed": r.unconf}
		}
	}
	r := a.out
	if r.raw != nil {
		return r.raw
	}
	switch r.typ {
	case "control_address":
		return map[string]interface{}{"type": r.typ, "asset_id": r.asset.String(), "amount": r.amount, "address": r.address}
	case "control_program":
		return map[string]interface{}{"type": r.typ, "asset_id": r.asset.String(), "amount": r.amount, "control_program": hex.EncodeToString(r.program)}
	case "retire":
		return map[string]interface{}{"type": r.typ, "asset_id": r.asset.String(), "amount": r.amount, "arbitrary": hex.EncodeToString(r.arb)}
	default:
		return map[string]interface{}{"type": r.typ, "asset_id": r.asset.String(), "amount": r.amount, "address": r.address, "vote": hex.EncodeToString(r.vote)}
	}
}

func (w *world) describe(acts []action) []string {
	var out []string
	for _, a := range acts {
		m := w.actionJSON(a)
		if a.in != nil {
			m["account_id"] = fmt.Sprintf("acct%d(%s)", a.in.acct, w.accts[a.in.acct].kind)
		}
		b, _ := json.Marshal(m)
		out = append(out, string(b))
	}
	return out
}

// decode mirrors api.mergeSpendActions: JSON object -> decoder by "type" -> MergeSpendAction.
func (w *world) decode(acts []action) ([]txbuilder.Action, error) {
	decoders := map[string]func([]byte) (txbuilder.Action, error){
		"control_address":              txbuilder.DecodeControlAddressAction,
		"control_program":              txbuilder.DecodeControlProgramAction,
		"retire":                       txbuilder.DecodeRetireAction,
		"vote_output":                  txbuilder.DecodeVoteOutputAction,
		"spend_account":                w.mgr.DecodeSpendAction,
		"spend_account_unspent_output": w.mgr.DecodeSpendUTXOAction,
		"veto":                         w.mgr.DecodeVetoAction,
	}
	out := make([]txbuilder.Action, 0, len(acts))
	for i, a := range acts {
		m := w.actionJSON(a)
		b, err := json.Marshal(m)
		if err != nil {
			return nil, err
		}
		dec, ok := decoders[m["type"].(string)]
		if !ok {
			return nil, fmt.Errorf("no decoder for %v", m["type"])
		}
		act, err := dec(b)
		if err != nil {
			return nil, fmt.Errorf("decoding action %d: %v", i, err)
		}
		out = append(out, act)
	}
	return account.MergeSpendAction(out), nil
}

// ---- a build plan ---------------------------------------------------------------------------------------

type plan struct {
	acts      []action
	intent    string // ok | contended | neg:<class>
	fee       uint64
	payer     int
	probe     string // "" | retry | drain: a fundable plan run right after a failed build to show that nothing stayed reserved
	probeOf   string // the negative class whose failure the probe follows
	retry     *plan  // negative controls: the same list without the failing action (fundable)
	pre       *inReq // negative controls: a fundable spend placed before the failing action (rollback must release it)
	timeRange uint64
}

func (p *plan) inputTypes() string {
	set := map[string]bool{}
	for _, a := range p.acts {
		if a.in != nil {
			set[short(a.in.typ)] = true
		}
	}
	return joinSet(set)
}

func (p *plan) mix() string {
	set := map[string]bool{}
	for _, a := range p.acts {
		if a.in != nil {
			set[short(a.in.typ)] = true
		} else {
			set[short(a.out.typ)] = true
		}
	}
	return joinSet(set)
}

func short(t string) string {
	switch t {
	case "spend_account":
		return "spend"
	case "spend_account_unspent_output":
		return "utxo"
	case "control_address":
		return "addr"
	case "control_program":
		return "prog"
	case "vote_output":
		return "vote"
	}
	return t
}

func joinSet(set map[string]bool) string {
	var ks []string
	for k := range set {
		ks = append(ks, k)
	}
	sort.Strings(ks)
	return strings.Join(ks, "+")
}

func bucket(n int) string {
	switch {
	case n <= 1:
		return "1"
	case n == 2:
		return "2"
	case n <= 5:
		return "3-5"
	case n <= 15:
		return "6-15"
	}
	return "16+"
}

type gen struct {
	w    *world
	rng  *ev.Rand
	skip string // why the last plan could not be generated
	last bool   // generating the last build of the case
}

func (g *gen) pickAmount(rs []*utxoRec) uint64 {
	total := sum(rs)
	if total == 0 {
		return 0
	}
	var v uint64
	switch g.rng.Intn(7) {
	case 0:
		v = total
	case 1:
		v = total - 1
	case 2:
		v = 1
	case 3: // exact sum of a subset
		for _, r := range rs {
			if g.rng.Bool() {
				v += r.u.Amount
			}
		}
	case 4: // the largest utxo, or one more than it
		for _, r := range rs {
			if r.u.Amount > v {
				v = r.u.Amount
			}
		}
		if g.rng.Bool() {
			v++
		}
	default:
		v = 1 + g.rng.Uint64()%total
	}
	if v == 0 {
		v = 1
	}
	if v > total {
		v = total
	}
	return v
}

func (g *gen) fee() uint64 {
	if g.rng.Chance(1, 8) {
		return 1000000000
	}
	return maxGasFee + uint64(g.rng.Intn(40000000))
}

// recipients splits amount d of an asset over 1..4 output actions of random kinds.
func (g *gen) recipients(asset bc.AssetID, d uint64, spenders []int) ([]action, error) {
	var out []action
	if d == 0 {
		return nil, nil
	}
	k := uint64(g.rng.Range(1, 4))
	if k > d {
		k = d
	}
	parts := make([]uint64, k)
	left := d
	for i := uint64(0); i < k; i++ {
		if i == k-1 {
			parts[i] = left
			break
		}
		max := left - (k - 1 - i)
		parts[i] = 1 + g.rng.Uint64()%max
		if g.rng.Chance(1, 3) { // skewed small parts
			parts[i] = 1 + g.rng.Uint64()%(1+max/1000)
		}
		left -= parts[i]
	}
	for _, amt := range parts {
		r := &outReq{asset: asset, amount: amt}
		kind := g.rng.Pick([]int{4, 3, 2, 2})
		if kind == 3 && (asset != btm || amt < 100000000) {
			kind = 0
		}
		switch kind {
		case 0, 3:
			r.typ = "control_address"
			switch g.rng.Intn(3) {
			case 0: // external
				a, p, err := externalAddr(g.rng)
				if err != nil {
					return nil, err
				}
				r.address, r.program = a, p
			case 1: // another (or the same) account of this wallet
				a := g.w.accts[g.rng.Intn(len(g.w.accts))]
				cp := a.progs[g.rng.Intn(len(a.progs))]
				r.address, r.program = cp.Address, cp.ControlProgram
			default: // back to a spender
				a := g.w.accts[spenders[g.rng.Intn(len(spenders))]]
				cp := a.progs[g.rng.Intn(len(a.progs))]
				r.address, r.program = cp.Address, cp.ControlProgram
			}
			if kind == 3 {
				r.typ = "vote_output"
				r.vote = g.rng.Bytes(64)
			}
		case 1:
			r.typ = "control_program"
			switch g.rng.Intn(4) {
			case 0:
				r.program = []byte{0x51}
			case 1:
				_, p, err := externalAddr(g.rng)
				if err != nil {
					return nil, err
				}
				r.program = p
			case 2:
				a := g.w.accts[g.rng.Intn(len(g.w.accts))]
				r.program = a.progs[g.rng.Intn(len(a.progs))].ControlProgram
			default:
				r.program = append([]byte{0x6a}, g.rng.Bytes(g.rng.Intn(6))...) // unspendable (maps to a retirement)
			}
		case 2:
			r.typ = "retire"
			r.arb = g.rng.Bytes(g.rng.Pick([]int{1, 2, 1}) * g.rng.Intn(24))
			p, err := vmutil.RetireProgram(r.arb)
			if err != nil {
				return nil, err
			}
			r.program = p
		}
		out = append(out, action{out: r})
	}
	return out, nil
}

// funding picks input actions for one (account, asset) class worth at least `need`; returns the actions and
// the amount they provide.  Specific outputs are chosen first, the spend_account amount from the rest.
func (g *gen) funding(a int, asset bc.AssetID, need uint64) ([]action, uint64) {
	unconf := g.rng.Chance(1, 3)
	pool := g.w.recs(a, asset, nil, unconf, false)
	if sum(pool) < need || len(pool) == 0 {
		unconf = true
		pool = g.w.recs(a, asset, nil, true, false)
	}
	if sum(pool) < need || len(pool) == 0 {
		return nil, 0
	}
	var acts []action
	var provided uint64
	if g.rng.Chance(1, 3) { // 1..3 specific outputs
		idx := g.rng.Perm(len(pool))
		n := g.rng.Range(1, 3)
		if n > len(pool) {
			n = len(pool)
		}
		taken := map[int]bool{}
		for _, i := range idx[:n] {
			r := pool[i]
			taken[i] = true
			acts = append(acts, action{in: &inReq{typ: "spend_account_unspent_output", acct: a, asset: asset, amount: r.u.Amount, outID: r.u.OutputID, unconf: r.unconf || g.rng.Chance(1, 4)}})
			provided += r.u.Amount
		}
		var rest []*utxoRec
		for i, r := range pool {
			if !taken[i] {
				rest = append(rest, r)
			}
		}
		pool = rest
		if provided >= need && g.rng.Bool() {
			return acts, provided
		}
	}
	if provided < need && sum(pool) < need-provided {
		return nil, 0
	}
	var s uint64
	if provided < need {
		min := need - provided
		extraPool := sum(pool) - min
		s = min
		if extraPool > 0 {
			k := g.rng.Intn(4)
			if k == 0 && asset == btm && !g.rng.Chance(1, 4) {
				k = 2 // draining all BTM of an account ends its case early: do it rarely
			}
			switch k {
			case 0:
				s = sum(pool)
			case 1:
			default:
				pa := g.pickAmount(pool)
				if pa > min {
					s = pa
				}
			}
		}
	} else {
		if len(pool) == 0 {
			return acts, provided
		}
		s = g.pickAmount(pool)
	}
	if s == 0 {
		return acts, provided
	}
	if g.rng.Chance(1, 5) && s >= 2 { // two spend actions of one class: the API merges them
		s1 := 1 + g.rng.Uint64()%(s-1)
		acts = append(acts, action{in: &inReq{typ: "spend_account", acct: a, asset: asset, amount: s1, unconf: unconf}},
			action{in: &inReq{typ: "spend_account", acct: a, asset: asset, amount: s - s1, unconf: unconf && g.rng.Bool()}})
	} else {
		acts = append(acts, action{in: &inReq{typ: "spend_account", acct: a, asset: asset, amount: s, unconf: unconf}})
	}
	return acts, provided + s
}

func (g *gen) vetoFunding(a int) ([]action, uint64) {
	ac := g.w.accts[a]
	if len(ac.votes) == 0 {
		return nil, 0
	}
	vote := ac.votes[g.rng.Intn(len(ac.votes))]
	pool := g.w.recs(a, btm, vote, false, false)
	if len(pool) == 0 {
		return nil, 0
	}
	if g.rng.Chance(1, 4) { // veto a specific vote output through spend_account_unspent_output
		r := pool[g.rng.Intn(len(pool))]
		return []action{{in: &inReq{typ: "spend_account_unspent_output", acct: a, asset: btm, amount: r.u.Amount, vote: vote, outID: r.u.OutputID}}}, r.u.Amount
	}
	s := g.pickAmount(pool)
	return []action{{in: &inReq{typ: "veto", acct: a, asset: btm, amount: s, vote: vote}}}, s
}

// positive builds a fundable action list.  forced (optional) is a spend request that must be part of it.
func (g *gen) positive(forced *inReq) (*plan, error) {
	w, rng := g.w, g.rng
	p := &plan{intent: "ok", fee: g.fee()}
	if rng.Chance(1, 4) {
		p.timeRange = uint64(rng.Intn(100000))
	}
	// fee payer: an account whose plain BTM covers the fee
	var payers []int
	for _, a := range w.accts {
		if sum(w.recs(a.idx, btm, nil, true, false)) > p.fee {
			payers = append(payers, a.idx)
		}
	}
	if len(payers) == 0 {
		g.skip = "no-payer"
		return nil, nil
	}
	payer := payers[rng.Intn(len(payers))]
	if forced != nil {
		ok := false
		for _, x := range payers {
			if x == forced.acct {
				ok = true
			}
		}
		if ok {
			payer = forced.acct
		}
	}
	p.payer = payer
	spenders := []int{payer}
	if forced != nil && forced.acct != payer {
		spenders = append(spenders, forced.acct)
	} else if rng.Chance(1, 5) && len(w.accts) > 1 {
		o := rng.Intn(len(w.accts))
		if o != payer {
			spenders = append(spenders, o)
		}
	}
	provided := map[bc.AssetID]uint64{}
	var ins []action
	forcedDone := forced == nil
	// Gas: a multisig input costs up to ~4000 gas and a transaction can buy at most 300000, so the number of
	// inputs a plan may need in the worst case (an account-level spend can select every output of its class) is capped.
	worst := 0
	if forced != nil {
		worst = len(w.recs(forced.acct, forced.asset, nil, true, false))
	}
	for si, a := range spenders {
		// which assets this spender spends
		for ai, asset := range w.assets {
			isPayerBTM := si == 0 && ai == 0
			isForced := !forcedDone && forced.acct == a && forced.asset == asset
			if isForced {
				if isPayerBTM && forced.amount <= p.fee {
					g.skip = "forced-below-fee"
					return nil, nil
				}
				ins = append(ins, action{in: forced})
				provided[asset] += forced.amount
				forcedDone = true
				continue
			}
			if !isPayerBTM && !rng.Chance(2, 5) {
				continue
			}
			if n := len(w.recs(a, asset, nil, true, false)); !isPayerBTM && worst+n > maxInputs {
				continue
			} else {
				worst += n
			}
			need := uint64(0)
			if isPayerBTM {
				need = p.fee + 1
			}
			acts, got := g.funding(a, asset, need)
			if len(acts) == 0 {
				if isPayerBTM {
					g.skip = "payer-btm-unfundable"
					return nil, nil
				}
				continue
			}
			ins = append(ins, acts...)
			provided[asset] += got
		}
		if rng.Chance(1, 4) {
			acts, got := g.vetoFunding(a)
			ins = append(ins, acts...)
			provided[btm] += got
		}
	}
	if !forcedDone {
		g.skip = "forced-not-placed"
		return nil, nil
	}
	var outs []action
	for _, asset := range w.assets {
		d := provided[asset]
		if asset == btm {
			if d < p.fee {
				g.skip = "btm-below-fee"
				return nil, nil
			}
			d -= p.fee
		}
		rs, err := g.recipients(asset, d, spenders)
		if err != nil {
			return nil, err
		}
		outs = append(outs, rs...)
	}
	if len(outs) == 0 {
		g.skip = "no-recipient"
		return nil, nil
	}
	// order: specific outputs before account spends (so the plan is fundable whatever the selection picks),
	// then outputs; sometimes everything is shuffled, which may make the plan "contended".
	sort.SliceStable(ins, func(i, j int) bool {
		return ins[i].in.typ == "spend_account_unspent_output" && ins[j].in.typ != "spend_account_unspent_output"
	})
	p.acts = append(ins, outs...)
	if rng.Chance(1, 3) {
		ordered := append([]action(nil), p.acts...)
		rng.Shuffle(len(p.acts), func(i, j int) { p.acts[i], p.acts[j] = p.acts[j], p.acts[i] })
		if contended(p.acts) {
			if forced != nil {
				p.acts = ordered // a drain probe must not be able to fail for a legitimate reason
			} else {
				p.intent = "contended"
			}
		}
	}
	return p, nil
}

// contended: a specific output is requested after an account-level spend/veto of its own class, so the
// selection may already have taken it (a legitimate ErrReserved failure).
func contended(acts []action) bool {
	type cls struct {
		a     int
		asset bc.AssetID
		vote  string
	}
	seen := map[cls]bool{}
	for _, a := range acts {
		if a.in == nil {
			continue
		}
		c := cls{a.in.acct, a.in.asset, voteKey(a.in.vote)}
		if a.in.typ == "spend_account_unspent_output" {
			if seen[c] {
				return true
			}
		} else {
			seen[c] = true
		}
	}
	return false
}

var negClasses = []string{"insufficient", "reserved", "utxo-reserved", "utxo-unknown", "utxo-twice", "bad-output", "veto-novote", "unconfirmed-denied", "utxo-unconfirmed-denied", "veto-zero"}

// negative builds an action list the wallet cannot fund (or that is malformed), preceded by a fundable spend.
func (g *gen) negative() (*plan, error) {
	w, rng := g.w, g.rng
	base, err := g.positive(nil)
	if err != nil || base == nil {
		return nil, err
	}
	retry := &plan{acts: append([]action(nil), base.acts...), intent: base.intent, fee: base.fee, payer: base.payer, timeRange: base.timeRange, probe: "retry"}
	base.intent = ""
	// the fundable spend whose reservation must be rolled back: the first spend_account of the base plan
	for _, a := range base.acts {
		if a.in != nil && a.in.typ == "spend_account" {
			base.pre = a.in
			break
		}
	}
	type cls struct {
		a     int
		asset bc.AssetID
	}
	used := map[cls]bool{}
	for _, a := range base.acts {
		if a.in != nil {
			used[cls{a.in.acct, a.in.asset}] = true
		}
	}
	// veto-zero (a veto without amount: it used to crash the selection, which ends the wallet's case) is tried only as the last build of a case
	n := len(negClasses) - 1
	start := rng.Intn(n)
	if w.unconf && rng.Chance(1, 4) { // the classes that need unconfirmed outputs are feasible in half of the wallets only
		start = 7 + rng.Intn(2)
	}
	for k := 0; k < n; k++ {
		class := negClasses[(start+k)%n]
		if g.last && k == 0 && rng.Chance(1, 3) {
			class = "veto-zero"
		}
		var bad action
		found := false
		switch class {
		case "insufficient", "reserved", "unconfirmed-denied":
			for _, ai := range rng.Perm(len(w.accts)) {
				for _, xi := range rng.Perm(len(w.assets)) {
					c := cls{ai, w.assets[xi]}
					if used[c] || found {
						continue
					}
					all := sum(w.recs(ai, c.asset, nil, true, true))
					free := sum(w.recs(ai, c.asset, nil, true, false))
					conf := sum(w.recs(ai, c.asset, nil, false, false))
					switch class {
					case "insufficient":
						bad = action{in: &inReq{typ: "spend_account", acct: ai, asset: c.asset, amount: all + 1 + uint64(rng.Intn(3))*uint64(rng.Intn(1000000)), unconf: true}}
						found = true
					case "reserved":
						if all > free {
							bad = action{in: &inReq{typ: "spend_account", acct: ai, asset: c.asset, amount: free + 1 + rng.Uint64()%(all-free), unconf: true}}
							found = true
						}
					case "unconfirmed-denied":
						if free > conf {
							bad = action{in: &inReq{typ: "spend_account", acct: ai, asset: c.asset, amount: conf + 1 + rng.Uint64()%(free-conf), unconf: false}}
							found = true
						}
					}
				}
			}
		case "utxo-reserved", "utxo-unconfirmed-denied":
			for _, i := range rng.Perm(len(w.order)) {
				r := w.utxos[w.order[i]]
				if class == "utxo-reserved" && r.reserved {
					bad = action{in: &inReq{typ: "spend_account_unspent_output", acct: r.acct, asset: r.u.AssetID, amount: r.u.Amount, vote: r.u.Vote, outID: r.u.OutputID, unconf: true}}
					found = true
					break
				}
				if class == "utxo-unconfirmed-denied" && r.unconf && !r.reserved && !used[cls{r.acct, r.u.AssetID}] {
					bad = action{in: &inReq{typ: "spend_account_unspent_output", acct: r.acct, asset: r.u.AssetID, amount: r.u.Amount, outID: r.u.OutputID, unconf: false}}
					found = true
					break
				}
			}
		case "utxo-unknown":
			var h [32]byte
			copy(h[:], rng.Bytes(32))
			bad = action{in: &inReq{typ: "spend_account_unspent_output", acct: 0, asset: btm, outID: bc.NewHash(h), unconf: rng.Bool()}}
			found = true
		case "utxo-twice":
			for _, i := range rng.Perm(len(w.order)) {
				r := w.utxos[w.order[i]]
				if r.reserved || r.unconf || used[cls{r.acct, r.u.AssetID}] {
					continue
				}
				one := action{in: &inReq{typ: "spend_account_unspent_output", acct: r.acct, asset: r.u.AssetID, amount: r.u.Amount, vote: r.u.Vote, outID: r.u.OutputID}}
				two := action{in: &inReq{typ: "spend_account_unspent_output", acct: r.acct, asset: r.u.AssetID, amount: r.u.Amount, vote: r.u.Vote, outID: r.u.OutputID}}
				base.acts = append(base.acts, one)
				// the retry spends this output once and pays its amount to a stranger (keeps the list balanced)
				_, prog, err := externalAddr(rng)
				if err != nil {
					return nil, err
				}
				retry.acts = append(retry.acts, one, action{out: &outReq{typ: "control_program", asset: r.u.AssetID, amount: r.u.Amount, program: prog}})
				bad = two
				found = true
				break
			}
		case "bad-output":
			r := &outReq{typ: "control_address", asset: btm}
			switch rng.Intn(3) {
			case 0:
				r.raw = map[string]interface{}{"type": "control_address", "asset_id": btm.String(), "amount": 0, "address": w.accts[0].progs[0].Address}
			case 1:
				r.raw = map[string]interface{}{"type": "control_address", "asset_id": btm.String(), "amount": 5, "address": "bn1qnotanaddress"}
			default:
				r.typ = "control_program"
				r.raw = map[string]interface{}{"type": "control_program", "asset_id": btm.String(), "amount": 5, "control_program": ""}
			}
			bad = action{out: r}
			found = true
		case "veto-novote":
			ai := rng.Intn(len(w.accts))
			bad = action{in: &inReq{typ: "veto", acct: ai, asset: btm, amount: 1 + uint64(rng.Intn(1000)), vote: rng.Bytes(64)}}
			found = true
		case "veto-zero":
			for _, ai := range rng.Perm(len(w.accts)) {
				ac := w.accts[ai]
				if len(ac.votes) == 0 || found {
					continue
				}
				for _, v := range ac.votes {
					if len(w.recs(ai, btm, v, false, false)) > 0 {
						bad = action{in: &inReq{typ: "veto", acct: ai, asset: btm, amount: 0, vote: v}}
						found = true
						break
					}
				}
			}
		}
		if !found {
			continue
		}
		base.intent = "neg:" + class
		retry.probeOf = class
		base.retry = retry
		// the failing action goes after the fundable spend (at the end, or right after it)
		if rng.Bool() || base.pre == nil {
			base.acts = append(base.acts, bad)
		} else {
			pos := 0
			for i, a := range base.acts {
				if a.in == base.pre {
					pos = i + 1
				}
			}
			base.acts = append(base.acts[:pos], append([]action{bad}, base.acts[pos:]...)...)
		}
		return base, nil
	}
	g.skip = "no-negative-class"
	return nil, nil
}

// ---- running one plan -----------------------------------------------------------------------------------

type result struct {
	buildErr  error
	panicked  string
	tpl       *txbuilder.Template
	tx        *types.Tx
	signErr   error
	complete  bool
	valErr    error
	gas       *validation.GasState
	rounds    int
	roundtrip bool
}

func innerRoots(err error) []string {
	var out []string
	if errs, ok := errors.Data(err)["actions"].([]error); ok {
		for _, e := range errs {
			out = append(out, errors.Root(e).Error())
		}
		return out
	}
	return []string{errors.Root(err).Error()}
}

func tplRoundTrip(tpl *txbuilder.Template) (*txbuilder.Template, error) {
	b, err := json.Marshal(tpl)
	if err != nil {
		return nil, err
	}
	out := &txbuilder.Template{}
	if err := json.Unmarshal(b, out); err != nil {
		return nil, err
	}
	return out, nil
}

func (w *world) build(p *plan) (tpl *txbuilder.Template, err error, panicked string) {
	defer func() {
		if r := recover(); r != nil {
			panicked = ev.PanicSite(string(debug.Stack())) + ": " + fmt.Sprint(r)
		}
	}()
	acts, derr := w.decode(p.acts)
	if derr != nil {
		return nil, derr, ""
	}
	tpl, err = txbuilder.Build(context.Background(), nil, acts, time.Now().Add(30*time.Minute), p.timeRange)
	return tpl, err, ""
}

func (w *world) run(chain *protocol.Chain, rng *ev.Rand, p *plan) *result {
	res := &result{}
	res.tpl, res.buildErr, res.panicked = w.build(p)
	if res.buildErr != nil || res.panicked != "" || res.tpl == nil {
		return res
	}
	return w.signAndValidate(chain, rng, res)
}

// signAndValidate takes a built template through sign-transaction (round by round) and submit.
func (w *world) signAndValidate(chain *protocol.Chain, rng *ev.Rand, res *result) *result {
	tpl := res.tpl
	res.roundtrip = rng.Bool()
	if res.roundtrip {
		if tpl, res.signErr = tplRoundTrip(tpl); res.signErr != nil {
			return res
		}
	}
	// sign: each round is one sign-transaction call by a party holding a subset of the keys
	// (one signature per witness per call, as txbuilder.Sign does); rounds until nothing new can be added.
	maxRounds := 0
	holders := map[chainkd.XPub]bool{}
	for _, a := range w.accts {
		if a.quo > maxRounds {
			maxRounds = a.quo
		}
		// the keys that will sign: a random quorum-sized subset of the account's keys
		perm := rng.Perm(len(a.xpubs))
		for _, i := range perm[:a.quo] {
			holders[a.xpubs[i]] = true
		}
	}
	signFn := func(_ context.Context, xpub chainkd.XPub, path [][]byte, data [32]byte, _ string) ([]byte, error) {
		xprv, ok := w.prv[xpub]
		if !ok || !holders[xpub] {
			return nil, fmt.Errorf("key not held")
		}
		if len(path) > 0 {
			xprv = xprv.Derive(path)
		}
		return xprv.Sign(data[:]), nil
	}
	for r := 0; r < maxRounds; r++ {
		if res.signErr = txbuilder.Sign(context.Background(), tpl, "", signFn); res.signErr != nil {
			return res
		}
		res.rounds++
		if txbuilder.SignProgress(tpl) {
			break
		}
		if res.roundtrip && rng.Bool() {
			if tpl, res.signErr = tplRoundTrip(tpl); res.signErr != nil {
				return res
			}
		}
	}
	res.complete = txbuilder.SignProgress(tpl)
	res.tpl = tpl
	// submit: the raw transaction travels as text; FinalizeTx recomputes the serialized size
	raw, err := tpl.Transaction.MarshalText()
	if err != nil {
		res.signErr = err
		return res
	}
	tx := &types.Tx{}
	if err := tx.UnmarshalText(raw); err != nil {
		res.signErr = fmt.Errorf("raw transaction does not decode: %v", err)
		return res
	}
	tx.TxData.SerializedSize = uint64(len(raw) / 2)
	tx.Tx.SerializedSize = uint64(len(raw) / 2)
	res.tx = tx
	block := types.MapBlock(&types.Block{BlockHeader: *chain.BestBlockHeader()})
	res.gas, res.valErr = validation.ValidateTx(tx.Tx, block, chain.ProgramConverter)
	return res
}

// ---- the test -------------------------------------------------------------------------------------------

func TestC27(t *testing.T) {
	r := ev.Start(t, "C27")
	defer r.Finish()
	r.Rule("one case = one wallet (1-4 accounts of kinds 1of1/2of3/1of2/3of3, BIP44 or BIP32 paths, 2-4 assets incl. BTM, UTXO sets of shapes big/small/mixed/equal/none, vote outputs, some unconfirmed outputs) and 6 consecutive builds that see each other's reservations; action lists (spend_account, spend_account_unspent_output, veto, control_address, control_program, retire, vote_output) are JSON-decoded and merged as the API does, built, JSON round-tripped, signed round by round to quorum with a random quorum of keys, the raw tx re-decoded and validated; ~25% of the builds are negative controls (unfundable or malformed after a fundable spend). distinct = (action mix, account kind of the fee payer, #inputs bucket) of accepted transactions, plus (negative class, error class)")
	r.Assume("validation.ValidateTx with the chain's best header and program converter is the consensus verdict (as Chain.ValidateTx uses it); UTXO records are written in the wallet's record layout from mapped funding transactions; a BTM surplus >= 60000000 neu buys the maximum gas, so a gas failure is never the caller's fault; chainkd derivation/signing is trusted (C28)")
	chain, err := sharedChain(t)
	if err != nil {
		r.Inconclusive("chain: %v", err)
		return
	}
	base := t.TempDir()
	r.Cases("wallet", r.N(230, 23000), func(c *ev.Case) {
		runCase(base, c, chain)
	})
	r.Cases("chain", r.N(50, 5000), func(c *ev.Case) {
		chainCase(base, c, chain)
	})
	r.Cases("oracle-selftest", 8, func(c *ev.Case) {
		selfTest(base, c, chain)
	})
	for _, k := range []string{"1of1", "2of3"} {
		r.Floor("accepted/"+k, 100)
		for _, a := range []string{"spend", "utxo", "veto", "addr", "prog", "retire", "vote"} {
			r.Floor("accepted/"+k+"/"+a, 10)
		}
	}
	r.Floor("accepted/1of2", 10)
	r.Floor("accepted/3of3", 10)
	r.Floor("accepted/multi-account", 10)
	r.Floor("accepted/with-change", 100)
	r.Floor("accepted/template-json-roundtrip", 100)
	r.Floor("accepted/bip32-paths", 30)
	r.Floor("accepted/inputs:6-15", 20)
	r.Floor("accepted/inputs:16+", 5)
	r.Floor("negative/rejected", 100)
	for _, k := range negClasses {
		if k == "veto-zero" {
			continue
		}
		min := int64(5)
		switch k {
		case "reserved", "utxo-reserved", "unconfirmed-denied", "utxo-unconfirmed-denied": // need a particular wallet state
			min = 2
		}
		r.Floor("negative/"+k, min)
	}
	r.Floor("drain-after-failure/ok", 15)
	r.Floor("retry-after-failure/ok", 15)
	r.Floor("selftest/mutants-detected", 30)
	r.Floor("chain/accepted", 40)
	r.Floor("chain/accepted/merges:1", 5)
	r.Floor("chain/accepted/merges:2-3", 5)
	r.Floor("chain/negative", 5)
}

func runCase(base string, c *ev.Case, chain *protocol.Chain) {
	rng := c.Rand
	w, err := newWorld(base, chain, rng)
	defer w.close()
	if err != nil {
		c.Violation("setup:"+strings.SplitN(err.Error(), ":", 2)[0], "wallet set-up failed: "+err.Error(), nil)
		return
	}
	g := &gen{w: w, rng: rng}
	var drain *inReq
	var drainClass string
	var retry *plan
	for b := 0; b < buildsPer; b++ {
		var p *plan
		var err error
		g.last = b == buildsPer-1
		switch {
		case retry != nil:
			// after a failed build: the same list without the failing action is fundable (the model did not
			// change), so it must build now; it fails if the rollback left one of its outputs reserved.
			p, retry = retry, nil
		case drain != nil:
			// then: request everything that is (by the model) still free in the class the failed build had
			// reserved first.  Any leaked reservation makes this fail.
			free := sum(w.recs(drain.acct, drain.asset, nil, drain.unconf, false))
			f := &inReq{typ: "spend_account", acct: drain.acct, asset: drain.asset, amount: free, unconf: drain.unconf}
			drain = nil
			if free == 0 {
				continue
			}
			p, err = g.positive(f)
			if p != nil {
				p.probe, p.probeOf = "drain", drainClass
			}
		case rng.Chance(1, 4):
			p, err = g.negative()
		default:
			p, err = g.positive(nil)
		}
		if err != nil {
			c.Violation("generator", "generator error: "+err.Error(), nil)
			return
		}
		if p == nil {
			c.Count("plans/skipped:"+g.skip, 1)
			if g.skip == "no-payer" {
				return
			}
			continue
		}
		c.Eval(1)
		c.Count("builds", 1)
		desc := map[string]interface{}{"build": b, "intent": p.intent, "probe": p.probe, "actions": w.describe(p.acts), "fee": p.fee}
		c.Journal(desc)
		res := w.run(chain, rng.Fork(), p)
		witness := func(extra map[string]interface{}) map[string]interface{} {
			m := map[string]interface{}{"build": b, "intent": p.intent, "probe": p.probe, "actions": w.describe(p.acts), "intended_fee": p.fee, "utxo_shapes(acct/asset)": w.shapes}
			if res.tx != nil {
				if raw, err := res.tx.MarshalText(); err == nil && len(raw) < 6000 {
					m["raw_tx"] = string(raw)
				}
				m["inputs"], m["outputs"] = len(res.tx.Inputs), len(res.tx.Outputs)
			}
			for k, v := range extra {
				m[k] = v
			}
			return m
		}
		if res.panicked != "" {
			c.Violation("panic:"+strings.SplitN(res.panicked, ": ", 2)[0]+":"+p.intent, "building the action list panicked instead of returning an error: "+res.panicked, witness(nil))
			c.Count("negative/"+strings.TrimPrefix(p.intent, "neg:"), 1)
			c.Count("negative/panicked", 1)
			// the reservations made by the earlier actions of this list were never rolled back: end of this wallet
			return
		}
		if strings.HasPrefix(p.intent, "neg:") {
			class := strings.TrimPrefix(p.intent, "neg:")
			c.Count("negative/"+class, 1)
			if res.buildErr == nil && class == "veto-zero" {
				// a veto of amount 0 whose vote outputs are all taken already selects nothing: a no-op, which
				// is harmless; the transaction must still satisfy the whole oracle (below)
				c.Count("negative/veto-zero:accepted-as-noop", 1)
				p.intent = "ok"
			} else if res.buildErr == nil {
				c.Violation("build:unfundable-accepted:"+class, "a request the wallet cannot fund (or a malformed one) produced a template", witness(nil))
				return
			}
		}
		if strings.HasPrefix(p.intent, "neg:") {
			class := strings.TrimPrefix(p.intent, "neg:")
			c.Count("negative/rejected", 1)
			roots := innerRoots(res.buildErr)
			c.Distinct("neg %s -> %s", class, strings.Join(roots, "|"))
			c.Count("negative/error:"+roots[len(roots)-1], 1)
			switch rng.Intn(4) {
			case 0:
				retry = p.retry
			case 1:
				drain, drainClass = p.pre, class
			case 2:
				retry, drain, drainClass = p.retry, p.pre, class
			}
			continue
		}
		if res.buildErr != nil {
			roots := innerRoots(res.buildErr)
			if p.intent == "contended" {
				onlyReserved := true
				for _, x := range roots {
					if x != account.ErrReserved.Error() {
						onlyReserved = false
					}
				}
				if onlyReserved {
					c.Count("contended/reserved", 1)
					c.Distinct("contended -> reserved")
					continue
				}
			}
			if p.probe != "" {
				c.Violation("rollback:reservation-leaked:"+p.probe+":"+p.probeOf, "after a failed build ("+p.probeOf+") a fundable "+p.probe+" probe is rejected: "+strings.Join(roots, "|"), witness(map[string]interface{}{"error": res.buildErr.Error()}))
				return
			}
			c.Violation("build:fundable-rejected:"+p.inputTypes()+":"+strings.Join(roots, "|"), "a fundable action list was rejected: "+res.buildErr.Error(), witness(nil))
			return
		}
		if p.intent == "contended" {
			c.Count("contended/ok", 1)
		}
		payer := w.accts[p.payer]
		findings := w.oracle(p, res)
		for _, f := range findings {
			f.key = strings.Replace(f.key, "{in}", p.inputTypes(), 1)
			f.key = strings.Replace(f.key, "{kind}", payer.class(), 1)
			c.Violation(f.key, f.what, witness(f.extra))
		}
		// model: the inputs of a built template stay reserved in the wallet
		for _, in := range res.tx.Inputs {
			if id, err := in.SpentOutputID(); err == nil {
				if rec, ok := w.utxos[id]; ok {
					rec.reserved = true
				}
			}
		}
		if len(findings) > 0 {
			return
		}
		// evidence
		nin := len(res.tx.Inputs)
		c.Distinct("%s %s in:%s", p.mix(), payer.kind, bucket(nin))
		c.Count("accepted", 1)
		c.Count("accepted/"+payer.kind, 1)
		c.Count("accepted/inputs:"+bucket(nin), 1)
		kindsSeen := map[string]bool{}
		multi := map[int]bool{}
		for _, a := range p.acts {
			if a.in != nil {
				multi[a.in.acct] = true
				kindsSeen[w.accts[a.in.acct].kind] = true
			}
		}
		if len(multi) > 1 {
			c.Count("accepted/multi-account", 1)
		}
		types := map[string]bool{}
		for _, a := range p.acts {
			if a.in != nil {
				types[short(a.in.typ)] = true
			} else {
				types[short(a.out.typ)] = true
			}
		}
		for k := range kindsSeen {
			if k != payer.kind {
				c.Count("accepted/"+k, 1)
			}
			for ty := range types {
				c.Count("accepted/"+k+"/"+ty, 1)
			}
		}
		if res.roundtrip {
			c.Count("accepted/template-json-roundtrip", 1)
		}
		if payer.bip32() {
			c.Count("accepted/bip32-paths", 1)
		}
		if p.timeRange != 0 {
			c.Count("accepted/time-range", 1)
		}
		if len(res.tx.Outputs) > countOuts(p) {
			c.Count("accepted/with-change", 1)
		} else {
			c.Count("accepted/no-change", 1)
		}
		if p.probe != "" {
			c.Count(p.probe+"-after-failure/ok", 1)
			c.Count(p.probe+"-after-failure/ok:"+p.probeOf, 1)
		}
		c.Max("inputs", int64(nin))
		c.Max("outputs", int64(len(res.tx.Outputs)))
		c.Max("sign_rounds", int64(res.rounds))
		if res.gas != nil {
			c.Max("gas_used", res.gas.GasUsed)
			c.Max("gas_used_per_input", res.gas.GasUsed/int64(nin))
		}
		if c.WantSample() && b == 0 {
			c.Sample(map[string]interface{}{"actions": w.describe(p.acts), "inputs": nin, "outputs": len(res.tx.Outputs), "fee": res.tx.Fee(), "gas_used": res.gas.GasUsed})
		}
	}
}

func countOuts(p *plan) int {
	n := 0
	for _, a := range p.acts {
		if a.out != nil {
			n++
		}
	}
	return n
}
