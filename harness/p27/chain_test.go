package p27

import (
	"context"
	"fmt"
	"runtime/debug"
	"strings"
	"time"

	"github.com/bytom/bytom/account"
	"github.com/bytom/bytom/blockchain/txbuilder"
	"github.com/bytom/bytom/protocol"
	"github.com/bytom/bytom/protocol/bc"
	"github.com/bytom/bytom/protocol/bc/types"

	"verif/internal/ev"
)

// The build-chain-transactions path (api.buildTxs): a BTM spend_account goes through
// account.SpendAccountChain, which merges the selected outputs five at a time in preliminary transactions
// (each paying the account itself and a fixed fee of ChainTxMergeGas) and spends the merged output in the
// final transaction; all other actions build normally.

func mergeGasBound(n int) uint64 {
	if n <= 1 {
		return 0
	}
	return txbuilder.ChainTxMergeGas * uint64((n-1+3)/4+1)
}

// buildChain mirrors api.buildTxs.
func (w *world) buildChain(p *plan) (tpls []*txbuilder.Template, err error, panicked string) {
	defer func() {
		if r := recover(); r != nil {
			panicked = ev.PanicSite(string(debug.Stack())) + ": " + fmt.Sprint(r)
		}
	}()
	acts, derr := w.decode(p.acts)
	if derr != nil {
		return nil, derr, ""
	}
	ctx := context.Background()
	builder := txbuilder.NewBuilder(time.Now().Add(30 * time.Minute))
	tpls = []*txbuilder.Template{}
	for _, a := range acts {
		if a.ActionType() == "spend_account" {
			tpls, err = account.SpendAccountChain(ctx, builder, a)
		} else {
			err = a.Build(ctx, builder)
		}
		if err != nil {
			builder.Rollback()
			return nil, err, ""
		}
	}
	tpl, _, err := builder.Build()
	if err != nil {
		builder.Rollback()
		return nil, err, ""
	}
	return append(tpls, tpl), nil, ""
}

func chainCase(base string, c *ev.Case, chain *protocol.Chain) {
	rng := c.Rand
	w, err := newWorld(base, chain, rng)
	if err != nil {
		c.Violation("setup:"+strings.SplitN(err.Error(), ":", 2)[0], "wallet set-up failed: "+err.Error(), nil)
		return
	}
	g := &gen{w: w, rng: rng}
	retryNext := false
	for b := 0; b < 3; b++ {
		// spender: an account with plain confirmed BTM
		var cands []int
		for _, a := range w.accts {
			if len(w.recs(a.idx, btm, nil, false, false)) > 0 {
				cands = append(cands, a.idx)
			}
		}
		if len(cands) == 0 {
			return
		}
		a := cands[rng.Intn(len(cands))]
		ac := w.accts[a]
		pool := w.recs(a, btm, nil, false, false)
		total, bound := sum(pool), mergeGasBound(len(pool))
		p := &plan{intent: "ok", payer: a, fee: g.fee()}
		negative := !retryNext && rng.Chance(1, 5)
		retryNext = false
		var amount uint64
		switch {
		case negative:
			p.intent = "neg:chain-insufficient"
			amount = sum(w.recs(a, btm, nil, false, true)) + 1 + uint64(rng.Intn(1000))
			if amount <= p.fee {
				amount = p.fee + 1
			}
		case total <= p.fee+1+bound:
			c.Count("chain/skipped:low-funds", 1)
			continue
		default:
			max := total - bound
			switch rng.Intn(4) {
			case 0:
				amount = max
			case 1:
				amount = p.fee + 1 + rng.Uint64()%(max-p.fee)
			default: // large amounts need many outputs, hence merge transactions
				amount = max - rng.Uint64()%(1+(max-p.fee-1)/4)
			}
		}
		p.acts = []action{{in: &inReq{typ: "spend_account", acct: a, asset: btm, amount: amount}}}
		outs, err := g.recipients(btm, amount-p.fee, []int{a})
		if err != nil {
			c.Violation("generator", err.Error(), nil)
			return
		}
		p.acts = append(p.acts, outs...)
		// sometimes a second asset through a specific output
		if rng.Chance(1, 3) && len(w.assets) > 1 {
			asset := w.assets[1+rng.Intn(len(w.assets)-1)]
			if rs := w.recs(a, asset, nil, false, false); len(rs) > 0 {
				r := rs[rng.Intn(len(rs))]
				p.acts = append(p.acts, action{in: &inReq{typ: "spend_account_unspent_output", acct: a, asset: asset, amount: r.u.Amount, outID: r.u.OutputID}})
				outs, err := g.recipients(asset, r.u.Amount, []int{a})
				if err != nil {
					c.Violation("generator", err.Error(), nil)
					return
				}
				p.acts = append(p.acts, outs...)
			}
		}
		if rng.Bool() {
			rng.Shuffle(len(p.acts), func(i, j int) { p.acts[i], p.acts[j] = p.acts[j], p.acts[i] })
		}
		c.Eval(1)
		c.Count("chain/builds", 1)
		c.Journal(map[string]interface{}{"build": b, "intent": p.intent, "actions": w.describe(p.acts)})
		witness := func(extra map[string]interface{}) map[string]interface{} {
			m := map[string]interface{}{"api": "build-chain-transactions", "build": b, "intent": p.intent, "actions": w.describe(p.acts), "intended_fee": p.fee,
				"btm_outputs_free": amounts(pool)}
			for k, v := range extra {
				m[k] = v
			}
			return m
		}
		tpls, berr, panicked := w.buildChain(p)
		if panicked != "" {
			c.Violation("panic:"+strings.SplitN(panicked, ": ", 2)[0]+":chain", "build-chain-transactions panicked: "+panicked, witness(nil))
			return
		}
		if negative {
			c.Count("chain/negative", 1)
			if berr == nil {
				c.Violation("chain:unfundable-accepted", "a BTM amount above the account's funds produced templates", witness(nil))
				return
			}
			c.Count("chain/negative:"+innerRoots(berr)[0], 1)
			c.Distinct("chain neg -> %s", innerRoots(berr)[0])
			retryNext = true // the next (fundable) build also shows that nothing stayed reserved
			continue
		}
		if berr != nil {
			c.Violation("chain:fundable-rejected:"+innerRoots(berr)[0], "a fundable chain spend was rejected (free "+fmt.Sprint(total)+", requested "+fmt.Sprint(amount)+"): "+berr.Error(), witness(nil))
			return
		}
		k := len(tpls) - 1
		fs, finalRes := w.chainOracle(chain, rng.Fork(), p, tpls, a)
		for _, f := range fs {
			f.key = strings.Replace(strings.Replace(f.key, "{in}", "chain", 1), "{kind}", ac.class(), 1)
			c.Violation(f.key, f.what, witness(f.extra))
		}
		if len(fs) > 0 {
			return
		}
		c.Count("chain/accepted", 1)
		c.Count("chain/accepted/"+ac.kind, 1)
		c.Count("chain/merge-txs", int64(k))
		mb := "0"
		switch {
		case k == 1:
			mb = "1"
		case k >= 2 && k <= 3:
			mb = "2-3"
		case k > 3:
			mb = "4+"
		}
		c.Count("chain/accepted/merges:"+mb, 1)
		c.Distinct("chain %s merges:%s %s", ac.kind, mb, p.mix())
		c.Max("chain_merge_txs", int64(k))
		if finalRes != nil && finalRes.gas != nil {
			c.Max("chain_final_gas", finalRes.gas.GasUsed)
		}
		if c.WantSample() && k > 0 {
			c.Sample(map[string]interface{}{"api": "build-chain-transactions", "actions": w.describe(p.acts), "merge_txs": k})
		}
	}
}

func amounts(rs []*utxoRec) []uint64 {
	var out []uint64
	for _, r := range rs {
		out = append(out, r.u.Amount)
	}
	return out
}

// chainOracle: every template signs and validates; merge transactions spend only free outputs of the
// account (or earlier merged outputs), at most ChainTxUtxoNum, pay the account itself and cost exactly
// ChainTxMergeGas; the final transaction (checked by the same structural oracle, with the last merged output
// standing in as an output of the account) pays as requested.
func (w *world) chainOracle(chain *protocol.Chain, rng *ev.Rand, p *plan, tpls []*txbuilder.Template, a int) ([]finding, *result) {
	var fs []finding
	add := func(key, what string) { fs = append(fs, finding{key: key, what: what}) }
	type prod struct {
		amount uint64
		spent  bool
	}
	produced := map[bc.Hash]*prod{}
	used := map[bc.Hash]bool{}
	var lastID bc.Hash
	var lastOut *types.TxOutput
	var lastTx *types.Tx
	for i, tpl := range tpls[:len(tpls)-1] {
		res := w.signAndValidate(chain, rng, &result{tpl: tpl})
		if res.signErr != nil || !res.complete || res.tx == nil {
			add("chain:merge:sign:{kind}", fmt.Sprintf("merge template %d cannot be signed to quorum: %v", i, res.signErr))
			return fs, nil
		}
		if res.valErr != nil {
			add("chain:merge:validate:{kind}:"+rootErr(res.valErr), fmt.Sprintf("merge transaction %d is rejected by consensus validation: %v", i, res.valErr))
		}
		tx := res.tx
		var in uint64
		for j, inp := range tx.Inputs {
			id, err := inp.SpentOutputID()
			if err != nil {
				add("chain:merge:input-type", fmt.Sprintf("merge transaction %d input %d is not a spend", i, j))
				continue
			}
			in += inp.Amount()
			if pr, ok := produced[id]; ok {
				if pr.spent {
					add("chain:merge:input-duplicate", fmt.Sprintf("merged output %s is spent twice in the chain", id.String()))
				}
				pr.spent = true
				continue
			}
			rec, ok := w.utxos[id]
			switch {
			case !ok:
				add("chain:merge:input-unknown", fmt.Sprintf("merge transaction %d input %d spends %s which is neither a UTXO of the wallet nor a merged output", i, j, id.String()))
			case rec.acct != a || rec.u.AssetID != btm || rec.u.Vote != nil || rec.unconf:
				add("chain:merge:input-class", fmt.Sprintf("merge transaction %d input %d spends an output outside the requested class", i, j))
			case rec.reserved:
				add("chain:merge:input-reserved", fmt.Sprintf("merge transaction %d input %d spends an output an earlier template already spends", i, j))
			case used[id]:
				add("chain:merge:input-duplicate", fmt.Sprintf("output %s is spent twice in the chain", id.String()))
			}
			used[id] = true
		}
		if len(tx.Outputs) != 1 {
			add("chain:merge:output-count", fmt.Sprintf("merge transaction %d has %d outputs", i, len(tx.Outputs)))
			continue
		}
		o := tx.Outputs[0]
		owner, ok := w.owner(o.ControlProgram)
		if !ok || owner != a || *o.AssetId != btm || o.OutputType() != types.OriginalOutputType {
			add("chain:merge:output-owner", fmt.Sprintf("merge transaction %d pays %x which is not a plain BTM output of the spending account", i, o.ControlProgram))
		}
		if in < o.Amount || in-o.Amount != txbuilder.ChainTxMergeGas || tpl.Fee != txbuilder.ChainTxMergeGas {
			add("chain:merge:fee", fmt.Sprintf("merge transaction %d: in %d, out %d, template fee %d (the merge fee is %d)", i, in, o.Amount, tpl.Fee, txbuilder.ChainTxMergeGas))
		}
		lastID, lastOut, lastTx = *tx.OutputID(0), o, tx
		produced[lastID] = &prod{amount: o.Amount}
	}
	for id, pr := range produced {
		if !pr.spent && id != lastID {
			add("chain:merge:dangling-output", "a merged output is spent neither by a later merge nor by the final transaction")
		}
	}
	// the last merged output stands in as an (unconfirmed-looking but requested) output of the account
	if lastOut != nil {
		e, ok := lastTx.Entries[lastID].(*bc.OriginalOutput)
		if !ok {
			add("chain:merge:output-type", "the merged output is not an ordinary output")
			return fs, nil
		}
		w.utxos[lastID] = &utxoRec{acct: a, u: &account.UTXO{OutputID: lastID, AssetID: btm, Amount: lastOut.Amount, ControlProgram: lastOut.ControlProgram,
			SourceID: *e.Source.Ref, SourcePos: e.Source.Position, AccountID: w.accts[a].acc.ID}}
		defer delete(w.utxos, lastID)
	}
	final := w.signAndValidate(chain, rng, &result{tpl: tpls[len(tpls)-1]})
	ffs := w.oracle(p, final)
	fs = append(fs, ffs...)
	if final.tx != nil {
		n := 0
		for _, inp := range final.tx.Inputs {
			id, err := inp.SpentOutputID()
			if err != nil {
				continue
			}
			if rec, ok := w.utxos[id]; ok && rec.acct == a && rec.u.AssetID == btm && rec.u.Vote == nil {
				n++
				if lastOut != nil && id != lastID {
					add("chain:final:bypasses-merge", "the final transaction spends an original output although merge transactions were built")
				}
			}
			used[id] = true
		}
		if n != 1 {
			add("chain:final:btm-inputs", fmt.Sprintf("the final transaction has %d plain BTM inputs of the account (the chain spend yields exactly one)", n))
		}
	}
	for id := range used {
		if rec, ok := w.utxos[id]; ok && id != lastID {
			rec.reserved = true
		}
	}
	return fs, final
}
