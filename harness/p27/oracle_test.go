package p27

import (
	"bytes"
	"fmt"
	"sort"

	"github.com/bytom/bytom/errors"
	"github.com/bytom/bytom/protocol"
	"github.com/bytom/bytom/protocol/bc"
	"github.com/bytom/bytom/protocol/bc/types"

	"verif/internal/ev"
)

type finding struct {
	key   string // {in} and {kind} are filled in by the caller (input action types, single/multi)
	what  string
	extra map[string]interface{}
}

type fclass struct {
	acct  int
	asset bc.AssetID
	vote  string
}

// oracle decides one accepted build.
func (w *world) oracle(p *plan, res *result) []finding {
	var fs []finding
	if res.signErr != nil {
		return []finding{{key: "sign:error:{kind}", what: "signing / serialising the template failed: " + res.signErr.Error()}}
	}
	if !res.complete {
		fs = append(fs, finding{key: "sign:incomplete:{kind}", what: fmt.Sprintf("signing with a quorum of keys in %d rounds did not complete the template", res.rounds)})
	}
	if res.tx == nil {
		return fs
	}
	if res.valErr != nil {
		fs = append(fs, finding{key: "validate:{in}:{kind}:" + errors.Root(res.valErr).Error(), what: "consensus validation rejects the built and signed transaction: " + res.valErr.Error()})
	}
	if res.tpl.Transaction.ID != res.tx.ID {
		fs = append(fs, finding{key: "roundtrip:txid-changed", what: "the raw transaction decodes to a different transaction id"})
	}
	fs = append(fs, w.structural(p, res.tx, res.tpl.Fee)...)
	return fs
}

// structural checks what consensus validation cannot know: who was supposed to be paid, from which
// account, and which outputs the wallet really owns.
func (w *world) structural(p *plan, tx *types.Tx, tplFee uint64) []finding {
	var fs []finding
	add := func(key, what string, extra map[string]interface{}) {
		fs = append(fs, finding{key, what, extra})
	}

	// ---- requests per funding class
	requested := map[fclass]uint64{}
	flagged := map[fclass]bool{}
	specific := map[bc.Hash]*inReq{}
	spender := map[int]bool{}
	for _, a := range p.acts {
		if a.in == nil {
			continue
		}
		r := a.in
		c := fclass{r.acct, r.asset, voteKey(r.vote)}
		spender[r.acct] = true
		requested[c] += r.amount
		if r.typ == "spend_account_unspent_output" {
			specific[r.outID] = r
		} else if r.unconf {
			flagged[c] = true
		}
	}

	// ---- inputs
	provided := map[fclass]uint64{}
	seen := map[bc.Hash]bool{}
	var inBTM, outBTM uint64
	for i, in := range tx.Inputs {
		if in.AssetID() == btm {
			inBTM += in.Amount()
		}
		id, err := in.SpentOutputID()
		if err != nil {
			add("input:not-a-spend:{in}", fmt.Sprintf("input %d is neither a spend nor a veto", i), nil)
			continue
		}
		if seen[id] {
			add("input:duplicate:{in}", fmt.Sprintf("output %s is spent twice in one transaction", id.String()), nil)
			continue
		}
		seen[id] = true
		rec, ok := w.utxos[id]
		if !ok {
			add("input:unknown-utxo:{in}", fmt.Sprintf("input %d spends output %s which is not a UTXO of the wallet (asset %s amount %d)", i, id.String(), astr(in.AssetID()), in.Amount()), nil)
			continue
		}
		if rec.reserved {
			add("input:already-reserved:{in}", fmt.Sprintf("input %d spends output %s which an earlier, still pending template already spends", i, id.String()), nil)
		}
		wantType := types.SpendInputType
		if rec.u.Vote != nil {
			wantType = types.VetoInputType
		}
		if in.InputType() != wantType {
			add("input:type:{in}", fmt.Sprintf("input %d has type %d, the output needs type %d", i, in.InputType(), wantType), nil)
		}
		c := fclass{rec.acct, rec.u.AssetID, voteKey(rec.u.Vote)}
		if _, ok := requested[c]; !ok {
			add("input:unrequested-class:{in}", fmt.Sprintf("input %d spends funds of account %d (asset %s, vote %t) that no action asked for", i, rec.acct, rec.u.AssetID.String(), rec.u.Vote != nil), nil)
		}
		if rec.unconf {
			allowed := flagged[c]
			if s, ok := specific[id]; ok && s.unconf {
				allowed = true
			}
			if !allowed {
				add("input:unconfirmed-not-allowed:{in}", fmt.Sprintf("input %d spends an unconfirmed output although use_unconfirmed is false", i), nil)
			}
		}
		provided[c] += rec.u.Amount
	}
	for id := range specific {
		if !seen[id] {
			add("input:requested-utxo-missing", "a spend_account_unspent_output action has no corresponding input: "+id.String(), nil)
		}
	}
	changeWant := map[[2]interface{}]uint64{}
	short := false
	for c, req := range requested {
		got := provided[c]
		if got < req {
			short = true
			add("input:short:{in}", fmt.Sprintf("partially funded: account %d asset %s requested %d, inputs provide %d", c.acct, c.asset.String(), req, got), nil)
			continue
		}
		changeWant[[2]interface{}{c.acct, c.asset}] += got - req
	}

	// ---- outputs: requested recipients (multiset), the rest must be change
	used := make([]bool, len(tx.Outputs))
	for _, o := range tx.Outputs {
		if *o.AssetId == btm {
			outBTM += o.Amount
		}
	}
	for _, a := range p.acts {
		if a.out == nil {
			continue
		}
		r := a.out
		found := false
		for i, o := range tx.Outputs {
			if used[i] || *o.AssetId != r.asset || o.Amount != r.amount || !bytes.Equal(o.ControlProgram, r.program) {
				continue
			}
			if r.typ == "vote_output" {
				vo, ok := o.TypedOutput.(*types.VoteOutput)
				if !ok || !bytes.Equal(vo.Vote, r.vote) {
					continue
				}
			} else if o.OutputType() != types.OriginalOutputType {
				continue
			}
			if len(o.StateData) != 0 {
				continue
			}
			used[i], found = true, true
			break
		}
		if !found {
			add("recipient:missing:"+short2(r.typ), fmt.Sprintf("no output pays %d of %s to program %x (%s)", r.amount, r.asset.String(), r.program, r.typ), nil)
		}
	}
	changeGot := map[[2]interface{}]uint64{}
	for i, o := range tx.Outputs {
		if used[i] {
			continue
		}
		owner, ok := w.owner(o.ControlProgram)
		switch {
		case !ok:
			add("change:foreign-program:{in}", fmt.Sprintf("output %d (%d of %s) was not requested and pays program %x which no account of the wallet owns", i, o.Amount, o.AssetId.String(), o.ControlProgram), nil)
		case !spender[owner]:
			add("change:other-account:{in}", fmt.Sprintf("output %d (%d of %s) was not requested and pays account %d which spends nothing here", i, o.Amount, o.AssetId.String(), owner), nil)
		case o.OutputType() != types.OriginalOutputType:
			add("change:vote-output:{in}", fmt.Sprintf("unrequested output %d is a vote output", i), nil)
		default:
			changeGot[[2]interface{}{owner, *o.AssetId}] += o.Amount
		}
	}
	if !short {
		for k, want := range changeWant {
			if changeGot[k] != want {
				add("change:amount:{in}", fmt.Sprintf("account %v asset %v: inputs - requested = %d but change outputs to the account sum to %d", k[0], k[1], want, changeGot[k]), nil)
			}
		}
		for k, got := range changeGot {
			if _, ok := changeWant[k]; !ok && got != 0 {
				add("change:amount:{in}", fmt.Sprintf("account %v asset %v: %d of change but the account spends nothing of this asset", k[0], k[1], got), nil)
			}
		}
	}

	// ---- fee
	if inBTM < outBTM || inBTM-outBTM != p.fee {
		add("fee:not-as-requested:{in}", fmt.Sprintf("BTM in %d - out %d differs from the surplus the actions define (%d)", inBTM, outBTM, p.fee), nil)
	}
	if inBTM >= outBTM && (tx.Fee() != inBTM-outBTM || tplFee != inBTM-outBTM) {
		add("fee:reported", fmt.Sprintf("BTM in - out = %d, tx.Fee() = %d, template fee = %d", inBTM-outBTM, tx.Fee(), tplFee), nil)
	}
	return fs
}

func short2(t string) string { return short(t) }

// selfTest: the structural oracle must flag single-field mutants of an accepted transaction (sensitivity
// evidence; an undetected mutant makes the run inconclusive, it is not a violation of the property).
func selfTest(base string, c *ev.Case, chain *protocol.Chain) {
	rng := c.Rand
	w, err := newWorld(base, chain, rng)
	defer w.close()
	if err != nil {
		c.Inconclusive("self-test set-up: %v", err)
		return
	}
	g := &gen{w: w, rng: rng}
	for b := 0; b < 4; b++ {
		p, err := g.positive(nil)
		if err != nil || p == nil || p.intent != "ok" {
			continue
		}
		res := w.run(chain, rng.Fork(), p)
		if res.buildErr != nil || res.tx == nil || res.valErr != nil || len(w.structural(p, res.tx, res.tpl.Fee)) != 0 {
			return // the main group reports it
		}
		base := res.tx.TxData
		clone := func() types.TxData {
			d := types.TxData{Version: base.Version, TimeRange: base.TimeRange, SerializedSize: base.SerializedSize}
			for _, in := range base.Inputs {
				cp := *in
				d.Inputs = append(d.Inputs, &cp)
			}
			for _, o := range base.Outputs {
				cp := *o
				d.Outputs = append(d.Outputs, &cp)
			}
			return d
		}
		// which outputs are recipients / change
		mutants := map[string]func(d *types.TxData) bool{
			"output-amount-minus-1": func(d *types.TxData) bool {
				o := d.Outputs[rng.Intn(len(d.Outputs))]
				if o.Amount < 2 {
					return false
				}
				o.Amount--
				return true
			},
			"output-program-foreign": func(d *types.TxData) bool {
				_, prog, _ := externalAddr(rng)
				d.Outputs[rng.Intn(len(d.Outputs))].ControlProgram = prog
				return true
			},
			"output-dropped": func(d *types.TxData) bool {
				i := rng.Intn(len(d.Outputs))
				d.Outputs = append(d.Outputs[:i], d.Outputs[i+1:]...)
				return true
			},
			"output-extra-to-stranger": func(d *types.TxData) bool {
				_, prog, _ := externalAddr(rng)
				d.Outputs = append(d.Outputs, types.NewOriginalTxOutput(btm, 1, prog, nil))
				return true
			},
			"input-duplicated": func(d *types.TxData) bool {
				cp := *d.Inputs[0]
				d.Inputs = append(d.Inputs, &cp)
				return true
			},
			"input-dropped": func(d *types.TxData) bool {
				if len(d.Inputs) < 2 {
					return false
				}
				i := rng.Intn(len(d.Inputs))
				d.Inputs = append(d.Inputs[:i], d.Inputs[i+1:]...)
				return true
			},
			"input-foreign": func(d *types.TxData) bool {
				in := d.Inputs[rng.Intn(len(d.Inputs))]
				var h [32]byte
				copy(h[:], rng.Bytes(32))
				d.Inputs = append(d.Inputs, types.NewSpendInput(nil, bc.NewHash(h), in.AssetID(), 7, 0, in.ControlProgram(), nil))
				return true
			},
			"input-of-reserved-utxo": func(d *types.TxData) bool {
				for _, id := range w.order {
					r := w.utxos[id]
					if r.reserved && r.u.Vote == nil {
						d.Inputs = append(d.Inputs, types.NewSpendInput(nil, r.u.SourceID, r.u.AssetID, r.u.Amount, r.u.SourcePos, r.u.ControlProgram, nil))
						return true
					}
				}
				return false
			},
		}
		names := make([]string, 0, len(mutants))
		for name := range mutants {
			names = append(names, name)
		}
		sort.Strings(names)
		for _, name := range names {
			mut := mutants[name]
			d := clone()
			if !mut(&d) {
				continue
			}
			c.Count("selftest/mutants", 1)
			if len(w.structural(p, types.NewTx(d), types.NewTx(d).Fee())) == 0 {
				c.Inconclusive("oracle self-test: mutant %q of an accepted transaction is not flagged", name)
			} else {
				c.Count("selftest/mutants-detected", 1)
				c.Count("selftest/"+name, 1)
			}
		}
		for _, in := range res.tx.Inputs {
			if id, err := in.SpentOutputID(); err == nil {
				if rec, ok := w.utxos[id]; ok {
					rec.reserved = true
				}
			}
		}
	}
}

func astr(a bc.AssetID) string { return a.String() }

func rootErr(err error) string { return errors.Root(err).Error() }
