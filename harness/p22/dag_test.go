package p22

// Transaction DAGs for the C22 monitor: specification, named catalogue, random
// generator and the builder that turns a specification into real types.Tx
// values whose inputs spend the actual output IDs of their parents.

import (
	"encoding/binary"
	"encoding/hex"
	"fmt"
	"strings"

	"github.com/bytom/bytom/consensus"
	"github.com/bytom/bytom/database/storage"
	"github.com/bytom/bytom/protocol/bc"
	"github.com/bytom/bytom/protocol/bc/types"

	"verif/internal/ev"
)

type inKind uint8

const (
	inParent    inKind = iota // spends output `out` of node `node` (an earlier node of the DAG)
	inConf                    // spends a confirmed, unspent output of the store
	inSpentConf               // spends a confirmed output the store marks as spent
	inUnknown                 // spends an output nobody knows (never becomes available)
)

type inRef struct {
	kind      inKind
	node, out int
}

type nodeSpec struct {
	ins  []inRef
	outs []bool // one per output; true = retirement (OP_FAIL program), not spendable
	dust bool   // first output has amount 0: TxPool.IsDust
}

// dagSpec lists nodes in a topological order (parents before children).
type dagSpec struct {
	name  string
	nodes []nodeSpec
}

func p(node, out int) inRef { return inRef{inParent, node, out} }

var (
	cf = inRef{kind: inConf}
	sp = inRef{kind: inSpentConf}
	un = inRef{kind: inUnknown}
)

func nd(outs int, ins ...inRef) nodeSpec {
	return nodeSpec{ins: ins, outs: make([]bool, outs)}
}

func (n nodeSpec) retire(i int) nodeSpec {
	o := append([]bool(nil), n.outs...)
	o[i] = true
	n.outs = o
	return n
}

func (d *dagSpec) sig() string {
	var sb strings.Builder
	for i, n := range d.nodes {
		if i > 0 {
			sb.WriteByte(';')
		}
		for k, in := range n.ins {
			if k > 0 {
				sb.WriteByte(',')
			}
			switch in.kind {
			case inParent:
				fmt.Fprintf(&sb, "%d.%d", in.node, in.out)
			case inConf:
				sb.WriteByte('c')
			case inSpentConf:
				sb.WriteByte('s')
			default:
				sb.WriteByte('u')
			}
		}
		sb.WriteByte('>')
		for _, r := range n.outs {
			if r {
				sb.WriteByte('r')
			} else {
				sb.WriteByte('o')
			}
		}
		if n.dust {
			sb.WriteByte('d')
		}
	}
	return sb.String()
}

func (d *dagSpec) describe() []string {
	out := make([]string, len(d.nodes))
	for i, n := range d.nodes {
		var ins, outs []string
		for _, in := range n.ins {
			switch in.kind {
			case inParent:
				ins = append(ins, fmt.Sprintf("n%d.out%d", in.node, in.out))
			case inConf:
				ins = append(ins, "confirmed")
			case inSpentConf:
				ins = append(ins, "confirmed-but-spent")
			default:
				ins = append(ins, "unknown")
			}
		}
		for _, r := range n.outs {
			if r {
				outs = append(outs, "retirement")
			} else {
				outs = append(outs, "spendable")
			}
		}
		s := fmt.Sprintf("n%d: inputs[%s] outputs[%s]", i, strings.Join(ins, ", "), strings.Join(outs, ", "))
		if n.dust {
			s += " DUST(zero-amount output)"
		}
		out[i] = s
	}
	return out
}

// shape class used in the distinct key / counters.
func (d *dagSpec) class() string {
	maxPar, fan, mixed := 0, 0, false
	users := map[[2]int]int{}
	for _, n := range d.nodes {
		par := map[int]bool{}
		other := false
		for _, in := range n.ins {
			if in.kind == inParent {
				par[in.node] = true
				users[[2]int{in.node, in.out}]++
			} else {
				other = true
			}
		}
		if len(par) > maxPar {
			maxPar = len(par)
		}
		if len(par) > 0 && other {
			mixed = true
		}
	}
	childCount := map[int]int{}
	for _, n := range d.nodes {
		seen := map[int]bool{}
		for _, in := range n.ins {
			if in.kind == inParent && !seen[in.node] {
				seen[in.node] = true
				childCount[in.node]++
			}
		}
	}
	for _, c := range childCount {
		if c > fan {
			fan = c
		}
	}
	conflict := false
	for _, c := range users {
		if c > 1 {
			conflict = true
		}
	}
	s := fmt.Sprintf("n%d/par%d/fan%d", len(d.nodes), maxPar, fan)
	if mixed {
		s += "/mixed"
	}
	if conflict {
		s += "/conflict"
	}
	return s
}

// catalogue of named small shapes; every one is run in all submission orders.
func catalogue() []*dagSpec {
	return []*dagSpec{
		{"single", []nodeSpec{nd(1, cf)}},
		{"chain2", []nodeSpec{nd(1, cf), nd(1, p(0, 0))}},
		{"chain3", []nodeSpec{nd(1, cf), nd(1, p(0, 0)), nd(1, p(1, 0))}},
		{"chain4", []nodeSpec{nd(1, cf), nd(1, p(0, 0)), nd(1, p(1, 0)), nd(1, p(2, 0))}},
		{"two-parent", []nodeSpec{nd(1, cf), nd(1, cf), nd(1, p(0, 0), p(1, 0))}},
		{"three-parent", []nodeSpec{nd(1, cf), nd(1, cf), nd(1, cf), nd(1, p(0, 0), p(1, 0), p(2, 0))}},
		{"diamond", []nodeSpec{nd(2, cf), nd(1, p(0, 0)), nd(1, p(0, 1)), nd(1, p(1, 0), p(2, 0))}},
		{"fanout3", []nodeSpec{nd(3, cf), nd(1, p(0, 0)), nd(1, p(0, 1)), nd(1, p(0, 2))}},
		{"same-parent-two-inputs", []nodeSpec{nd(2, cf), nd(1, p(0, 0), p(0, 1))}},
		{"parent-then-confirmed", []nodeSpec{nd(1, cf), nd(1, p(0, 0), cf)}},
		{"confirmed-then-parent", []nodeSpec{nd(1, cf), nd(1, cf, p(0, 0))}},
		{"conflict", []nodeSpec{nd(1, cf), nd(1, p(0, 0)), nd(1, p(0, 0))}},
		{"retirement-sibling", []nodeSpec{nd(2, cf).retire(1), nd(1, p(0, 0)), nd(2, p(1, 0)).retire(0)}},
		{"unknown-input", []nodeSpec{nd(1, cf), nd(1, p(0, 0), un), nd(1, un)}},
		{"spent-confirmed-input", []nodeSpec{nd(1, sp), nd(1, p(0, 0)), nd(1, cf)}},
		{"unrelated", []nodeSpec{nd(1, cf), nd(1, cf), nd(1, p(0, 0)), nd(1, cf, cf)}},
		{"two-parent-grandchild", []nodeSpec{nd(1, cf), nd(1, cf), nd(1, p(0, 0), p(1, 0)), nd(1, p(2, 0))}},
		{"dust-parent", []nodeSpec{{ins: []inRef{cf}, outs: make([]bool, 2), dust: true}, nd(1, p(0, 1)), nd(1, cf)}},
		{"chain5", []nodeSpec{nd(1, cf), nd(1, p(0, 0)), nd(1, p(1, 0)), nd(1, p(2, 0)), nd(1, p(3, 0))}},
		{"diamond-tail", []nodeSpec{nd(2, cf), nd(1, p(0, 0)), nd(1, p(0, 1)), nd(1, p(1, 0), p(2, 0)), nd(1, p(3, 0))}},
		{"two-parent-chain-parents", []nodeSpec{nd(1, cf), nd(1, p(0, 0)), nd(1, cf), nd(1, p(2, 0)), nd(1, p(1, 0), p(3, 0))}},
		{"three-parent-mixed", []nodeSpec{nd(1, cf), nd(2, cf), nd(1, p(1, 1)), nd(1, p(0, 0), cf, p(1, 0)), nd(1, p(3, 0), p(2, 0))}},
		{"double-diamond", []nodeSpec{nd(2, cf), nd(1, p(0, 0)), nd(1, p(0, 1)), nd(2, p(1, 0), p(2, 0)), nd(1, p(3, 0)), nd(1, p(3, 1), p(4, 0))}},
		{"two-vs-joined", []nodeSpec{nd(1, cf), nd(2, cf), nd(1, cf), nd(1, p(0, 0), p(1, 0)), nd(1, p(1, 1), p(2, 0)), nd(1, p(3, 0), p(4, 0))}},
	}
}

// randomDAG generates n nodes: chains, diamonds, 2-3 parent joins, fan-out, conflicts,
// unrelated transactions, retirement outputs, and rarely unknown / spent / dust nodes.
func randomDAG(rng *ev.Rand, n int) *dagSpec {
	d := &dagSpec{name: "random"}
	type oref struct{ node, out int }
	var free []oref // spendable outputs not yet spent inside the DAG
	var all []oref  // all spendable outputs
	for i := 0; i < n; i++ {
		var ns nodeSpec
		k := 1 + rng.Pick([]int{50, 35, 15})
		used := map[oref]bool{}
		for j := 0; j < k; j++ {
			var in inRef
			switch {
			case len(all) > 0 && rng.Chance(70, 100):
				var o oref
				if len(free) > 0 && !rng.Chance(1, 10) {
					x := rng.Intn(len(free))
					o = free[x]
					free = append(free[:x], free[x+1:]...)
				} else {
					o = all[rng.Intn(len(all))] // possibly a double spend of an already used output
				}
				if used[o] { // never the same output twice inside one transaction
					in = cf
				} else {
					used[o] = true
					in = p(o.node, o.out)
				}
			case rng.Chance(1, 16):
				in = un
			case rng.Chance(1, 16):
				in = sp
			default:
				in = cf
			}
			ns.ins = append(ns.ins, in)
		}
		no := 1 + rng.Pick([]int{50, 35, 15})
		ns.outs = make([]bool, no)
		for j := range ns.outs {
			ns.outs[j] = rng.Chance(1, 8)
		}
		if rng.Chance(1, 40) {
			ns.dust = true
			ns.outs[0] = false
		}
		for j, r := range ns.outs {
			if !r && !(ns.dust && j == 0) {
				free = append(free, oref{i, j})
				all = append(all, oref{i, j})
			}
		}
		d.nodes = append(d.nodes, ns)
	}
	return d
}

// ---------------------------------------------------------------------------

type builtTx struct {
	idx       int
	tx        *types.Tx
	id        bc.Hash
	inputs    []bc.Hash // tx.SpentOutputIDs, in input order
	spendable []bc.Hash // result IDs of the ordinary outputs (as specified by the DAG, not derived from the pool's logic)
	retired   []bc.Hash // result IDs of retirement outputs
	dust      bool
}

type built struct {
	spec      *dagSpec
	txs       []*builtTx
	byID      map[bc.Hash]*builtTx
	creator   map[bc.Hash]*builtTx           // spendable output ID -> creating transaction
	retiredBy map[bc.Hash]*builtTx           // retirement result ID -> creating transaction
	confirmed map[bc.Hash]*storage.UtxoEntry // the store's content
	outRank   map[bc.Hash]uint64             // deterministic order of output IDs for reports
}

func short(h bc.Hash) string { return hex.EncodeToString(h.Bytes()[:4]) }

func (b *built) name(id bc.Hash) string {
	if t := b.byID[id]; t != nil {
		return fmt.Sprintf("n%d", t.idx)
	}
	return "tx?" + short(id)
}

func (b *built) outName(out bc.Hash) string {
	if t := b.creator[out]; t != nil {
		for j, id := range t.tx.ResultIds {
			if *id == out {
				return fmt.Sprintf("n%d.out%d", t.idx, j)
			}
		}
	}
	if t := b.retiredBy[out]; t != nil {
		return fmt.Sprintf("n%d.retirement", t.idx)
	}
	if e := b.confirmed[out]; e != nil {
		if e.Spent {
			return "confirmed-spent:" + short(out)
		}
		return "confirmed:" + short(out)
	}
	return "unknown:" + short(out)
}

func rootHash(nonce uint64, node, input int, kind inKind) bc.Hash {
	var b [32]byte
	binary.LittleEndian.PutUint64(b[0:], nonce)
	b[8], b[9], b[10], b[11] = byte(node), byte(input), byte(kind), 0xc2
	return bc.NewHash(b)
}

var (
	progTrue = []byte{0x51} // OP_TRUE
	progFail = []byte{0x6a} // OP_FAIL: retirement
)

// build maps the specification to real transactions.  An error means the
// harness (not the code under test) is inconsistent.
func build(spec *dagSpec, nonce uint64) (*built, error) {
	b := &built{spec: spec, byID: map[bc.Hash]*builtTx{}, creator: map[bc.Hash]*builtTx{}, retiredBy: map[bc.Hash]*builtTx{},
		confirmed: map[bc.Hash]*storage.UtxoEntry{}, outRank: map[bc.Hash]uint64{}}
	btm := *consensus.BTMAssetID
	for i, n := range spec.nodes {
		var ins []*types.TxInput
		for k, in := range n.ins {
			switch in.kind {
			case inParent:
				if in.node >= i || in.out >= len(spec.nodes[in.node].outs) || spec.nodes[in.node].outs[in.out] {
					return nil, fmt.Errorf("bad DAG: node %d input %d", i, k)
				}
				pt := b.txs[in.node].tx
				o, err := pt.Tx.OriginalOutput(*pt.ResultIds[in.out])
				if err != nil {
					return nil, fmt.Errorf("parent output: %v", err)
				}
				ins = append(ins, types.NewSpendInput(nil, *o.Source.Ref, *o.Source.Value.AssetId, o.Source.Value.Amount, o.Source.Position, o.ControlProgram.Code, o.StateData))
			default:
				ins = append(ins, types.NewSpendInput(nil, rootHash(nonce, i, k, in.kind), btm, uint64(5000+16*i+k), uint64(k), progTrue, nil))
			}
		}
		var outs []*types.TxOutput
		for j, r := range n.outs {
			amt := uint64(1000 + 16*i + j)
			if n.dust && j == 0 {
				amt = 0
			}
			prog := progTrue
			if r {
				prog = progFail
			}
			outs = append(outs, types.NewOriginalTxOutput(btm, amt, prog, nil))
		}
		tx := types.NewTx(types.TxData{Version: 1, SerializedSize: uint64(100 + i), Inputs: ins, Outputs: outs})
		bt := &builtTx{idx: i, tx: tx, id: tx.ID, inputs: append([]bc.Hash(nil), tx.SpentOutputIDs...), dust: n.dust}
		if len(bt.inputs) != len(n.ins) || len(tx.ResultIds) != len(n.outs) {
			return nil, fmt.Errorf("node %d: mapped tx has %d inputs / %d results", i, len(bt.inputs), len(tx.ResultIds))
		}
		for k, in := range n.ins {
			switch in.kind {
			case inParent:
				if bt.inputs[k] != *b.txs[in.node].tx.ResultIds[in.out] {
					return nil, fmt.Errorf("node %d input %d does not spend the parent's output id", i, k)
				}
			case inConf:
				b.confirmed[bt.inputs[k]] = &storage.UtxoEntry{Type: storage.NormalUTXOType, BlockHeight: 1, Spent: false}
			case inSpentConf:
				b.confirmed[bt.inputs[k]] = &storage.UtxoEntry{Type: storage.CoinbaseUTXOType, BlockHeight: 1, Spent: true}
			}
		}
		for k := range n.ins {
			if _, ok := b.outRank[bt.inputs[k]]; !ok {
				b.outRank[bt.inputs[k]] = 1<<20 | uint64(i)<<8 | uint64(k)
			}
		}
		for j, r := range n.outs {
			id := *tx.ResultIds[j]
			b.outRank[id] = uint64(i)<<8 | uint64(j)
			if r {
				bt.retired = append(bt.retired, id)
				b.retiredBy[id] = bt
			} else {
				bt.spendable = append(bt.spendable, id)
				if b.creator[id] != nil {
					return nil, fmt.Errorf("duplicate output id")
				}
				b.creator[id] = bt
			}
		}
		if b.byID[bt.id] != nil {
			return nil, fmt.Errorf("duplicate tx id")
		}
		b.byID[bt.id] = bt
		b.txs = append(b.txs, bt)
	}
	return b, nil
}

// permutations calls f with every permutation of [0,n) (Heap's algorithm; the slice is reused).
func permutations(n int, f func([]int)) {
	a := make([]int, n)
	for i := range a {
		a[i] = i
	}
	var rec func(k int)
	rec = func(k int) {
		if k <= 1 {
			f(a)
			return
		}
		for i := 0; i < k-1; i++ {
			rec(k - 1)
			if k%2 == 0 {
				a[i], a[k-1] = a[k-1], a[i]
			} else {
				a[0], a[k-1] = a[k-1], a[0]
			}
		}
		rec(k - 1)
	}
	rec(n)
}
