package p22

// History runner and oracle of the C22 monitor.
//
// The runner applies one operation at a time to the pool under test, takes a
// locked snapshot of the four bookkeeping maps after every call, advances an
// independent reference model (sets of pooled / orphaned transactions derived
// only from the property statement) and checks the snapshot against it.

import (
	"errors"
	"fmt"
	"sort"
	"strings"
	"time"

	"github.com/bytom/bytom/database"
	dbm "github.com/bytom/bytom/database/leveldb"
	"github.com/bytom/bytom/database/storage"
	"github.com/bytom/bytom/event"
	"github.com/bytom/bytom/protocol"
	"github.com/bytom/bytom/protocol/bc"
	"github.com/bytom/bytom/protocol/bc/types"
	"github.com/bytom/bytom/protocol/state"
)

type snap = protocol.VerifTxPoolSnapshot

// poolAPI is what the runner drives: the real TxPool, or (in the oracle's
// self-test) a re-implementation with switchable defects.
type poolAPI interface {
	Process(tx *types.Tx, height, fee uint64) (bool, error)
	Remove(id *bc.Hash)
	Expire(t time.Time)
	Have(id *bc.Hash) bool
	Snap() *snap
}

type realPool struct{ tp *protocol.TxPool }

func (r realPool) Process(tx *types.Tx, height, fee uint64) (bool, error) {
	return r.tp.ProcessTransaction(tx, height, fee)
}
func (r realPool) Remove(id *bc.Hash)    { r.tp.RemoveTransaction(id) }
func (r realPool) Expire(t time.Time)    { r.tp.ExpireOrphan(t) }
func (r realPool) Have(id *bc.Hash) bool { return r.tp.HaveTransaction(id) }
func (r realPool) Snap() *snap           { return r.tp.VerifTxPoolSnapshot() }

func newRealPool(st *memStore) poolAPI {
	return realPool{protocol.NewTxPool(st, event.NewDispatcher())}
}

// memStore is the small store behind the pool: confirmed outputs only.  It
// mirrors database.getTransactionsUtxo (entries found are put into the view).
type memStore struct {
	utxo     map[bc.Hash]*storage.UtxoEntry
	failNext bool
	calls    int64
	// real: the node's own store (database.Store on a MemDB) holding the same confirmed outputs.  The
	// pool's lookups go through it, so that the storage layer's helper the pool depends on
	// (database.getTransactionsUtxo) is the code under observation, not a copy of it.
	real *database.Store
}

func newMemStore(utxo map[bc.Hash]*storage.UtxoEntry) *memStore {
	db := dbm.NewMemDB()
	view := state.NewUtxoViewpoint()
	for h, e := range utxo {
		cp := *e
		view.Entries[h] = &cp
	}
	batch := db.NewBatch()
	if err := database.SaveUtxoView(batch, view); err != nil {
		panic(err)
	}
	batch.Write()
	return &memStore{utxo: utxo, real: database.NewStore(db)}
}

var errInjected = errors.New("verif: injected store failure")

func (s *memStore) GetTransactionsUtxo(view *state.UtxoViewpoint, txs []*bc.Tx) error {
	s.calls++
	if s.failNext {
		s.failNext = false
		return errInjected
	}
	if s.real != nil {
		return s.real.GetTransactionsUtxo(view, txs)
	}
	for _, tx := range txs {
		for _, prevout := range tx.SpentOutputIDs {
			if view.HasUtxo(&prevout) {
				continue
			}
			if e, ok := s.utxo[prevout]; ok {
				cp := *e
				view.Entries[prevout] = &cp
			}
		}
	}
	return nil
}
func (s *memStore) GetUtxo(h *bc.Hash) (*storage.UtxoEntry, error) {
	if e, ok := s.utxo[*h]; ok {
		cp := *e
		return &cp, nil
	}
	return nil, errors.New("can't find utxo in db")
}
func (s *memStore) BlockExist(*bc.Hash) bool                { return false }
func (s *memStore) GetBlock(*bc.Hash) (*types.Block, error) { return nil, errors.New("no blocks") }
func (s *memStore) GetBlockHeader(*bc.Hash) (*types.BlockHeader, error) {
	return nil, errors.New("no blocks")
}
func (s *memStore) GetStoreStatus() *state.BlockStoreState            { return nil }
func (s *memStore) GetMainChainHash(uint64) (*bc.Hash, error)         { return nil, errors.New("no blocks") }
func (s *memStore) GetContract([32]byte) ([]byte, error)              { return nil, errors.New("no contracts") }
func (s *memStore) GetCheckpoint(*bc.Hash) (*state.Checkpoint, error) { return nil, errors.New("none") }
func (s *memStore) CheckpointsFromNode(uint64, *bc.Hash) ([]*state.Checkpoint, error) {
	return nil, nil
}
func (s *memStore) GetCheckpointsByHeight(uint64) ([]*state.Checkpoint, error) { return nil, nil }
func (s *memStore) SaveCheckpoints([]*state.Checkpoint) error                  { return nil }
func (s *memStore) SaveBlock(*types.Block) error                               { return nil }
func (s *memStore) SaveBlockHeader(*types.BlockHeader) error                   { return nil }
func (s *memStore) SaveChainStatus(*types.BlockHeader, []*types.BlockHeader, *state.UtxoViewpoint, *state.ContractViewpoint, uint64, *bc.Hash) error {
	return nil
}

// sink is the part of *ev.Case the runner needs (the self-test supplies its own).
type sink interface {
	Violation(key, what string, witness interface{})
	Count(name string, n int64)
	Max(name string, v int64)
}

// ---------------------------------------------------------------------------
// operations

type opKind uint8

const (
	opSubmit       opKind = iota // ProcessTransaction(node) unless HaveTransaction (as Chain.ValidateTx does)
	opSubmitFail                 // the same with a store failure injected into the first lookup
	opRemove                     // RemoveTransaction(node)
	opExpireNone                 // ExpireOrphan(1970)
	opExpireAll                  // ExpireOrphan(2200)
	opExpireBefore               // ExpireOrphan(t) with t = expiration of the k-th oldest orphan: it must stay, older ones go
	opExpireAt                   // ExpireOrphan(t) with t = that expiration + 1ns: it and older ones go, younger stay
)

type op struct {
	kind opKind
	node int // node index, or k for the expiration cuts
}

func (o op) String() string {
	switch o.kind {
	case opSubmit:
		return fmt.Sprintf("S%d", o.node)
	case opSubmitFail:
		return fmt.Sprintf("F%d", o.node)
	case opRemove:
		return fmt.Sprintf("R%d", o.node)
	case opExpireNone:
		return "E0"
	case opExpireAll:
		return "E*"
	case opExpireBefore:
		return fmt.Sprintf("E<%d", o.node)
	default:
		return fmt.Sprintf("E@%d", o.node)
	}
}

var (
	timeNone = time.Unix(0, 0)
	timeAll  = time.Date(2200, 1, 1, 0, 0, 0, 0, time.UTC)
)

// ---------------------------------------------------------------------------
// reference model

type mOrphan struct {
	// inputs that have been available at some moment since the transaction was (last) submitted as an
	// orphan: an index entry under such an input was legitimately never created or already consumed.
	everAvail map[bc.Hash]bool
	// number of distinct unavailable parents when it was orphaned
	pendingParents int
}

type hist struct {
	b   *built
	p   poolAPI
	st  *memStore
	out sink

	mpool   map[bc.Hash]bool
	morph   map[bc.Hash]*mOrphan
	pre     *snap
	labels  []string
	flagged map[string]bool

	justPromoted map[bc.Hash]*mOrphan // model records of the orphans promoted by the current call

	orphaned   int // orphan admissions in this history
	promotions int
	removed    int
	expired    int
}

func newHist(b *built, p poolAPI, st *memStore, out sink) *hist {
	return &hist{b: b, p: p, st: st, out: out, mpool: map[bc.Hash]bool{}, morph: map[bc.Hash]*mOrphan{}, flagged: map[string]bool{}}
}

func (h *hist) confirmedUnspent(x bc.Hash) bool {
	e := h.b.confirmed[x]
	return e != nil && !e.Spent
}

// availability of an output given a predicate "is this transaction pooled"
func (h *hist) avail(x bc.Hash, pooled func(bc.Hash) bool) bool {
	if h.confirmedUnspent(x) {
		return true
	}
	cr := h.b.creator[x]
	return cr != nil && pooled(cr.id)
}

func (h *hist) modelPooled(id bc.Hash) bool { return h.mpool[id] }

func snapPooled(s *snap) func(bc.Hash) bool {
	return func(id bc.Hash) bool { _, ok := s.Pool[id]; return ok }
}

func (h *hist) sortedIDs(m map[bc.Hash]bool) []bc.Hash {
	ids := make([]bc.Hash, 0, len(m))
	for id := range m {
		ids = append(ids, id)
	}
	sort.Slice(ids, func(i, j int) bool { return h.rank(ids[i]) < h.rank(ids[j]) })
	return ids
}

func (h *hist) rank(id bc.Hash) uint64 {
	if t := h.b.byID[id]; t != nil {
		return uint64(t.idx)
	}
	return 1<<32 | id.V0>>32
}

func (h *hist) outRank(o bc.Hash) uint64 {
	if r, ok := h.b.outRank[o]; ok {
		return r
	}
	return 1<<32 | o.V0>>32
}

// lazySnap defers the rendering of a snapshot to the moment a violation is really recorded.
type lazySnap struct {
	h *hist
	s *snap
}

func (h *hist) report(key, what string, extra map[string]interface{}) {
	if h.flagged[key] {
		return
	}
	h.flagged[key] = true
	for k, v := range extra {
		if l, ok := v.(lazySnap); ok {
			extra[k] = l.h.describeSnap(l.s)
		}
	}
	w := map[string]interface{}{
		"dag":        h.b.spec.describe(),
		"dag_name":   h.b.spec.name,
		"operations": strings.Join(h.labels, " ") + "   (S=ProcessTransaction F=same with store failure R=RemoveTransaction E=ExpireOrphan; the last one is the call after which the check failed)",
	}
	for k, v := range extra {
		w[k] = v
	}
	h.out.Violation(key, what, w)
}

func (h *hist) describeSnap(s *snap) map[string]interface{} {
	names := func(keys []bc.Hash) []string {
		o := make([]string, len(keys))
		for i, k := range keys {
			o[i] = h.b.name(k)
		}
		sort.Strings(o)
		return o
	}
	var pool, orph []bc.Hash
	for k := range s.Pool {
		pool = append(pool, k)
	}
	for k := range s.Orphans {
		orph = append(orph, k)
	}
	var utxo, idx []string
	for o, c := range s.Utxo {
		utxo = append(utxo, h.b.outName(o)+"<-"+h.b.name(c))
	}
	for o, m := range s.OrphansByPrev {
		var ks []bc.Hash
		for k := range m {
			ks = append(ks, k)
		}
		idx = append(idx, h.b.outName(o)+":"+strings.Join(names(ks), "+"))
	}
	sort.Strings(utxo)
	sort.Strings(idx)
	return map[string]interface{}{"pool": names(pool), "orphans": names(orph), "utxo": utxo, "orphansByPrev": idx}
}

// start takes the initial snapshot; the pool must be empty.
func (h *hist) start() bool {
	h.pre = h.p.Snap()
	return len(h.pre.Pool) == 0 && len(h.pre.Utxo) == 0 && len(h.pre.Orphans) == 0 && len(h.pre.OrphansByPrev) == 0
}

// step applies one operation and checks the resulting state.  It returns true
// when the membership of pool/orphans diverged from the model: the history is
// abandoned then (everything later would only be a consequence).
func (h *hist) step(o op) (abort bool) {
	pre := h.pre
	var subj *builtTx
	var gotOrphan bool
	var gotErr error
	var cut time.Time
	kind := o.kind

	switch kind {
	case opSubmit, opSubmitFail:
		subj = h.b.txs[o.node]
		if h.p.Have(&subj.id) {
			// Chain.ValidateTx never hands a pooled transaction to the pool again
			h.out.Count("submit_skipped_already_pooled", 1)
			return false
		}
		h.labels = append(h.labels, o.String())
		if kind == opSubmitFail && !subj.dust {
			h.st.failNext = true
		}
		gotOrphan, gotErr = h.p.Process(subj.tx, 1, 0)
		h.st.failNext = false
	case opRemove:
		subj = h.b.txs[o.node]
		h.labels = append(h.labels, o.String())
		h.p.Remove(&subj.id)
	default:
		// expiration; cuts are resolved against the orphans present now
		type oe struct {
			id  bc.Hash
			exp time.Time
		}
		var list []oe
		for id, e := range pre.Orphans {
			list = append(list, oe{id, e.Expiration})
		}
		sort.Slice(list, func(i, j int) bool {
			if !list[i].exp.Equal(list[j].exp) {
				return list[i].exp.Before(list[j].exp)
			}
			return h.rank(list[i].id) < h.rank(list[j].id)
		})
		switch {
		case kind == opExpireNone:
			cut = timeNone
		case kind == opExpireAll || len(list) == 0:
			kind = opExpireAll
			cut = timeAll
		case kind == opExpireBefore:
			cut = list[o.node%len(list)].exp
		default:
			cut = list[o.node%len(list)].exp.Add(time.Nanosecond)
		}
		h.labels = append(h.labels, op{kind, o.node}.String())
		h.p.Expire(cut)
	}
	post := h.p.Snap()
	h.pre = post
	h.out.Count("snapshots", 1)

	// ---- advance the reference model -------------------------------------
	var wantOrphan, wantErr bool
	var promoted []bc.Hash
	rounds := 0
	h.justPromoted = map[bc.Hash]*mOrphan{}
	switch kind {
	case opSubmit, opSubmitFail:
		switch {
		case subj.dust:
			h.out.Count("submit_dust", 1)
		case kind == opSubmitFail:
			wantErr = true
			h.out.Count("submit_store_error", 1)
		default:
			missing := 0
			parents := map[bc.Hash]bool{}
			for _, x := range subj.inputs {
				if !h.avail(x, h.modelPooled) {
					missing++
					parents[x] = true
					if cr := h.b.creator[x]; cr != nil {
						delete(parents, x)
						parents[cr.id] = true
					}
				}
			}
			if missing > 0 {
				wantOrphan = true
				if h.morph[subj.id] != nil {
					h.out.Count("resubmit_orphan", 1)
				}
				h.morph[subj.id] = &mOrphan{everAvail: map[bc.Hash]bool{}, pendingParents: len(parents)}
				h.orphaned++
				h.out.Count("submit_orphaned", 1)
				if len(parents) >= 2 {
					h.out.Count("submit_orphaned_multi_parent", 1)
				}
			} else {
				h.mpool[subj.id] = true
				h.out.Count("submit_pooled", 1)
				// promotion: every orphan whose inputs are all available joins the pool, recursively
				for changed := true; changed; {
					changed = false
					var round []bc.Hash
					for id := range h.morph {
						ok := true
						for _, x := range h.b.byID[id].inputs {
							if !h.avail(x, h.modelPooled) {
								ok = false
								break
							}
						}
						if ok {
							round = append(round, id)
						}
					}
					for _, id := range round {
						if h.morph[id].pendingParents >= 2 {
							h.out.Count("promotions_expected_multi_parent", 1)
						}
						h.justPromoted[id] = h.morph[id]
						delete(h.morph, id)
						h.mpool[id] = true
						promoted = append(promoted, id)
						changed = true
					}
					if changed {
						rounds++
					}
				}
			}
		}
	case opRemove:
		if h.mpool[subj.id] {
			delete(h.mpool, subj.id)
			h.removed++
			h.out.Count("remove_pooled", 1)
		} else if h.morph[subj.id] != nil {
			h.out.Count("remove_target_is_orphan_noop", 1)
		} else {
			h.out.Count("remove_absent_noop", 1)
		}
	default:
		n := 0
		for id := range h.morph {
			e, ok := pre.Orphans[id]
			if ok && e.Expiration.Before(cut) {
				delete(h.morph, id)
				n++
			}
		}
		h.expired += n
		h.out.Count("orphans_expired_expected", int64(n))
		switch kind {
		case opExpireNone:
			h.out.Count("expire_none", 1)
		case opExpireAll:
			h.out.Count("expire_all", 1)
		default:
			h.out.Count("expire_cut", 1)
			if n > 0 && len(h.morph) > 0 {
				h.out.Count("expire_cut_partial", 1)
			}
		}
	}
	if len(promoted) > 0 {
		h.promotions += len(promoted)
		h.out.Count("promotions_expected", int64(len(promoted)))
		h.out.Max("max_promotions_in_one_call", int64(len(promoted)))
		if rounds >= 2 {
			h.out.Count("promotion_cascades_expected", 1)
		}
	}

	// ---- return value ------------------------------------------------------
	if kind == opSubmit || kind == opSubmitFail {
		if (gotErr != nil) != wantErr {
			h.report(fmt.Sprintf("ProcessTransaction:error-mismatch:want-error=%v", wantErr), "ProcessTransaction returned an unexpected error status",
				map[string]interface{}{"tx": h.b.name(subj.id), "got_error": fmt.Sprint(gotErr)})
		} else if gotOrphan != wantOrphan {
			h.report(fmt.Sprintf("ProcessTransaction:isOrphan-mismatch:want=%v", wantOrphan), "ProcessTransaction reported the wrong orphan status",
				map[string]interface{}{"tx": h.b.name(subj.id), "got": gotOrphan, "want": wantOrphan})
		}
	}

	// ---- membership: pool / orphans against the model ---------------------
	if h.membership(kind, subj, pre, post) {
		return true
	}

	// membership agrees with the model: what the model expected has been observed in the real maps
	if n := len(promoted); n > 0 {
		h.out.Count("promotions_observed", int64(n))
		if rounds >= 2 {
			h.out.Count("promotion_cascades_observed", 1)
		}
		for _, id := range promoted {
			if mo := h.justPromoted[id]; mo != nil && mo.pendingParents >= 2 {
				h.out.Count("promotions_observed_multi_parent", 1)
			}
		}
	}

	// bookkeeping of "has been available since orphaned" (after the membership check: states agree)
	for id, mo := range h.morph {
		for _, x := range h.b.byID[id].inputs {
			if h.avail(x, h.modelPooled) {
				mo.everAvail[x] = true
			}
		}
	}

	h.checkUtxo(post)
	h.checkIndex(post)
	return false
}

// membership compares the key sets of pool and orphans with the model and
// classifies a divergence.  Returns true if the history must be abandoned.
func (h *hist) membership(kind opKind, subj *builtTx, pre, post *snap) bool {
	bad := false
	fail := func(key, what string, extra map[string]interface{}) {
		bad = true
		if h.flagged[key] {
			return
		}
		if extra == nil {
			extra = map[string]interface{}{}
		}
		extra["observed"] = h.describeSnap(post)
		extra["expected_pool"] = h.namesOf(h.mpool)
		mo := map[bc.Hash]bool{}
		for id := range h.morph {
			mo[id] = true
		}
		extra["expected_orphans"] = h.namesOf(mo)
		h.report(key, what, extra)
	}
	opName := map[opKind]string{opSubmit: "submit", opSubmitFail: "submit-store-error", opRemove: "remove", opExpireNone: "expire", opExpireAll: "expire", opExpireBefore: "expire", opExpireAt: "expire"}[kind]

	// map keys must be the IDs of what they hold, and belong to the workload
	for k, id := range post.Pool {
		if k != id || h.b.byID[k] == nil {
			fail("pool:key-mismatch", "pool entry stored under a key that is not its transaction ID", map[string]interface{}{"key": short(k), "tx": short(id)})
		}
	}
	for k, e := range post.Orphans {
		if k != e.TxID || h.b.byID[k] == nil {
			fail("orphans:key-mismatch", "orphan entry stored under a key that is not its transaction ID", map[string]interface{}{"key": short(k), "tx": short(e.TxID)})
		}
	}
	if bad {
		return true
	}

	// pool ∩ orphans = ∅
	for _, id := range h.sortedSnapKeys(post) {
		if _, ok := post.Orphans[id]; ok {
			fail("pool-and-orphans:"+opName, "a transaction is both pooled and orphaned", map[string]interface{}{"tx": h.b.name(id)})
			break
		}
	}

	// orphans complete in the observed state: the liveness clause, state based
	var orphanIDs []bc.Hash
	for id := range post.Orphans {
		orphanIDs = append(orphanIDs, id)
	}
	sort.Slice(orphanIDs, func(i, j int) bool { return h.rank(orphanIDs[i]) < h.rank(orphanIDs[j]) })
	postPooled, prePooled := snapPooled(post), snapPooled(pre)
	for _, id := range orphanIDs {
		t := h.b.byID[id]
		complete := true
		for _, x := range t.inputs {
			if !h.avail(x, postPooled) {
				complete = false
				break
			}
		}
		if !complete {
			continue
		}
		if _, pooledToo := post.Pool[id]; pooledToo {
			continue // reported above
		}
		if subj != nil && subj.id == id && (kind == opSubmit) {
			if _, was := pre.Orphans[id]; !was {
				fail("admission:orphaned-with-all-inputs-available", "a transaction whose inputs are all available was stored as an orphan", map[string]interface{}{"tx": h.b.name(id)})
				continue
			}
		}
		// which inputs became available in this call, and was the orphan indexed under one of them?
		mo := h.morph[id]
		if mo == nil {
			mo = h.justPromoted[id] // the model has just promoted it
		}
		var newly []string
		unindexed, unindexedNeverCreated := 0, 0
		for _, x := range t.inputs {
			if h.avail(x, prePooled) {
				continue
			}
			newly = append(newly, h.b.outName(x))
			if _, ok := pre.OrphansByPrev[x][id]; ok {
				continue
			}
			unindexed++
			if mo == nil || !mo.everAvail[x] {
				// never available since the orphan arrived: its index entry should exist since then
				unindexedNeverCreated++
			}
		}
		indexed := unindexed == 0
		class := "single-input"
		switch {
		case indexed:
			// the pool found (or could find) the orphan under every output that arrived, and still left it
			class = "indexed-under-every-arrived-output"
		case unindexedNeverCreated == 0:
			// every missing entry had been consumed when its output arrived earlier; the output was then withdrawn (RemoveTransaction)
			class = "parent-removed-from-pool"
		case mo != nil && mo.pendingParents >= 2:
			class = "multi-parent"
		case len(t.inputs) >= 2:
			class = "multi-input"
		}
		fail("orphan-not-promoted:"+class, "an orphan whose inputs are all available (confirmed or created by pooled transactions) is still an orphan after the call that made the last one available",
			map[string]interface{}{"orphan": h.b.name(id), "inputs_made_available_by_this_call": newly, "was_indexed_under_all_of_them": indexed,
				"state_before_call": lazySnap{h, pre}})
	}

	// set equality with the model
	for _, id := range h.sortedSnapKeys(post) {
		if h.mpool[id] {
			continue
		}
		if h.morph[id] != nil {
			if subj != nil && subj.id == id && kind == opSubmit {
				fail("admission:pooled-with-unavailable-input", "a transaction with an unavailable input was admitted to the pool", map[string]interface{}{"tx": h.b.name(id)})
			} else {
				fail("orphan-promoted-with-unavailable-input", "an orphan was moved to the pool although an input is not available", map[string]interface{}{"tx": h.b.name(id)})
			}
			continue
		}
		fail("pool:unexpected-tx:"+opName, "the pool holds a transaction that should not be there (dust, removed, failed admission)", map[string]interface{}{"tx": h.b.name(id)})
	}
	for _, id := range h.sortedIDs(h.mpool) {
		if _, ok := post.Pool[id]; ok {
			continue
		}
		if _, ok := post.Orphans[id]; ok {
			if !bad { // not already explained by a not-promoted root cause
				fail("orphan-set-mismatch:"+opName, "a transaction expected in the pool is among the orphans", map[string]interface{}{"tx": h.b.name(id)})
			}
			continue
		}
		fail("pool:lost-tx:"+opName, "a transaction that should be pooled is neither pooled nor orphaned", map[string]interface{}{"tx": h.b.name(id)})
	}
	for _, id := range orphanIDs {
		if h.morph[id] != nil || h.mpool[id] {
			continue
		}
		fail("orphans:unexpected-orphan:"+opName, "an orphan that should be gone (expired) or was never submitted is still stored", map[string]interface{}{"tx": h.b.name(id)})
	}
	mo := map[bc.Hash]bool{}
	for id := range h.morph {
		mo[id] = true
	}
	for _, id := range h.sortedIDs(mo) {
		if _, ok := post.Orphans[id]; ok {
			continue
		}
		if _, ok := post.Pool[id]; ok {
			continue // reported above
		}
		fail("orphans:lost-orphan:"+opName, "an orphan disappeared although it neither expired nor was promoted", map[string]interface{}{"tx": h.b.name(id)})
	}
	return bad
}

func (h *hist) namesOf(m map[bc.Hash]bool) []string {
	var o []string
	for _, id := range h.sortedIDs(m) {
		o = append(o, h.b.name(id))
	}
	return o
}

func (h *hist) sortedSnapKeys(s *snap) []bc.Hash {
	m := map[bc.Hash]bool{}
	for id := range s.Pool {
		m[id] = true
	}
	return h.sortedIDs(m)
}

// utxo index == exactly the ordinary (non-retirement) outputs of the pooled transactions.
func (h *hist) checkUtxo(post *snap) {
	want := map[bc.Hash]bc.Hash{}
	for id := range post.Pool {
		t := h.b.byID[id]
		for _, o := range t.spendable {
			want[o] = id
		}
		if len(t.retired) > 0 {
			h.out.Count("pooled_tx_with_retirement_seen", 1)
		}
	}
	h.out.Count("utxo_entries_checked", int64(len(want)))
	var outs []bc.Hash
	for o := range want {
		outs = append(outs, o)
	}
	for o := range post.Utxo {
		if _, ok := want[o]; !ok {
			outs = append(outs, o)
		}
	}
	sort.Slice(outs, func(i, j int) bool { return h.outRank(outs[i]) < h.outRank(outs[j]) })
	for _, o := range outs {
		w, wok := want[o]
		g, gok := post.Utxo[o]
		switch {
		case wok && !gok:
			h.report("utxo:missing-output-of-pooled-tx", "a spendable output of a pooled transaction is not in the pool's output index",
				map[string]interface{}{"output": h.b.outName(o), "observed": lazySnap{h, post}})
		case !wok && gok:
			class := "unknown-output"
			if h.b.retiredBy[o] != nil {
				class = "retirement-output"
			} else if cr := h.b.creator[o]; cr != nil {
				class = "creator-not-pooled"
			}
			h.report("utxo:stale-entry:"+class, "the pool's output index lists an output that is not a spendable output of a pooled transaction",
				map[string]interface{}{"output": h.b.outName(o), "recorded_creator": h.b.name(g), "observed": lazySnap{h, post}})
		case w != g:
			h.report("utxo:wrong-creator", "the output index maps an output to a transaction that did not create it",
				map[string]interface{}{"output": h.b.outName(o), "recorded_creator": h.b.name(g), "creator": h.b.name(w)})
		}
	}
}

// every orphan is indexed under every input it still waits for; no dangling or empty entries.
func (h *hist) checkIndex(post *snap) {
	postPooled := snapPooled(post)
	var orphanIDs []bc.Hash
	for id := range post.Orphans {
		orphanIDs = append(orphanIDs, id)
	}
	sort.Slice(orphanIDs, func(i, j int) bool { return h.rank(orphanIDs[i]) < h.rank(orphanIDs[j]) })
	for _, id := range orphanIDs {
		t := h.b.byID[id]
		mo := h.morph[id]
		for k, x := range t.inputs {
			if h.avail(x, postPooled) {
				continue
			}
			h.out.Count("awaited_inputs_checked", 1)
			if _, ok := post.OrphansByPrev[x][id]; ok {
				continue
			}
			class := "single-input"
			switch {
			case mo != nil && mo.everAvail[x]:
				class = "parent-removed-from-pool"
			case len(t.inputs) >= 2:
				class = "multi-input"
			}
			if h.flagged["orphansByPrev:missing-index-entry:"+class] {
				continue
			}
			h.report("orphansByPrev:missing-index-entry:"+class, "an orphan is not indexed under an output it still waits for",
				map[string]interface{}{"orphan": h.b.name(id), "awaited_output": h.b.outName(x), "input_position": k, "inputs": len(t.inputs), "observed": lazySnap{h, post}})
		}
	}
	var outs []bc.Hash
	for o := range post.OrphansByPrev {
		outs = append(outs, o)
	}
	sort.Slice(outs, func(i, j int) bool { return h.outRank(outs[i]) < h.outRank(outs[j]) })
	for _, o := range outs {
		m := post.OrphansByPrev[o]
		if len(m) == 0 {
			h.report("orphansByPrev:empty-entry", "the orphan index keeps an empty entry", map[string]interface{}{"output": h.b.outName(o), "observed": lazySnap{h, post}})
			continue
		}
		ks := map[bc.Hash]bool{}
		for k := range m {
			ks[k] = true
		}
		for _, k := range h.sortedIDs(ks) {
			e := m[k]
			h.out.Count("index_entries_checked", 1)
			oe, isOrphan := post.Orphans[k]
			t := h.b.byID[k]
			switch {
			case !isOrphan:
				class := "orphan-gone"
				if _, ok := post.Pool[k]; ok {
					class = "orphan-promoted"
				}
				h.report("orphansByPrev:dangling-entry:"+class, "the orphan index refers to a transaction that is not an orphan (any more)",
					map[string]interface{}{"output": h.b.outName(o), "entry": h.b.name(k), "observed": lazySnap{h, post}})
			case e.TxID != k || oe.TxID != k:
				h.report("orphansByPrev:key-mismatch", "index entry stored under a key that is not its transaction ID", map[string]interface{}{"output": h.b.outName(o), "key": short(k), "tx": short(e.TxID)})
			case t == nil || !spends(t, o):
				h.report("orphansByPrev:dangling-entry:output-not-spent-by-orphan", "an orphan is indexed under an output it does not spend",
					map[string]interface{}{"output": h.b.outName(o), "entry": h.b.name(k), "observed": lazySnap{h, post}})
			case !e.SameObject:
				h.report("orphansByPrev:dangling-entry:stale-orphan-object", "the index entry points to an orphan object other than the one stored in the orphans map",
					map[string]interface{}{"output": h.b.outName(o), "entry": h.b.name(k)})
			default:
				if h.avail(o, postPooled) {
					// harmless for the property as stated (the orphan does not wait for it); counted for the evidence
					h.out.Count("index_entries_under_available_output", 1)
				}
			}
		}
	}
}

func spends(t *builtTx, o bc.Hash) bool {
	for _, x := range t.inputs {
		if x == o {
			return true
		}
	}
	return false
}
