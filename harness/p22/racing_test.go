package p22

import (
	"bytes"
	"fmt"
	"os"
	"runtime"
	"strconv"
	"sync"
	"sync/atomic"
	"testing"
	"time"

	"github.com/bytom/bytom/protocol/bc"
	"github.com/bytom/bytom/protocol/bc/types"
	"github.com/bytom/bytom/verifhook"

	"verif/internal/chainkit"
	"verif/internal/ev"
)

// TestC22Racing: the bookkeeping invariants on a REAL node while submissions race with the block
// processor.  A parent P sits in the pool; the block that confirms P is connected while children of P
// (and of confirmed outputs) are submitted from other goroutines; the submission is held at the node's
// yield point before the pool lock until the block is connected (or released by jitter).  At the
// quiescent point: no orphan whose inputs are all available (unspent in the store or created by a pooled
// transaction), no orphan index entry for an output that is available.  Extra run of C22.
func gid22() int64 {
	var buf [64]byte
	b := buf[:runtime.Stack(buf[:], false)]
	b = bytes.TrimPrefix(b, []byte("goroutine "))
	if i := bytes.IndexByte(b, ' '); i > 0 {
		n, _ := strconv.ParseInt(string(b[:i]), 10, 64)
		return n
	}
	return -1
}

func TestC22Racing(t *testing.T) {
	r := ev.Start(t, "C22")
	defer r.Finish()
	net := chainkit.Configure(chainkit.Params{Epoch: 4, Fed: 4, Local: -1, VotePending: 3, NKeys: 4})
	g := net.NewGenesis(12, 0)
	base, _ := os.MkdirTemp("", "c22r")
	defer os.RemoveAll(base)
	r.Cases("racing", r.N(40, 1600), func(c *ev.Case) {
		rng := c.Rand
		tr := net.NewTree(g)
		nd, err := net.NewNode(fmt.Sprintf("%s/n%d", base, c.Index), g)
		if err != nil {
			c.Inconclusive("node: %v", err)
			return
		}
		defer nd.Destroy()
		tip := tr.Root
		for round := 0; round < 4; round++ {
			// parents spend confirmed funds; children spend the parents' outputs
			fund := g.Funds[round*3 : round*3+3]
			var parents, children []*types.Tx
			for _, f := range fund[:2] {
				p := chainkit.PayTx([]*chainkit.UTXO{f}, chainkit.RandProg(rng), 2, chainkit.DefaultFee)
				parents = append(parents, p)
				for _, o := range chainkit.Outputs(p) {
					children = append(children, chainkit.PayTx([]*chainkit.UTXO{o}, chainkit.RandProg(rng), 1, chainkit.DefaultFee))
				}
			}
			// a child with one input from a parent and one confirmed input
			mixed := chainkit.PayTx([]*chainkit.UTXO{chainkit.Outputs(parents[0])[0], fund[2]}, chainkit.RandProg(rng), 1, chainkit.DefaultFee)
			_ = mixed
			for _, p := range parents {
				if _, err := nd.Chain.ValidateTx(chainkit.CloneBlock(&types.Block{Transactions: []*types.Tx{p}}).Transactions[0]); err != nil {
					c.Inconclusive("case %d: parent refused: %v", c.Index, err)
					return
				}
			}
			b, err := tr.Build(tip, parents, chainkit.BlockOpt{})
			if err != nil {
				c.Inconclusive("build: %v", err)
				return
			}
			tip = b
			mode := []string{"submit-held-until-block-connected", "jitter", "free"}[rng.Intn(3)]
			var subs sync.Map
			blockDone := make(chan struct{})
			var held int64
			seed := rng.Uint64()
			var jit uint64
			verifhook.SetYield(func(name string) {
				_, isSub := subs.Load(gid22())
				switch mode {
				case "submit-held-until-block-connected":
					if isSub && name == "txpool.processTransaction:before-lock" {
						atomic.AddInt64(&held, 1)
						select {
						case <-blockDone:
						case <-time.After(3 * time.Second):
						}
					}
				case "jitter":
					x := (atomic.AddUint64(&jit, 1) + seed) * 0x9e3779b97f4a7c15
					time.Sleep(time.Duration(x>>56) * time.Microsecond)
				}
			})
			var wg sync.WaitGroup
			ready := make(chan struct{})
			for i := 0; i < 2; i++ {
				mine := children[i*len(children)/2 : (i+1)*len(children)/2]
				wg.Add(1)
				go func() {
					defer wg.Done()
					subs.Store(gid22(), true)
					<-ready
					for _, tx := range mine {
						nd.Chain.ValidateTx(chainkit.Finish(&tx.TxData))
					}
				}()
			}
			var perr error
			wg.Add(1)
			go func() {
				defer wg.Done()
				<-ready
				_, perr = nd.Chain.ProcessBlock(chainkit.CloneBlock(b.B))
				close(blockDone)
			}()
			close(ready)
			wg.Wait()
			verifhook.SetYield(nil)
			if perr != nil {
				c.Inconclusive("case %d: block refused: %v", c.Index, perr)
				return
			}
			c.Count("races:"+mode, 1)
			c.Count("race_submissions", int64(len(children)))
			if held > 0 {
				c.Count("race_gate_held", held)
			}
			// quiescent point: the bookkeeping invariants that involve availability
			s := nd.Pool.VerifTxPoolSnapshot()
			avail := func(out bc.Hash) bool {
				if _, ok := s.Utxo[out]; ok {
					return true
				}
				e, err := nd.Store.GetUtxo(&out)
				return err == nil && !e.Spent
			}
			byID := map[bc.Hash]*types.Tx{}
			for _, tx := range children {
				byID[tx.ID] = tx
			}
			for key, o := range s.Orphans {
				tx := byID[o.TxID]
				if tx == nil {
					continue
				}
				all := true
				for _, in := range tx.SpentOutputIDs {
					if !avail(in) {
						all = false
					}
				}
				c.Eval(1)
				if all {
					c.Violation("racing:orphan-with-all-inputs-available:"+mode, "after the block connection and all submissions returned, an orphan's inputs are all available (confirmed and unspent, or created by a pooled transaction) and it is still an orphan",
						map[string]interface{}{"orphan": key.String(), "mode": mode, "round": round, "pool": len(s.Pool), "orphans": len(s.Orphans)})
					return
				}
			}
			for out, m := range s.OrphansByPrev {
				if len(m) > 0 && avail(out) {
					c.Violation("racing:orphan-index-entry-for-available-output:"+mode, "the orphan index still lists orphans under an output that is available", map[string]interface{}{"output": out.String(), "mode": mode, "round": round})
					return
				}
			}
			c.Count("racing_states_checked", 1)
		}
		c.Distinct("racing %d", c.Index%7)
	})
	r.Floor("racing_states_checked", 120)
	r.Floor("race_gate_held", 20)
}
