package p22

// Self-test of the C22 oracle (not run by ./check, which selects ^TestC22$):
// the same workload and oracle are run against a small re-implementation of the
// pool's bookkeeping with switchable defects.  The defect-free variant must be
// silent (soundness of the oracle); every mutant must be caught by the quick
// workload under the expected key (sensitivity).

import (
	"sort"
	"strings"
	"testing"
	"time"

	"github.com/bytom/bytom/protocol"
	"github.com/bytom/bytom/protocol/bc"
	"github.com/bytom/bytom/protocol/bc/types"
	"github.com/bytom/bytom/protocol/state"

	"verif/internal/ev"
)

type mutant struct {
	loopVar           bool // index the orphan under the LAST input only (the &hash defect of checkOrphanUtxos)
	noReindexOnRemove bool // RemoveTransaction does not re-index orphans that now wait for the removed outputs (as the real code)
	keepUtxoOnRemove  bool
	noRecursion       bool // children of promoted orphans are not examined
	keepIndexOnExpire bool
	expireInclusive   bool // expiration <= t instead of < t
	listRetirements   bool
	keepOrphanOnPromo bool
	ignoreSpentFlag   bool
	keepEmptyEntry    bool
	keepIndexOnArrive bool // addRely does not delete the consumed index entry
	ignorePoolUtxo    bool // only confirmed outputs count as available
}

type fOrphan struct {
	tx  *types.Tx
	exp time.Time
}

type fakePool struct {
	m       mutant
	st      state.Store
	pool    map[bc.Hash]*types.Tx
	utxo    map[bc.Hash]*types.Tx
	orphans map[bc.Hash]*fOrphan
	byPrev  map[bc.Hash]map[bc.Hash]*fOrphan
	clock   time.Time
}

func newFake(m mutant) func(*memStore) poolAPI {
	return func(st *memStore) poolAPI {
		return &fakePool{m: m, st: st, pool: map[bc.Hash]*types.Tx{}, utxo: map[bc.Hash]*types.Tx{}, orphans: map[bc.Hash]*fOrphan{},
			byPrev: map[bc.Hash]map[bc.Hash]*fOrphan{}, clock: time.Unix(1700000000, 0)}
	}
}

func (f *fakePool) missing(tx *types.Tx) ([]bc.Hash, error) {
	view := state.NewUtxoViewpoint()
	if err := f.st.GetTransactionsUtxo(view, []*bc.Tx{tx.Tx}); err != nil {
		return nil, err
	}
	var out []bc.Hash
	for _, h := range tx.SpentOutputIDs {
		h := h
		e := view.Entries[h]
		conf := e != nil && (!e.Spent || f.m.ignoreSpentFlag)
		if !conf && (f.utxo[h] == nil || f.m.ignorePoolUtxo) {
			out = append(out, h)
		}
	}
	if f.m.loopVar && len(out) > 0 {
		last := tx.SpentOutputIDs[len(tx.SpentOutputIDs)-1]
		for i := range out {
			out[i] = last
		}
	}
	return out, nil
}

func isDust(tx *types.Tx) bool {
	for _, o := range tx.Outputs {
		if o.Amount == 0 {
			return true
		}
	}
	return false
}

func (f *fakePool) add(tx *types.Tx) {
	f.pool[tx.ID] = tx
	for i, id := range tx.ResultIds {
		if len(tx.Outputs[i].ControlProgram) > 0 && tx.Outputs[i].ControlProgram[0] == 0x6a && !f.m.listRetirements {
			continue
		}
		f.utxo[*id] = tx
	}
}

func (f *fakePool) dropOrphan(id bc.Hash, keepIndex bool) {
	o := f.orphans[id]
	if o == nil {
		return
	}
	if !keepIndex {
		for _, s := range o.tx.SpentOutputIDs {
			if m, ok := f.byPrev[s]; ok {
				delete(m, id)
				if len(m) == 0 && !f.m.keepEmptyEntry {
					delete(f.byPrev, s)
				}
			}
		}
	}
	delete(f.orphans, id)
}

func (f *fakePool) Process(tx *types.Tx, height, fee uint64) (bool, error) {
	if isDust(tx) {
		return false, nil
	}
	miss, err := f.missing(tx)
	if err != nil {
		return false, err
	}
	if len(miss) > 0 {
		f.clock = f.clock.Add(time.Millisecond)
		o := &fOrphan{tx, f.clock.Add(10 * time.Minute)}
		f.orphans[tx.ID] = o
		for _, h := range miss {
			if f.byPrev[h] == nil {
				f.byPrev[h] = map[bc.Hash]*fOrphan{}
			}
			f.byPrev[h][tx.ID] = o
		}
		return true, nil
	}
	f.add(tx)
	var queue []*fOrphan
	rely := func(t *types.Tx) {
		for _, out := range t.ResultIds {
			m, ok := f.byPrev[*out]
			if !ok {
				continue
			}
			var ids []bc.Hash
			for id := range m {
				ids = append(ids, id)
			}
			sort.Slice(ids, func(i, j int) bool { return ids[i].V0 < ids[j].V0 })
			for _, id := range ids {
				queue = append(queue, m[id])
			}
			if !f.m.keepIndexOnArrive {
				delete(f.byPrev, *out)
			}
		}
	}
	rely(tx)
	for ; len(queue) > 0; queue = queue[1:] {
		o := queue[0]
		if f.orphans[o.tx.ID] != o {
			continue
		}
		miss, err := f.missing(o.tx)
		if err != nil || len(miss) > 0 {
			continue
		}
		if !f.m.noRecursion {
			rely(o.tx)
		}
		if !f.m.keepOrphanOnPromo {
			f.dropOrphan(o.tx.ID, false)
		}
		f.add(o.tx)
	}
	return false, nil
}

func (f *fakePool) Remove(id *bc.Hash) {
	tx, ok := f.pool[*id]
	if !ok {
		return
	}
	delete(f.pool, *id)
	if !f.m.keepUtxoOnRemove {
		for _, out := range tx.ResultIds {
			delete(f.utxo, *out)
		}
	}
	if !f.m.noReindexOnRemove {
		for oid, o := range f.orphans {
			for _, s := range o.tx.SpentOutputIDs {
				for _, out := range tx.ResultIds {
					if s == *out {
						if f.byPrev[s] == nil {
							f.byPrev[s] = map[bc.Hash]*fOrphan{}
						}
						f.byPrev[s][oid] = o
					}
				}
			}
		}
	}
}

func (f *fakePool) Expire(t time.Time) {
	for id, o := range f.orphans {
		if o.exp.Before(t) || (f.m.expireInclusive && o.exp.Equal(t)) {
			f.dropOrphan(id, f.m.keepIndexOnExpire)
		}
	}
}

func (f *fakePool) Have(id *bc.Hash) bool { _, ok := f.pool[*id]; return ok }

func (f *fakePool) Snap() *snap {
	s := &snap{Pool: map[bc.Hash]bc.Hash{}, Utxo: map[bc.Hash]bc.Hash{}, Orphans: map[bc.Hash]protocol.VerifTxPoolOrphan{},
		OrphansByPrev: map[bc.Hash]map[bc.Hash]protocol.VerifTxPoolIndexEntry{}}
	for k, tx := range f.pool {
		s.Pool[k] = tx.ID
	}
	for k, tx := range f.utxo {
		s.Utxo[k] = tx.ID
	}
	for k, o := range f.orphans {
		s.Orphans[k] = protocol.VerifTxPoolOrphan{TxID: o.tx.ID, Expiration: o.exp}
	}
	for out, m := range f.byPrev {
		cp := map[bc.Hash]protocol.VerifTxPoolIndexEntry{}
		for k, o := range m {
			cp[k] = protocol.VerifTxPoolIndexEntry{TxID: o.tx.ID, SameObject: f.orphans[k] == o}
		}
		s.OrphansByPrev[out] = cp
	}
	return s
}

type recSink struct {
	keys map[string]int
	hist int
}

func (r *recSink) Violation(key, what string, w interface{}) { r.keys[key]++ }
func (r *recSink) Count(string, int64)                       {}
func (r *recSink) Max(string, int64)                         {}

// selfWorkload is a reduced version of the quick workload of TestC22.
func selfWorkload(mk func(*memStore) poolAPI) *recSink {
	out := &recSink{keys: map[string]int{}}
	do := func(spec *dagSpec, nonce uint64, body func(cr *caseRunner)) {
		b, err := build(spec, nonce)
		if err != nil {
			panic(err)
		}
		cr := newCaseRunner(b, mk, out)
		body(cr)
		out.hist += cr.histories
	}
	for i, spec := range catalogue() {
		n := len(spec.nodes)
		rng := ev.NewRand(1, "C22-self", "catalogue", i)
		do(spec, uint64(i), func(cr *caseRunner) {
			permutations(n, func(order []int) {
				cr.run(submitAll(order), false)
				if n <= 4 {
					for pos := 1; pos <= n; pos++ {
						for k := 0; k < n; k++ {
							cr.run(withOpAt(order, pos, op{opRemove, k}), true)
						}
						for _, e := range []op{{opExpireAll, 0}, {opExpireBefore, 0}, {opExpireAt, 0}, {opExpireBefore, 1}} {
							cr.run(withOpAt(order, pos, e), true)
						}
					}
				} else if n == 5 {
					cr.run(interleave(rng, n, order, 30), rng.Bool())
				}
			})
		})
	}
	for i := 0; i < 60; i++ {
		rng := ev.NewRand(1, "C22-self", "mixed", i)
		n := rng.Range(4, 10)
		do(randomDAG(rng, n), uint64(1000+i), func(cr *caseRunner) {
			for k := 0; k < 12; k++ {
				cr.run(interleave(rng, n, rng.Perm(n), rng.Range(10, 60)), rng.Chance(2, 3))
			}
		})
	}
	return out
}

func keysOf(m map[string]int) string {
	var ks []string
	for k := range m {
		ks = append(ks, k)
	}
	sort.Strings(ks)
	return strings.Join(ks, " | ")
}

func TestOracleSelfTest(t *testing.T) {
	// soundness: a pool that satisfies the property is not accused of anything
	if s := selfWorkload(newFake(mutant{})); len(s.keys) != 0 {
		t.Errorf("oracle raises alarms on a correct pool: %s", keysOf(s.keys))
	} else {
		t.Logf("correct model: %d histories, silent", s.hist)
	}
	for _, c := range []struct {
		name string
		m    mutant
		want []string // every listed key must be reported
	}{
		{"loop-variable-address (the real defect)", mutant{loopVar: true}, []string{"orphansByPrev:missing-index-entry:multi-input", "orphan-not-promoted:multi-parent", "orphan-not-promoted:multi-input"}},
		{"no re-index on RemoveTransaction (the real behaviour)", mutant{noReindexOnRemove: true}, []string{"orphansByPrev:missing-index-entry:parent-removed-from-pool", "orphan-not-promoted:parent-removed-from-pool"}},
		{"RemoveTransaction keeps utxo entries", mutant{keepUtxoOnRemove: true}, []string{"utxo:stale-entry:creator-not-pooled"}},
		{"no recursive promotion", mutant{noRecursion: true}, []string{"orphan-not-promoted:indexed-under-every-arrived-output"}},
		{"expiry keeps index entries", mutant{keepIndexOnExpire: true}, []string{"orphansByPrev:dangling-entry:orphan-gone"}},
		{"expiry inclusive", mutant{expireInclusive: true}, []string{"orphans:lost-orphan:expire"}},
		{"retirements listed", mutant{listRetirements: true}, []string{"utxo:stale-entry:retirement-output"}},
		{"promoted orphan kept", mutant{keepOrphanOnPromo: true}, []string{"pool-and-orphans:submit"}},
		{"spent flag ignored", mutant{ignoreSpentFlag: true}, []string{"admission:pooled-with-unavailable-input"}},
		{"empty index entry kept", mutant{keepEmptyEntry: true}, []string{"orphansByPrev:empty-entry"}},
		{"consumed index entry kept", mutant{keepIndexOnArrive: true}, []string{"orphansByPrev:dangling-entry:stale-orphan-object"}},
		{"pooled outputs not counted as available", mutant{ignorePoolUtxo: true}, []string{"admission:orphaned-with-all-inputs-available"}},
	} {
		s := selfWorkload(newFake(c.m))
		for _, k := range c.want {
			if s.keys[k] == 0 {
				t.Errorf("mutant %q: expected key %q not reported; got: %s", c.name, k, keysOf(s.keys))
			}
		}
		t.Logf("mutant %-55s -> %s", c.name, keysOf(s.keys))
	}
}
