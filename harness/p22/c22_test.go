// C22 — mempool bookkeeping stays consistent.
//
// Drives the real protocol.TxPool (NewTxPool over a small store holding the
// confirmed outputs) with transaction DAGs submitted in every order (≤ 6 nodes)
// or random orders (≤ 10 nodes), interleaved with RemoveTransaction and
// ExpireOrphan(t), and checks a locked snapshot of pool / utxo / orphans /
// orphansByPrev after EVERY call against an independent model of the property.
package p22

import (
	"fmt"
	"hash/fnv"
	"io"
	"os"
	"sort"
	"strings"
	"testing"

	"github.com/sirupsen/logrus"

	"verif/internal/ev"
)

func TestMain(m *testing.M) {
	logrus.SetLevel(logrus.PanicLevel)
	logrus.SetOutput(io.Discard)
	os.Exit(m.Run())
}

// caseRunner owns the pool of one case: histories of a case reuse it after
// emptying it through the public API (which is itself checked by the oracle);
// a pool whose state is in doubt is replaced by a fresh one.
type caseRunner struct {
	b      *built
	st     *memStore
	p      poolAPI
	mk     func(*memStore) poolAPI
	out    sink
	onHist func(h *hist, aborted bool)

	histories int
	pools     int
}

func newCaseRunner(b *built, mk func(*memStore) poolAPI, out sink) *caseRunner {
	return &caseRunner{b: b, st: newMemStore(b.confirmed), mk: mk, out: out}
}

// run executes one history: ops, optionally a re-submission of every node in
// topological order, then the emptying of the pool (RemoveTransaction of every
// pooled transaction, ExpireOrphan(far future)).  Every call is checked.
func (cr *caseRunner) run(ops []op, resubmit bool) {
	if cr.p == nil {
		cr.p = cr.mk(cr.st)
		cr.pools++
	}
	h := newHist(cr.b, cr.p, cr.st, cr.out)
	if !h.start() {
		cr.p = cr.mk(cr.st)
		cr.pools++
		h = newHist(cr.b, cr.p, cr.st, cr.out)
		h.start()
	}
	cr.histories++
	aborted := false
	for _, o := range ops {
		if h.step(o) {
			aborted = true
			break
		}
	}
	if !aborted && resubmit {
		for i := range cr.b.txs {
			if h.step(op{opSubmit, i}) {
				aborted = true
				break
			}
		}
	}
	if !aborted {
		var pooled []int
		for id := range h.pre.Pool {
			if t := cr.b.byID[id]; t != nil {
				pooled = append(pooled, t.idx)
			}
		}
		sort.Ints(pooled)
		// children first: parents disappear while children stay pooled
		for k := len(pooled) - 1; k >= 0 && !aborted; k-- {
			aborted = h.step(op{opRemove, pooled[k]})
		}
		if !aborted {
			aborted = h.step(op{opExpireAll, 0})
		}
	}
	s := h.pre
	if aborted || len(s.Pool)+len(s.Utxo)+len(s.Orphans)+len(s.OrphansByPrev) != 0 {
		cr.p = nil // state in doubt: the next history gets a fresh pool
	}
	if cr.onHist != nil {
		cr.onHist(h, aborted)
	}
}

func submitAll(order []int) []op {
	ops := make([]op, len(order))
	for i, n := range order {
		ops[i] = op{opSubmit, n}
	}
	return ops
}

// withOpAt inserts extra after the first pos submissions.
func withOpAt(order []int, pos int, extra op) []op {
	ops := make([]op, 0, len(order)+1)
	for i, n := range order {
		if i == pos {
			ops = append(ops, extra)
		}
		ops = append(ops, op{opSubmit, n})
	}
	if pos >= len(order) {
		ops = append(ops, extra)
	}
	return ops
}

// randomExtra picks an interleaved operation; prior = nodes already submitted.
func randomExtra(rng *ev.Rand, n int, prior []int) op {
	pickPrior := func() int {
		if len(prior) > 0 && rng.Chance(4, 5) {
			return prior[rng.Intn(len(prior))]
		}
		return rng.Intn(n)
	}
	switch rng.Pick([]int{40, 12, 10, 6, 6, 14, 12}) {
	case 0:
		return op{opRemove, pickPrior()}
	case 1:
		return op{opExpireBefore, rng.Intn(4)}
	case 2:
		return op{opExpireAt, rng.Intn(4)}
	case 3:
		return op{opExpireAll, 0}
	case 4:
		return op{opExpireNone, 0}
	case 5:
		return op{opSubmit, pickPrior()} // re-submission (of an orphan, of a removed or expired transaction)
	default:
		return op{opSubmitFail, rng.Intn(n)}
	}
}

// interleave: the given submission order with random operations in between.
func interleave(rng *ev.Rand, n int, order []int, density int) []op {
	var ops []op
	for i, node := range order {
		for i > 0 && rng.Chance(density, 100) {
			ops = append(ops, randomExtra(rng, n, order[:i]))
			if rng.Chance(1, 2) {
				break
			}
		}
		ops = append(ops, op{opSubmit, node})
	}
	for rng.Chance(density, 100) {
		ops = append(ops, randomExtra(rng, n, order))
	}
	return ops
}

func histKey(sig string, labels []string) string {
	f := fnv.New64a()
	f.Write([]byte(sig))
	f.Write([]byte{0})
	f.Write([]byte(strings.Join(labels, " ")))
	return fmt.Sprintf("%012x", f.Sum64()>>16)
}

func TestC22(t *testing.T) {
	r := ev.Start(t, "C22")
	defer r.Finish()
	r.Rule("transaction DAGs (named catalogue of chains, diamonds, 2-3 parent joins, fan-out, mixed confirmed/unconfirmed inputs, conflicts, retirements, unknown/spent inputs, dust; plus random DAGs of 2-10 nodes) " +
		"submitted to the real TxPool in ALL orders for <= 6 nodes and random orders above, pure and interleaved with RemoveTransaction, ExpireOrphan(t) (none/all/cut just before/just after one orphan's expiration), re-submissions and injected store failures; " +
		"every history ends by emptying the pool; all four maps are snapshotted under the pool lock after every call. distinct = hash of (DAG structure, exact operation sequence) of histories in which at least one transaction was stored as an orphan")
	r.Assume("transactions reach the pool as in the node: Chain.ValidateTx never re-submits a transaction for which HaveTransaction is true (the harness applies the same guard); the store's confirmed set does not change inside a history")
	r.Assume("'spendable outputs of pooled transactions' = every non-retirement output of every pooled transaction, whether or not another pooled transaction already spends it (the pool does not track conflicts; the index only answers 'is the creator of this input pooled'); " +
		"an input is available iff it is a confirmed unspent output of the store or a spendable output of a pooled transaction")
	r.Assume("ExpireOrphan(t) removes exactly the orphans whose stored expiration is before t (expirations are read from the snapshot; no wall clock enters a verdict); index entries under an output the orphan does not wait for (any more) are counted, not demanded absent")

	mk := newRealPool

	runCase := func(c *ev.Case, sub int, spec *dagSpec, body func(cr *caseRunner)) {
		g := fnv.New32a()
		g.Write([]byte(c.Group))
		b, err := build(spec, uint64(g.Sum32())<<32|uint64(c.Index)<<8|uint64(sub))
		if err != nil {
			if err.Error() == "duplicate output id" {
				// two conflicting transactions with the same inputs and an output of the same amount, program
				// and position get the same output id (the mux id does not cover the destinations): such a
				// generated DAG has no well-defined parent relation and is skipped, it says nothing about the pool
				c.Count("generated_dags_skipped:conflicting-twins-share-an-output-id", 1)
				return
			}
			c.Inconclusive("harness: cannot build DAG %s: %v", spec.sig(), err)
			return
		}
		cr := newCaseRunner(b, mk, c)
		sig, class := spec.sig(), spec.class()
		cr.onHist = func(h *hist, aborted bool) {
			c.Count("histories", 1)
			if aborted {
				c.Count("histories_abandoned_after_membership_divergence", 1)
			}
			if h.orphaned > 0 {
				c.Count("histories_with_orphans", 1)
				c.Distinct(histKey(sig, h.labels))
			}
			if h.promotions > 0 {
				c.Count("histories_with_promotions", 1)
			}
			if h.orphaned > 0 && c.WantSample() {
				c.Sample(map[string]interface{}{"dag": spec.name + " " + sig, "class": class, "operations": strings.Join(h.labels, " "),
					"orphan_admissions": h.orphaned, "promotions_expected": h.promotions, "removed": h.removed, "expired": h.expired, "abandoned": aborted})
			}
		}
		c.Journal(map[string]string{"dag": sig})
		body(cr)
		if sub == 0 {
			c.Eval(int64(cr.histories) - 1) // the framework already counted the case as one evaluation
		} else {
			c.Eval(int64(cr.histories))
		}
		c.Count("pools_created", int64(cr.pools))
		c.Count("dag_class:"+strings.SplitN(class, "/", 2)[0], 1)
		c.Max("max_nodes", int64(len(spec.nodes)))
	}

	cat := catalogue()
	byName := map[string]*dagSpec{}
	for _, d := range cat {
		byName[d.name] = d
	}

	// 1. directed minimal scenarios (first, so that their witnesses are the ones recorded)
	r.Cases("directed", 1, func(c *ev.Case) {
		type sc struct {
			dag string
			ops []op
		}
		S, R := func(n int) op { return op{opSubmit, n} }, func(n int) op { return op{opRemove, n} }
		for i, s := range []sc{
			{"two-parent", []op{S(2), S(0), S(1)}},             // parent of the last input arrives last
			{"two-parent", []op{S(2), S(1), S(0)}},             // parent of the last input arrives first
			{"parent-then-confirmed", []op{S(1), S(0)}},        // the last input is confirmed, the first one is awaited
			{"confirmed-then-parent", []op{S(1), S(0)}},        // the awaited input is the last one
			{"two-parent", []op{S(0), S(2), R(0), S(1), S(0)}}, // a parent is withdrawn while the child still waits for the other
			{"chain3", []op{S(2), S(1), S(0)}},                 // recursive promotion
			{"two-parent-grandchild", []op{S(3), S(2), S(0), S(1)}},
		} {
			s := s
			runCase(c, i, byName[s.dag], func(cr *caseRunner) { cr.run(s.ops, false) })
		}
	})

	// 2. the catalogue: every order; for <= 4 nodes additionally every (order, position, single extra operation)
	r.Cases("catalogue", len(cat), func(c *ev.Case) {
		spec := cat[c.Index]
		n := len(spec.nodes)
		runCase(c, 0, spec, func(cr *caseRunner) {
			permutations(n, func(order []int) {
				cr.run(submitAll(order), false)
				if n <= 4 {
					var extras []op
					for k := 0; k < n; k++ {
						extras = append(extras, op{opRemove, k})
					}
					extras = append(extras, op{opExpireAll, 0}, op{opExpireBefore, 0}, op{opExpireAt, 0}, op{opExpireBefore, 1})
					for pos := 1; pos <= n; pos++ {
						for _, e := range extras {
							cr.run(withOpAt(order, pos, e), true)
						}
					}
				} else {
					cr.run(interleave(c.Rand, n, order, 30), c.Rand.Bool())
				}
			})
		})
	})

	// 3. random small DAGs, every order, pure and with random interleaving
	r.Cases("random-all-orders", r.N(80, 4000), func(c *ev.Case) {
		n := 2 + c.Rand.Pick([]int{5, 15, 35, 35, 10})
		spec := randomDAG(c.Rand, n)
		runCase(c, 0, spec, func(cr *caseRunner) {
			permutations(n, func(order []int) {
				cr.run(submitAll(order), false)
				cr.run(interleave(c.Rand, n, order, 35), c.Rand.Bool())
			})
		})
	})

	// 4. random DAGs up to 10 nodes, random orders, dense interleaving
	r.Cases("random-mixed", r.N(500, 30000), func(c *ev.Case) {
		n := c.Rand.Range(4, 10)
		spec := randomDAG(c.Rand, n)
		runCase(c, 0, spec, func(cr *caseRunner) {
			for k := 0; k < 12; k++ {
				order := c.Rand.Perm(n)
				if k == 0 {
					// children strictly before parents: the deepest promotion cascades
					for i := range order {
						order[i] = n - 1 - i
					}
				}
				cr.run(interleave(c.Rand, n, order, c.Rand.Range(10, 60)), c.Rand.Chance(2, 3))
			}
		})
	})

	// every class the monitor claims to cover must have been observed
	for name, min := range map[string]int64{
		"histories_with_orphans": 10000, "submit_pooled": 20000, "submit_orphaned": 30000, "submit_orphaned_multi_parent": 5000,
		"promotions_observed": 8000, "promotion_cascades_observed": 1500, "promotions_observed_multi_parent": 500,
		"remove_pooled": 20000, "remove_target_is_orphan_noop": 1000, "expire_cut_partial": 500, "expire_all": 5000, "expire_none": 500,
		"orphans_expired_expected": 10000, "resubmit_orphan": 2000, "submit_store_error": 800, "submit_dust": 1000,
		"awaited_inputs_checked": 100000, "index_entries_checked": 100000, "utxo_entries_checked": 150000, "pooled_tx_with_retirement_seen": 10000,
	} {
		r.Floor(name, min)
	}
}
