// C28 — key derivation and signatures are consistent; the key store decrypts
// only with the right password and the decrypted key signs identically.
//
// Independent oracles:
//   - a math/big implementation of edwards25519 (extended coordinates) for
//     scalar*B, i.e. for XPub(), for the public half of every derived key and
//     for a complete reference EdDSA signature;
//   - the ChainKD derivation rules re-implemented from their description
//     (HMAC-SHA512 with 'N'/'H'/"Root"/"Expand" domain tags, scalar pruning,
//     256-bit little-endian addition);
//   - the standard library's crypto/ed25519.Verify on xpub.PublicKey().
package p28

import (
	"bytes"
	"crypto"
	"crypto/ed25519"
	"crypto/hmac"
	"crypto/sha256"
	"crypto/sha512"
	"encoding/hex"
	"encoding/json"
	"fmt"
	"io"
	"io/ioutil"
	"math/big"
	"os"
	"runtime/debug"
	"strings"
	"sync"
	"testing"

	"github.com/pborman/uuid"
	"github.com/sirupsen/logrus"

	"github.com/bytom/bytom/blockchain/pseudohsm"
	"github.com/bytom/bytom/crypto/ed25519/chainkd"

	"verif/internal/ev"
)

func TestMain(m *testing.M) {
	logrus.SetLevel(logrus.PanicLevel)
	logrus.SetOutput(io.Discard)
	os.Exit(m.Run())
}

// ------------------------------------------------------------ edwards25519 over math/big

var (
	fp, _   = new(big.Int).SetString("57896044618658097711785492504343953926634992332820282019728792003956564819949", 10) // 2^255-19
	ordL, _ = new(big.Int).SetString("7237005577332262213973186563042994240857116359379907606001950938285454250989", 10)  // 2^252+27742...
	bx, _   = new(big.Int).SetString("15112221349535400772501151409588531511454012693041857206046113283949847762202", 10)
	by, _   = new(big.Int).SetString("46316835694926478169428394003475163141307993866256225615783033603165251855960", 10)
	d2      *big.Int // 2d
	powB    [256]*pt
	once    sync.Once
)

type pt struct{ x, y, z, t *big.Int }

func mod(a *big.Int) *big.Int { return a.Mod(a, fp) }

func mul(a, b *big.Int) *big.Int { return mod(new(big.Int).Mul(a, b)) }

func initCurve() {
	once.Do(func() {
		d := new(big.Int).ModInverse(big.NewInt(121666), fp)
		d = mul(d, big.NewInt(-121665))
		d2 = mod(new(big.Int).Lsh(d, 1))
		p := &pt{new(big.Int).Set(bx), new(big.Int).Set(by), big.NewInt(1), mul(bx, by)}
		for i := range powB {
			powB[i] = p
			p = add(p, p)
		}
	})
}

// add: unified (complete) addition for a=-1 twisted Edwards curves, add-2008-hwcd-3.
func add(p, q *pt) *pt {
	a := mul(new(big.Int).Sub(p.y, p.x), new(big.Int).Sub(q.y, q.x))
	b := mul(new(big.Int).Add(p.y, p.x), new(big.Int).Add(q.y, q.x))
	c := mul(mul(p.t, d2), q.t)
	d := mul(new(big.Int).Lsh(p.z, 1), q.z)
	e := new(big.Int).Sub(b, a)
	f := new(big.Int).Sub(d, c)
	g := new(big.Int).Add(d, c)
	h := new(big.Int).Add(b, a)
	return &pt{mul(e, f), mul(g, h), mul(f, g), mul(e, h)}
}

// scalarBase returns the 32-byte encoding of k*B for any non-negative integer k.
func scalarBase(k *big.Int) [32]byte {
	initCurve()
	acc := &pt{big.NewInt(0), big.NewInt(1), big.NewInt(1), big.NewInt(0)}
	k = new(big.Int).Mod(k, new(big.Int).Lsh(ordL, 3)) // the group has order 8L
	for i := 0; i < k.BitLen(); i++ {
		if k.Bit(i) == 1 {
			acc = add(acc, powB[i])
		}
	}
	zi := new(big.Int).ModInverse(acc.z, fp)
	x, y := mul(acc.x, zi), mul(acc.y, zi)
	var out [32]byte
	yb := y.Bytes()
	for i, b := range yb {
		out[len(yb)-1-i] = b
	}
	out[31] |= byte(x.Bit(0)) << 7
	return out
}

func leInt(b []byte) *big.Int {
	r := make([]byte, len(b))
	for i := range b {
		r[len(b)-1-i] = b[i]
	}
	return new(big.Int).SetBytes(r)
}

func le32(x *big.Int) ([32]byte, bool) {
	var out [32]byte
	b := x.Bytes()
	if len(b) > 32 {
		return out, false
	}
	for i, v := range b {
		out[len(b)-1-i] = v
	}
	return out, true
}

// ------------------------------------------------------------ ChainKD reference

func hm(key []byte, parts ...[]byte) []byte {
	h := hmac.New(sha512.New, key)
	for _, p := range parts {
		h.Write(p)
	}
	return h.Sum(nil)
}

func pruneRoot(s []byte) {
	s[0] &= 248
	s[31] &= 31
	s[31] |= 64
}

func refRoot(seed []byte) (x [64]byte) {
	copy(x[:], hm([]byte("Root"), seed))
	pruneRoot(x[:32])
	return
}

func refHardened(prv [64]byte, sel []byte) (x [64]byte) {
	copy(x[:], hm(prv[32:], []byte{'H'}, prv[:32], sel))
	pruneRoot(x[:32])
	return
}

// refChild: non-hardened child of prv whose public half is pub (the caller supplies pub so that the reference scalar multiplication is done only where wanted).
func refChild(prv [64]byte, pub [32]byte, sel []byte) (x [64]byte, ok bool) {
	r := hm(prv[32:], []byte{'N'}, pub[:], sel)
	f := r[:32]
	f[0] &= 248
	f[29] &= 1
	f[30], f[31] = 0, 0
	sum := new(big.Int).Add(leInt(prv[:32]), leInt(f))
	s, ok := le32(sum)
	copy(x[:32], s[:])
	copy(x[32:], r[32:])
	return x, ok
}

func refSign(prv [64]byte, msg []byte) []byte {
	exp := hm([]byte("Expand"), prv[:])
	prefix := exp[32:]
	a := leInt(prv[:32])
	A := scalarBase(a)
	h := sha512.New()
	h.Write(prefix)
	h.Write(msg)
	r := new(big.Int).Mod(leInt(h.Sum(nil)), ordL)
	R := scalarBase(r)
	h.Reset()
	h.Write(R[:])
	h.Write(A[:])
	h.Write(msg)
	k := new(big.Int).Mod(leInt(h.Sum(nil)), ordL)
	s := new(big.Int).Mod(new(big.Int).Add(new(big.Int).Mul(k, a), r), ordL)
	sb, _ := le32(s)
	return append(R[:], sb[:]...)
}

// ------------------------------------------------------------ plumbing

func hx(b []byte) string { return hex.EncodeToString(b) }

func guard(c *ev.Case, what string, input interface{}, f func()) (panicked bool) {
	defer func() {
		if p := recover(); p != nil {
			panicked = true
			st := string(debug.Stack())
			if len(st) > 3000 {
				st = st[:3000]
			}
			c.Count("panics", 1)
			c.Violation("panic:"+what+"@"+ev.PanicSite(st), "code under test panicked: "+fmt.Sprint(p),
				map[string]interface{}{"call": what, "input": input, "panic": fmt.Sprint(p), "stack": st})
		}
	}()
	f()
	return false
}

func pathHex(p [][]byte) []string {
	out := make([]string, len(p))
	for i := range p {
		out[i] = hx(p[i])
	}
	return out
}

func randSelector(rng *ev.Rand) []byte {
	switch rng.Intn(10) {
	case 0:
		return []byte{}
	case 1:
		return make([]byte, rng.Range(1, 40))
	case 2:
		return []byte{byte(rng.Intn(256))}
	case 3:
		b := make([]byte, 40)
		for i := range b {
			b[i] = 0xff
		}
		return b
	}
	return rng.Bytes(rng.Range(0, 40))
}

func randSeed(rng *ev.Rand) []byte {
	switch rng.Intn(10) {
	case 0:
		return []byte{}
	case 1:
		return make([]byte, rng.Range(1, 64))
	case 2:
		return rng.Bytes(rng.Range(1, 16))
	case 3:
		return rng.Bytes(rng.Range(65, 200))
	}
	return rng.Bytes(64)
}

func randMsg(rng *ev.Rand) []byte {
	switch rng.Intn(8) {
	case 0:
		return []byte{}
	case 1:
		return rng.Bytes(32)
	case 2:
		return rng.Bytes(rng.Range(1000, 5000))
	}
	return rng.Bytes(rng.Range(1, 200))
}

// ------------------------------------------------------------ derivation + signatures

func deriveCase(c *ev.Case) {
	rng := c.Rand
	seed := randSeed(rng)
	depth := rng.Intn(9)
	path := make([][]byte, depth)
	for i := range path {
		path[i] = randSelector(rng)
	}
	wit := map[string]interface{}{"seed": hx(seed), "path": pathHex(path)}

	var root chainkd.XPrv
	if guard(c, "RootXPrv", wit, func() { root = chainkd.RootXPrv(seed) }) {
		return
	}
	if want := refRoot(seed); root != chainkd.XPrv(want) {
		wit["got"], wit["want"] = hx(root[:]), hx(want[:])
		c.Violation("derive:RootXPrv!=reference", "RootXPrv differs from HMAC-SHA512(\"Root\", seed) with pruned scalar", wit)
		return
	}
	if root[0]&7 != 0 || root[31]&0xe0 != 0x40 {
		c.Violation("derive:root-scalar-not-pruned", "root scalar does not have low 3 bits clear / top bits 010", wit)
	}
	if len(seed) == 64 {
		// NewXPrv reads 64 bytes of entropy and must equal RootXPrv of them
		x, err := chainkd.NewXPrv(bytes.NewReader(seed))
		if err != nil || x != root {
			c.Violation("derive:NewXPrv!=RootXPrv", "NewXPrv(reader) differs from RootXPrv of the 64 bytes read", wit)
		}
		c.Count("newxprv_checked", 1)
		if _, err := chainkd.NewXPrv(bytes.NewReader(seed[:rng.Intn(64)])); err == nil {
			c.Violation("derive:NewXPrv-short-read-accepted", "NewXPrv succeeds although fewer than 64 bytes of entropy were available", wit)
		}
	}
	var rootPub chainkd.XPub
	if guard(c, "XPrv.XPub", wit, func() { rootPub = root.XPub() }) {
		return
	}
	if want := scalarBase(leInt(root[:32])); !bytes.Equal(rootPub[:32], want[:]) || !bytes.Equal(rootPub[32:], root[32:]) {
		wit["xprv"], wit["xpub"], wit["want_pub"] = hx(root[:]), hx(rootPub[:]), hx(want[:])
		c.Violation("derive:XPub!=scalar*B", "XPub() is not (scalar*B, chain code)", wit)
		return
	}
	c.Count("root_xpub_equals_reference", 1)

	// step by step
	prv, pub := root, rootPub
	refPrv := [64]byte(root)
	okAll := true
	for i, sel := range path {
		var nprv chainkd.XPrv
		var npub chainkd.XPub
		step := map[string]interface{}{"seed": hx(seed), "path": pathHex(path[:i+1]), "parent_xprv": hx(prv[:])}
		if guard(c, "XPrv.Child", step, func() { nprv = prv.Child(sel, false) }) {
			return
		}
		if guard(c, "XPub.Child", step, func() { npub = pub.Child(sel) }) {
			return
		}
		var p32 [32]byte
		copy(p32[:], pub[:32])
		want, fits := refChild(refPrv, p32, sel)
		c.Eval(1)
		if !fits {
			c.Count("reference_child_scalar_overflow", 1) // cannot happen below depth 2^20
			return
		}
		if nprv != chainkd.XPrv(want) {
			step["got"], step["want"] = hx(nprv[:]), hx(want[:])
			c.Violation("derive:xprv.Child!=reference", "non-hardened child xprv differs from the ChainKD rule (HMAC 'N', pruned f, parent+f)", step)
			okAll = false
		}
		if nprv.XPub() != npub {
			step["child_xprv"], step["xprv_child_xpub"], step["xpub_child"] = hx(nprv[:]), hx(nprv.XPub().Bytes()), hx(npub[:])
			c.Violation("derive:child-step-mismatch", "xprv.Child(sel,false).XPub() != xprv.XPub().Child(sel)", step)
			okAll = false
		}
		c.Count("child_steps_commute", 1)
		c.Count(fmt.Sprintf("selector_len_class:%s", selClass(len(sel))), 1)
		prv, pub, refPrv = nprv, npub, want
	}
	var dprv chainkd.XPrv
	var dpub chainkd.XPub
	if guard(c, "Derive", wit, func() { dprv = root.Derive(path); dpub = rootPub.Derive(path) }) {
		return
	}
	if dprv.XPub() != dpub || dprv != prv || dpub != pub {
		wit["xprv_derive_xpub"], wit["xpub_derive"], wit["stepwise_xpub"] = hx(dprv.XPub().Bytes()), hx(dpub[:]), hx(pub[:])
		c.Violation("derive:xprv.Derive.XPub!=xpub.Derive", "Derive over the path does not commute with XPub() or differs from the step-by-step children", wit)
		okAll = false
	}
	if want := scalarBase(leInt(refPrv[:32])); !bytes.Equal(dpub[:32], want[:]) || !bytes.Equal(dpub[32:], refPrv[32:]) {
		wit["got"], wit["want_pub"], wit["want_chain"] = hx(dpub[:]), hx(want[:]), hx(refPrv[32:])
		c.Violation("derive:derived-xpub!=reference", "derived xpub is not (reference child scalar * B, reference chain code)", wit)
		okAll = false
	}
	if ds := chainkd.DeriveXPubs([]chainkd.XPub{rootPub, pub}, path); len(ds) != 2 || ds[0] != dpub || ds[1] != pub.Derive(path) {
		c.Violation("derive:DeriveXPubs-mismatch", "DeriveXPubs differs from XPub.Derive", wit)
	}
	// the list helpers (multisig signers): each element is the helper applied to that element, and the
	// signature of the key derived from xprv i verifies under element i and under no other element
	{
		xs := []chainkd.XPub{rootPub, pub, dpub}
		pks := chainkd.XPubKeys(xs)
		for i := range xs {
			if len(pks) != len(xs) || !bytes.Equal(pks[i], xs[i].PublicKey()) {
				wit["index"], wit["list_length"] = i, len(xs)
				c.Violation("derive:XPubKeys[i]!=xpubs[i].PublicKey", "XPubKeys of a list differs from PublicKey() of its elements", wit)
				okAll = false
				break
			}
		}
		msg := rng.Bytes(rng.Intn(40))
		sig := dprv.Sign(msg)
		if len(pks) == 3 && (!ed25519.Verify(pks[2], msg, sig) || ed25519.Verify(pks[0], msg, sig)) && rootPub != dpub {
			c.Violation("derive:XPubKeys-signature-mismatch", "a signature by the derived xprv does not verify under its own entry of XPubKeys (or verifies under another one)", wit)
			okAll = false
		}
		c.Count("xpubkeys_lists_checked", 1)
	}
	if okAll {
		c.Count("paths_commute", 1)
		c.Count(fmt.Sprintf("paths_commute_depth=%d", depth), 1)
	}
	c.Distinct("depth=%d seedlen=%s sel=%s", depth, lenClass(len(seed)), pathClass(path))

	// hardened children exist only on the private side
	hsel := randSelector(rng)
	var hard chainkd.XPrv
	if guard(c, "XPrv.Child(hardened)", wit, func() { hard = prv.Child(hsel, true) }) {
		return
	}
	if want := refHardened(refPrv, hsel); hard != chainkd.XPrv(want) {
		c.Violation("derive:hardened-child!=reference", "hardened child differs from HMAC 'H' rule", map[string]interface{}{"parent": hx(prv[:]), "selector": hx(hsel), "got": hx(hard[:]), "want": hx(want[:])})
	}
	soft := prv.Child(hsel, false)
	if hard == soft || hard.XPub() == pub.Child(hsel) {
		c.Violation("derive:hardened-child-derivable-from-xpub", "hardened child equals the non-hardened one / is reachable from the parent xpub", map[string]interface{}{"parent": hx(prv[:]), "selector": hx(hsel)})
	}
	if hp := scalarBase(leInt(hard[:32])); !bytes.Equal(hard.XPub().Bytes()[:32], hp[:]) {
		c.Violation("derive:XPub!=scalar*B", "XPub() of a hardened child is not scalar*B", map[string]interface{}{"xprv": hx(hard[:])})
	}
	c.Count("hardened_children", 1)

	// text round trip of the keys
	var tp chainkd.XPrv
	var tq chainkd.XPub
	b1, _ := dprv.MarshalText()
	b2, _ := dpub.MarshalText()
	if tp.UnmarshalText(b1) != nil || tq.UnmarshalText(b2) != nil || tp != dprv || tq != dpub || dpub.String() != string(b2) {
		c.Violation("derive:text-roundtrip", "MarshalText/UnmarshalText of a key is not the identity", wit)
	}

	signVerify(c, "derived", dprv, dpub, refPrv, map[string]chainkd.XPub{"root": rootPub, "parent-or-self-sibling": siblingOf(root, rootPub, path, rng), "other-seed": chainkd.RootXPrv(append(append([]byte{}, seed...), 1)).XPub(), "hardened-sibling": hard.XPub()})
	if c.WantSample() {
		c.Sample(map[string]interface{}{"seed": hx(seed), "path": pathHex(path), "xpub": hx(dpub[:])})
	}
}

func selClass(n int) string {
	switch {
	case n == 0:
		return "0"
	case n <= 8:
		return "1-8"
	case n < 40:
		return "9-39"
	}
	return "40"
}

func lenClass(n int) string {
	switch {
	case n == 0:
		return "0"
	case n < 64:
		return "<64"
	case n == 64:
		return "64"
	}
	return ">64"
}

func pathClass(p [][]byte) string {
	s := map[string]bool{}
	for _, x := range p {
		s[selClass(len(x))] = true
	}
	out := []string{}
	for _, k := range []string{"0", "1-8", "9-39", "40"} {
		if s[k] {
			out = append(out, k)
		}
	}
	return strings.Join(out, ",")
}

// siblingOf: same path with one bit of the last selector changed (or a one-step child when the path is empty).
func siblingOf(root chainkd.XPrv, rootPub chainkd.XPub, path [][]byte, rng *ev.Rand) chainkd.XPub {
	if len(path) == 0 {
		return rootPub.Child([]byte{1})
	}
	p2 := make([][]byte, len(path))
	copy(p2, path)
	last := append([]byte{}, path[len(path)-1]...)
	if len(last) == 0 {
		last = []byte{0}
	} else {
		last[rng.Intn(len(last))] ^= 1 << uint(rng.Intn(8))
	}
	p2[len(p2)-1] = last
	return rootPub.Derive(p2)
}

// signVerify: positive, reference, and every negative class.
func signVerify(c *ev.Case, what string, prv chainkd.XPrv, pub chainkd.XPub, refPrv [64]byte, others map[string]chainkd.XPub) {
	rng := c.Rand
	msg := randMsg(rng)
	wit := map[string]interface{}{"xprv": hx(prv[:]), "xpub": hx(pub[:]), "msg": hx(msg)}
	var sig []byte
	if guard(c, "XPrv.Sign", wit, func() { sig = prv.Sign(msg) }) {
		return
	}
	wit["sig"] = hx(sig)
	c.Eval(1)
	if len(sig) != 64 || !pub.Verify(msg, sig) {
		c.Violation("sign:verify-rejects-own-signature", "xpub.Verify rejects the signature just made by its xprv", wit)
		return
	}
	if !ed25519.Verify(pub.PublicKey(), msg, sig) {
		c.Violation("sign:stdlib-ed25519-rejects-signature", "crypto/ed25519.Verify rejects the signature under xpub.PublicKey()", wit)
		return
	}
	c.Count("sign_verify_ok", 1)
	if want := refSign(refPrv, msg); !bytes.Equal(sig, want) {
		wit["reference"] = hx(want)
		c.Violation("sign:differs-from-reference-eddsa", "signature differs from EdDSA computed with the big-integer reference (prefix = HMAC \"Expand\")", wit)
	} else {
		c.Count("sign_equals_reference", 1)
	}
	if s2 := prv.Sign(msg); !bytes.Equal(s2, sig) {
		c.Violation("sign:not-deterministic", "signing the same message twice gives different signatures", wit)
	}
	exp := prv.ExpandedPrivateKey()
	if s3, err := exp.Sign(nil, msg, crypto.Hash(0)); err != nil || !bytes.Equal(s3, sig) || !bytes.Equal(exp.Public().(ed25519.PublicKey), pub.PublicKey()) {
		c.Violation("sign:expanded-key-differs", "ExpandedPrivateKey.Sign / Public differ from XPrv.Sign / XPub", wit)
	}

	reject := func(class string, k chainkd.XPub, m, s []byte, detail string) {
		c.Eval(1)
		var ok bool
		if guard(c, "XPub.Verify", map[string]string{"xpub": hx(k[:]), "msg": hx(m), "sig": hx(s)}, func() { ok = k.Verify(m, s) }) {
			return
		}
		if ok {
			c.Count("verify_accepted:"+class, 1)
			c.Violation("verify:accepts:"+class, "signature verifies although "+class+" differs", map[string]interface{}{"signer_xpub": hx(pub[:]), "verify_xpub": hx(k[:]), "signed_msg": hx(msg), "verify_msg": hx(m), "signed_sig": hx(sig), "verify_sig": hx(s), "detail": detail})
			return
		}
		c.Count("verify_rejected:"+class, 1)
	}
	// another message
	if len(msg) > 0 {
		m := append([]byte{}, msg...)
		i := rng.Intn(len(m))
		m[i] ^= 1 << uint(rng.Intn(8))
		reject("other-message:bit-flip", pub, m, sig, fmt.Sprintf("byte %d", i))
		reject("other-message:truncated", pub, msg[:len(msg)-1], sig, "")
		reject("other-message:empty", pub, nil, sig, "")
	}
	reject("other-message:extended", pub, append(append([]byte{}, msg...), 0), sig, "")
	reject("other-message:random", pub, rng.Bytes(len(msg)+1), sig, "")
	// another key
	for name, k := range others {
		if bytes.Equal(k[:32], pub[:32]) {
			continue
		}
		reject("other-key:"+name, k, msg, sig, "")
	}
	// flipped signature bits: all 512 in one case out of eight, 24 sampled otherwise
	bits := rng.Perm(512)
	if !rng.Chance(1, 8) {
		bits = bits[:24]
	} else {
		c.Count("all_512_signature_bits_flipped", 1)
	}
	for _, b := range bits {
		s := append([]byte{}, sig...)
		s[b/8] ^= 1 << uint(b%8)
		half := "R"
		if b >= 256 {
			half = "S"
		}
		reject("signature-bit-flip:"+half, pub, msg, s, fmt.Sprintf("bit %d", b))
	}
	reject("signature-truncated", pub, msg, sig[:63], "")
	reject("signature-extended", pub, msg, append(append([]byte{}, sig...), 0), "")
	reject("signature-empty", pub, msg, nil, "")
	// flipped public key bits
	kb := rng.Perm(256)
	if !rng.Chance(1, 16) {
		kb = kb[:12]
	} else {
		c.Count("all_256_pubkey_bits_flipped", 1)
	}
	for _, b := range kb {
		k := pub
		k[b/8] ^= 1 << uint(b%8)
		reject("pubkey-bit-flip", k, msg, sig, fmt.Sprintf("bit %d", b))
	}
	// the chain code is not part of the verification key: same verdict expected (recorded)
	k := pub
	k[32+rng.Intn(32)] ^= 1
	if k.Verify(msg, sig) {
		c.Count("observed:chaincode-change-does-not-affect-verify", 1)
	}
	// S + L: a second encoding of the same signature (malleability) — not part of the property, recorded
	sPlus := new(big.Int).Add(leInt(sig[32:]), ordL)
	if sb, ok := le32(sPlus); ok {
		if pub.Verify(msg, append(append([]byte{}, sig[:32]...), sb[:]...)) {
			c.Count("observed:S+L-accepted", 1)
		} else {
			c.Count("observed:S+L-rejected", 1)
		}
	}
}

// ------------------------------------------------------------ key store

type pwClass struct {
	name string
	gen  func(*ev.Rand) string
}

var pwClasses = []pwClass{
	{"empty", func(*ev.Rand) string { return "" }},
	{"ascii", func(r *ev.Rand) string {
		b := make([]byte, r.Range(1, 24))
		for i := range b {
			b[i] = byte(r.Range(33, 126))
		}
		return string(b)
	}},
	{"one-char", func(r *ev.Rand) string { return string(rune(r.Range(33, 126))) }},
	{"unicode", func(r *ev.Rand) string {
		rs := []rune{}
		for i := 0; i < r.Range(1, 12); i++ {
			rs = append(rs, []rune{'é', 'ß', '的', 'あ', '한', 0x1F600, 'ı', 'K', 0x0301, ' ', 'p'}[r.Intn(11)])
		}
		return string(rs)
	}},
	{"binary", func(r *ev.Rand) string { return string(r.Bytes(r.Range(1, 40))) }},
	{"long", func(r *ev.Rand) string { return strings.Repeat("correct horse battery staple ", r.Range(8, 40)) }},
	{"spaces", func(r *ev.Rand) string { return " " + strings.Repeat("a", r.Range(1, 5)) + " " }},
}

func wrongPasswords(rng *ev.Rand, pw string) map[string]string {
	out := map[string]string{}
	if pw != "" {
		out["empty"] = ""
		b := []byte(pw)
		i := rng.Intn(len(b))
		b[i] ^= 1 << uint(rng.Intn(8))
		out["one-bit"] = string(b)
		out["prefix"] = pw[:len(pw)-1]
		b = []byte(pw)
		i = rng.Intn(len(b))
		if b[i] >= 'a' && b[i] <= 'z' || b[i] >= 'A' && b[i] <= 'Z' {
			b[i] ^= 0x20
			out["case-of-one-char"] = string(b)
		} else {
			b[i]++
			out["one-char"] = string(b)
		}
	}
	out["suffix-added"] = pw + "x"
	out["trailing-space"] = pw + " "
	out["trailing-nul"] = pw + "\x00"
	out["unrelated"] = string(rng.Bytes(rng.Range(1, 16))) + "#"
	for k, v := range out {
		if v == pw {
			delete(out, k)
		}
	}
	return out
}

// hmacKey is the 64-byte key block HMAC-SHA256 derives from a password (RFC 2104: longer keys are hashed, shorter ones
// zero padded).  scrypt and PBKDF2 see the password only through this block, so two strings with the same block ARE the
// same password for every PBKDF2/scrypt based scheme (e.g. "pw" and "pw\x00"); such pairs are recorded, not judged.
func hmacKey(pw string) [64]byte {
	var k [64]byte
	if len(pw) > 64 {
		h := sha256.Sum256([]byte(pw))
		copy(k[:], h[:])
	} else {
		copy(k[:], pw)
	}
	return k
}

func flipHex(rng *ev.Rand, s string) string {
	if s == "" {
		return "00"
	}
	b := []byte(s)
	i := rng.Intn(len(b))
	v := strings.IndexByte("0123456789abcdef", b[i])
	b[i] = "0123456789abcdef"[(v+1+rng.Intn(15))%16]
	return string(b)
}

type scryptParam struct {
	n, p  int
	light bool
}

func keystoreCase(c *ev.Case) {
	rng := c.Rand
	prv := chainkd.RootXPrv(rng.Bytes(64))
	if rng.Bool() {
		prv = prv.Derive([][]byte{randSelector(rng)})
	}
	pub := prv.XPub()
	sp := []scryptParam{{2, 1, false}, {16, 1, false}, {256, 2, false}, {1024, 1, false}, {64, 3, false}}[rng.Intn(5)]
	if (c.Index+c.Index/16)%16 == 0 { // one case in 16, spread over the shards
		sp = scryptParam{pseudohsm.LightScryptN, pseudohsm.LightScryptP, true}
	}
	pc := pwClasses[c.Index/16%len(pwClasses)]
	if !sp.light {
		pc = pwClasses[rng.Intn(len(pwClasses))]
	}
	pw := pc.gen(rng)
	alias := fmt.Sprintf("key-%d", rng.Intn(1000))
	key := &pseudohsm.XKey{ID: uuid.NewRandom(), KeyType: "bytom_kd", Alias: alias, XPrv: prv, XPub: pub}
	wit := map[string]interface{}{"xprv": hx(prv[:]), "password_hex": hx([]byte(pw)), "password_class": pc.name, "scrypt_n": sp.n, "scrypt_p": sp.p}
	var js []byte
	var err error
	if guard(c, "EncryptKey", wit, func() { js, err = pseudohsm.EncryptKey(key, pw, sp.n, sp.p) }) {
		return
	}
	if err != nil {
		c.Violation("keystore:EncryptKey-error", "EncryptKey failed: "+err.Error(), wit)
		return
	}
	wit["keyjson"] = string(js)
	if bytes.Contains(js, []byte(hx(prv[:32]))) || bytes.Contains(js, []byte(hx(prv[:]))) {
		c.Violation("keystore:plaintext-key-in-file", "the key file contains the private scalar in clear", wit)
	}
	var k2 *pseudohsm.XKey
	if guard(c, "DecryptKey", wit, func() { k2, err = pseudohsm.DecryptKey(js, pw) }) {
		return
	}
	c.Eval(1)
	if err != nil || k2 == nil {
		c.Violation("keystore:right-password-rejected:"+pc.name, "DecryptKey fails with the password used for EncryptKey: "+fmt.Sprint(err), wit)
		return
	}
	if k2.XPrv != prv || k2.XPub != pub || k2.Alias != alias || !bytes.Equal(k2.ID, key.ID) || k2.KeyType != "bytom_kd" {
		wit["decrypted_xprv"] = hx(k2.XPrv[:])
		c.Violation("keystore:roundtrip-mismatch", "decrypted key differs from the stored one (xprv/xpub/alias/id/type)", wit)
		return
	}
	msg := randMsg(rng)
	if s1, s2 := prv.Sign(msg), k2.XPrv.Sign(msg); !bytes.Equal(s1, s2) || !pub.Verify(msg, s2) || !ed25519.Verify(pub.PublicKey(), msg, s2) {
		c.Violation("keystore:decrypted-key-signs-differently", "the decrypted key does not produce the same valid signature", wit)
		return
	}
	// the key object the caller stored is still the caller's key: it signs as
	// before, and storing it a second time (other password) stores the same key
	if s1, s3 := prv.Sign(msg), key.XPrv.Sign(msg); !bytes.Equal(s1, s3) || key.XPub != pub {
		wit["key_object_xprv_after_store"] = hx(key.XPrv[:])
		c.Violation("keystore:stored-key-object-signs-differently", "after EncryptKey the caller's key object no longer produces the same signature", wit)
		return
	}
	if !sp.light {
		pw2 := pwClasses[rng.Intn(len(pwClasses))].gen(rng)
		var js2 []byte
		var k4 *pseudohsm.XKey
		wit["second_password_hex"] = hx([]byte(pw2))
		if guard(c, "EncryptKey(second)", wit, func() { js2, err = pseudohsm.EncryptKey(key, pw2, sp.n, sp.p) }) {
			return
		}
		if err == nil {
			wit["second_keyjson"] = string(js2)
			if guard(c, "DecryptKey(second)", wit, func() { k4, err = pseudohsm.DecryptKey(js2, pw2) }) {
				return
			}
		}
		c.Eval(1)
		if err != nil || k4 == nil {
			c.Violation("keystore:second-store:right-password-rejected", "the same key object stored a second time does not decrypt with its password: "+fmt.Sprint(err), wit)
			return
		}
		if s1, s4 := prv.Sign(msg), k4.XPrv.Sign(msg); k4.XPrv != prv || k4.XPub != pub || !bytes.Equal(s1, s4) {
			wit["decrypted_xprv"] = hx(k4.XPrv[:])
			c.Violation("keystore:second-store:decrypted-key-differs", "the same key object stored a second time decrypts to another key", wit)
			return
		}
		c.Count("keystore_second_store_ok", 1)
		delete(wit, "second_keyjson")
		delete(wit, "second_password_hex")
	}
	lt := "fast-params"
	if sp.light {
		lt = "light-params"
	}
	c.Count("keystore_roundtrip_ok:"+lt, 1)
	c.Count("keystore_password_class:"+pc.name, 1)
	c.Distinct("keystore %s pw=%s", lt, pc.name)

	// wrong passwords
	wp := wrongPasswords(rng, pw)
	names := []string{}
	for k := range wp {
		names = append(names, k)
	}
	sortStrings(names)
	if sp.light && len(names) > 4 {
		rng.Shuffle(len(names), func(i, j int) { names[i], names[j] = names[j], names[i] })
		names = names[:4]
	}
	for _, name := range names {
		bad := wp[name]
		var k3 *pseudohsm.XKey
		var err error
		w := map[string]interface{}{"keyjson": string(js), "right_password_hex": hx([]byte(pw)), "tried_password_hex": hx([]byte(bad))}
		if guard(c, "DecryptKey", w, func() { k3, err = pseudohsm.DecryptKey(js, bad) }) {
			continue
		}
		c.Eval(1)
		if hmacKey(bad) == hmacKey(pw) {
			if err == nil {
				c.Count("observed:hmac-equivalent-password-accepted:"+name, 1)
			} else {
				c.Count("observed:hmac-equivalent-password-rejected:"+name, 1)
			}
			continue
		}
		if err == nil {
			w["decrypted_xprv"] = hx(k3.XPrv[:])
			c.Violation("keystore:wrong-password-accepted:"+name, "DecryptKey succeeds with a password different from the one used to encrypt", w)
		} else {
			c.Count("wrong_password_rejected:"+name, 1)
			c.Distinct("keystore wrong-pw %s -> %s", name, errHead(err))
		}
	}

	// tampered file, right password
	var m map[string]interface{}
	if json.Unmarshal(js, &m) != nil {
		c.Violation("keystore:keyfile-not-json", "EncryptKey output is not JSON", wit)
		return
	}
	tampers := []string{"ciphertext", "mac", "salt", "scrypt-n", "ciphertext-truncated", "ciphertext-extended", "mac-truncated"}
	if sp.light {
		tampers = []string{"ciphertext", "mac", "salt"}
	}
	for _, field := range tampers {
		var m2 map[string]interface{}
		_ = json.Unmarshal(js, &m2)
		cr := m2["crypto"].(map[string]interface{})
		kp := cr["kdfparams"].(map[string]interface{})
		switch field {
		case "ciphertext":
			cr["ciphertext"] = flipHex(rng, cr["ciphertext"].(string))
		case "mac":
			cr["mac"] = flipHex(rng, cr["mac"].(string))
		case "salt":
			kp["salt"] = flipHex(rng, kp["salt"].(string))
		case "scrypt-n":
			kp["n"] = sp.n * 2
		case "ciphertext-truncated":
			s := cr["ciphertext"].(string)
			cr["ciphertext"] = s[:len(s)-2]
		case "ciphertext-extended":
			cr["ciphertext"] = cr["ciphertext"].(string) + "00"
		case "mac-truncated":
			s := cr["mac"].(string)
			cr["mac"] = s[:len(s)-2]
		}
		tj, _ := json.Marshal(m2)
		var k3 *pseudohsm.XKey
		var err error
		w := map[string]interface{}{"original": string(js), "tampered": string(tj), "password_hex": hx([]byte(pw)), "field": field}
		if guard(c, "DecryptKey", w, func() { k3, err = pseudohsm.DecryptKey(tj, pw) }) {
			continue
		}
		c.Eval(1)
		if err == nil {
			w["decrypted_xprv"] = hx(k3.XPrv[:])
			c.Violation("keystore:tampered-file-accepted:"+field, "DecryptKey succeeds on a key file whose "+field+" was changed", w)
		} else {
			c.Count("tamper_rejected:"+field, 1)
		}
	}
	// the IV is not covered by the MAC in this (web3-style) format: a changed IV decrypts to another key without error.  Not part of the property (the password is right): recorded.
	if !sp.light {
		var m2 map[string]interface{}
		_ = json.Unmarshal(js, &m2)
		cp := m2["crypto"].(map[string]interface{})["cipherparams"].(map[string]interface{})
		cp["iv"] = flipHex(rng, cp["iv"].(string))
		tj, _ := json.Marshal(m2)
		guard(c, "DecryptKey", string(tj), func() {
			k3, err := pseudohsm.DecryptKey(tj, pw)
			switch {
			case err != nil:
				c.Count("observed:iv-tamper-rejected", 1)
			case k3.XPrv == prv:
				c.Count("observed:iv-tamper-same-key", 1)
			default:
				c.Count("observed:iv-tamper-yields-other-key-silently", 1)
			}
		})
		// two encryptions of the same key differ (fresh salt and iv)
		if js2, err := pseudohsm.EncryptKey(key, pw, sp.n, sp.p); err == nil && bytes.Equal(js2, js) {
			c.Violation("keystore:encryption-not-randomised", "two encryptions of the same key are byte-identical (salt/iv reused)", wit)
		}
	}
	if c.WantSample() {
		delete(wit, "xprv")
		c.Sample(wit)
	}
}

func sortStrings(s []string) {
	for i := 1; i < len(s); i++ {
		for j := i; j > 0 && s[j] < s[j-1]; j-- {
			s[j], s[j-1] = s[j-1], s[j]
		}
	}
}

func errHead(err error) string {
	m := err.Error()
	if len(m) > 40 {
		m = m[:40]
	}
	return m
}

// ------------------------------------------------------------ the HSM itself

func hsmCase(t *testing.T) func(c *ev.Case) {
	return func(c *ev.Case) {
		rng := c.Rand
		dir, err := ioutil.TempDir(t.TempDir(), "hsm")
		if err != nil {
			c.Inconclusive("temp dir: %v", err)
			return
		}
		defer os.RemoveAll(dir)
		pc := pwClasses[1+c.Index%(len(pwClasses)-1)]
		pw := pc.gen(rng)
		lang := []string{"en", "zh_CN", "ja", "es", "it", "ko", "zh_TW"}[c.Index%7]
		alias := []string{"alice", "bob-2", "Mixed Case", "  padded  "}[c.Index%4]
		wit := map[string]interface{}{"password_hex": hx([]byte(pw)), "alias": alias, "language": lang}
		fail := func(key, what string, extra ...interface{}) {
			w := map[string]interface{}{}
			for k, v := range wit {
				w[k] = v
			}
			w["detail"] = fmt.Sprint(extra...)
			c.Violation(key, what, w)
		}
		var hsm *pseudohsm.HSM
		var xp *pseudohsm.XPub
		var mn *string
		if guard(c, "HSM.XCreate", wit, func() {
			hsm, err = pseudohsm.New(dir)
			if err == nil {
				xp, mn, err = hsm.XCreate(alias, pw, lang)
			}
		}) {
			return
		}
		if err != nil || xp == nil || mn == nil {
			fail("hsm:XCreate-error", "XCreate failed", err)
			return
		}
		c.Count("hsm_created", 1)
		wit["xpub"] = hx(xp.XPub[:])
		path := [][]byte{}
		for i := 0; i < rng.Intn(4); i++ {
			path = append(path, randSelector(rng))
		}
		msg := randMsg(rng)
		dpub := xp.XPub.Derive(path)
		var sig []byte
		guard(c, "HSM.XSign", wit, func() { sig, err = hsm.XSign(xp.XPub, path, msg, pw) })
		if err != nil || !dpub.Verify(msg, sig) || !ed25519.Verify(dpub.PublicKey(), msg, sig) {
			fail("hsm:XSign-right-password", "XSign with the right password fails or its signature does not verify under xpub.Derive(path)", err)
			return
		}
		c.Count("hsm_xsign_ok", 1)
		for name, bad := range wrongPasswords(rng, pw) {
			if name != "one-bit" && name != "empty" && name != "suffix-added" || hmacKey(bad) == hmacKey(pw) {
				continue
			}
			var s2 []byte
			guard(c, "HSM.XSign", wit, func() { s2, err = hsm.XSign(xp.XPub, path, msg, bad) })
			c.Eval(1)
			if err == nil {
				fail("hsm:XSign-wrong-password-accepted:"+name, "XSign succeeds with a wrong password", hx([]byte(bad)), " sig ", hx(s2))
			} else {
				c.Count("hsm_wrong_password_rejected:"+name, 1)
			}
		}
		// the loaded key is the key of the xpub and signs identically
		var xprv chainkd.XPrv
		guard(c, "HSM.LoadChainKDKey", wit, func() { xprv, err = hsm.LoadChainKDKey(xp.XPub, pw) })
		if err != nil || xprv.XPub() != xp.XPub || !bytes.Equal(xprv.Derive(path).Sign(msg), sig) {
			fail("hsm:loaded-key-differs", "LoadChainKDKey does not return the key of the xpub / it signs differently", err)
		}
		// the file on disk decrypts with the password only
		kj, err := ioutil.ReadFile(xp.File)
		if err != nil {
			fail("hsm:key-file-missing", "the key file named by XCreate cannot be read", err)
			return
		}
		if k, err := pseudohsm.DecryptKey(kj, pw); err != nil || k.XPrv != xprv {
			fail("hsm:key-file-does-not-decrypt", "the stored key file does not decrypt to the key with the right password", err)
		}
		if _, err := pseudohsm.DecryptKey(kj, pw+"x"); err == nil && hmacKey(pw+"x") != hmacKey(pw) {
			fail("keystore:wrong-password-accepted:suffix-added", "stored key file decrypts with a wrong password")
		}
		// the mnemonic recreates the same key in another store
		dir2, _ := ioutil.TempDir(t.TempDir(), "hsm2")
		defer os.RemoveAll(dir2)
		hsm2, _ := pseudohsm.New(dir2)
		pw2 := pwClasses[1+rng.Intn(len(pwClasses)-1)].gen(rng)
		var xp2 *pseudohsm.XPub
		guard(c, "HSM.ImportKeyFromMnemonic", wit, func() { xp2, err = hsm2.ImportKeyFromMnemonic(alias, pw2, *mn, lang) })
		if err != nil || xp2 == nil || xp2.XPub != xp.XPub {
			fail("hsm:mnemonic-import-differs", "ImportKeyFromMnemonic of the mnemonic returned by XCreate does not give the same xpub", err)
		} else {
			var s2 []byte
			guard(c, "HSM.XSign", wit, func() { s2, err = hsm2.XSign(xp2.XPub, path, msg, pw2) })
			if err != nil || !bytes.Equal(s2, sig) {
				fail("hsm:imported-key-signs-differently", "the key imported from the mnemonic does not sign identically", err)
			} else {
				c.Count("hsm_import_signs_identically", 1)
			}
		}
		// password reset
		newPw := pw + "-new"
		guard(c, "HSM.ResetPassword", wit, func() { err = hsm.ResetPassword(xp.XPub, pw+"?", newPw) })
		if err == nil {
			fail("hsm:ResetPassword-wrong-old-password-accepted", "ResetPassword succeeds with a wrong old password")
		}
		if s2, err := hsm.XSign(xp.XPub, path, msg, pw); err != nil || !bytes.Equal(s2, sig) {
			fail("hsm:failed-reset-changed-key", "after a refused ResetPassword the key no longer signs with its password", err)
		}
		guard(c, "HSM.ResetPassword", wit, func() { err = hsm.ResetPassword(xp.XPub, pw, newPw) })
		if err != nil {
			fail("hsm:ResetPassword-error", "ResetPassword with the right old password failed", err)
			return
		}
		if _, err := hsm.XSign(xp.XPub, path, msg, pw); err == nil {
			fail("hsm:old-password-works-after-reset", "the old password still unlocks the key after ResetPassword")
		} else {
			c.Count("hsm_old_password_rejected_after_reset", 1)
		}
		if s2, err := hsm.XSign(xp.XPub, path, msg, newPw); err != nil || !bytes.Equal(s2, sig) {
			fail("hsm:new-password-signs-differently", "after ResetPassword the key does not sign identically with the new password", err)
		} else {
			c.Count("hsm_reset_signs_identically", 1)
		}
		// a fresh HSM over the same directory finds the key
		hsm3, _ := pseudohsm.New(dir)
		if s2, err := hsm3.XSign(xp.XPub, path, msg, newPw); err != nil || !bytes.Equal(s2, sig) {
			fail("hsm:reopened-store-signs-differently", "a new HSM over the same directory cannot sign identically", err)
		} else {
			c.Count("hsm_reopen_signs_identically", 1)
		}
		// delete needs the password
		if err := hsm.XDelete(xp.XPub, newPw+"!"); err == nil {
			fail("hsm:XDelete-wrong-password-accepted", "XDelete succeeds with a wrong password")
		}
		if err := hsm.XDelete(xp.XPub, newPw); err != nil {
			fail("hsm:XDelete-error", "XDelete with the right password failed", err)
		} else if _, err := hsm.XSign(xp.XPub, path, msg, newPw); err == nil {
			fail("hsm:deleted-key-still-signs", "XSign works after XDelete")
		} else {
			c.Count("hsm_deleted", 1)
		}
		c.Distinct("hsm pw=%s lang=%s alias=%q depth=%d", pc.name, lang, alias, len(path))
		c.Sample(map[string]interface{}{"alias": alias, "language": lang, "password_class": pc.name, "path": pathHex(path)})
	}
}

const (
	nDerQ, nDerT = 1600, 160000
	nKsQ, nKsT   = 256, 16000
)

func TestC28(t *testing.T) {
	r := ev.Start(t, "C28")
	defer r.Finish()
	r.Rule("derive: seeds of 0..200 bytes (mostly 64) x non-hardened paths of depth 0..8 x selectors of 0..40 bytes (empty, zero, 0xff, random), each with one signed message and all negative classes (24 sampled or all 512 signature bit flips, 12 sampled or all 256 public key bit flips); keystore: EncryptKey/DecryptKey over 7 password classes x scrypt parameters (1/16 with LightScryptN/P), every wrong-password class and file tamper class; hsm: whole life cycle in temp dirs. distinct = (path depth, seed length class, selector length classes) | (scrypt class, password class) | wrong-password class x error | hsm configuration")
	r.Assume("math/big edwards25519 reference and the re-implemented ChainKD rules are correct; crypto/ed25519.Verify (standard library) is a correct verifier; SHA-512/HMAC/scrypt/AES from the libraries are trusted")
	r.Assume("'a different password' means a different HMAC key block (RFC 2104 zero-pads keys shorter than 64 bytes and hashes longer ones): pw and pw+NUL are the same scrypt/PBKDF2 password by construction; such pairs are recorded (observed:hmac-equivalent-*), not judged")
	r.Assume("'another key' means another public key (first 32 bytes); the chain code is not part of the verification key")

	r.Cases("derive", r.N(nDerQ, nDerT), deriveCase)
	r.Cases("keystore", r.N(nKsQ, nKsT), keystoreCase)
	r.Cases("hsm", r.N(4, 96), hsmCase(t))

	q := func(a, b int64) int64 {
		if r.Thorough() {
			return b
		}
		return a
	}
	r.Floor("paths_commute", q(nDerQ, nDerT))
	for d := 0; d <= 8; d++ {
		r.Floor(fmt.Sprintf("paths_commute_depth=%d", d), q(nDerQ/16, nDerT/16))
	}
	r.Floor("child_steps_commute", q(nDerQ*3, nDerT*3))
	for _, k := range []string{"0", "1-8", "9-39", "40"} {
		r.Floor("selector_len_class:"+k, q(nDerQ/5, nDerT/5))
	}
	r.Floor("root_xpub_equals_reference", q(nDerQ, nDerT))
	r.Floor("hardened_children", q(nDerQ, nDerT))
	r.Floor("sign_verify_ok", q(nDerQ, nDerT))
	r.Floor("sign_equals_reference", q(nDerQ, nDerT))
	r.Floor("verify_rejected:other-message:bit-flip", q(nDerQ*3/4, nDerT*3/4))
	r.Floor("verify_rejected:other-message:extended", q(nDerQ, nDerT))
	r.Floor("verify_rejected:other-key:root", q(nDerQ*3/4, nDerT*3/4))
	r.Floor("verify_rejected:other-key:other-seed", q(nDerQ, nDerT))
	r.Floor("verify_rejected:signature-bit-flip:R", q(nDerQ*30, nDerT*30))
	r.Floor("verify_rejected:signature-bit-flip:S", q(nDerQ*30, nDerT*30))
	r.Floor("all_512_signature_bits_flipped", q(nDerQ/12, nDerT/12))
	r.Floor("verify_rejected:pubkey-bit-flip", q(nDerQ*18, nDerT*18))
	r.Floor("keystore_roundtrip_ok:fast-params", q(nKsQ*14/16, nKsT*14/16))
	r.Floor("keystore_roundtrip_ok:light-params", q(nKsQ/17, nKsT/17))
	r.Floor("keystore_second_store_ok", q(nKsQ*14/16, nKsT*14/16))
	for _, w := range []string{"empty", "one-bit", "prefix", "suffix-added", "trailing-space", "unrelated"} {
		r.Floor("wrong_password_rejected:"+w, q(nKsQ/2, nKsT/2))
	}
	for _, f := range []string{"ciphertext", "mac", "salt"} {
		r.Floor("tamper_rejected:"+f, q(nKsQ*15/16, nKsT*15/16))
	}
	r.Floor("hsm_xsign_ok", q(4, 96))
	r.Floor("hsm_import_signs_identically", q(4, 96))
	r.Floor("hsm_reset_signs_identically", q(4, 96))
	r.Floor("hsm_old_password_rejected_after_reset", q(4, 96))
}
