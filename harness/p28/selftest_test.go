package p28

import (
	"bytes"
	"crypto/ed25519"
	"crypto/sha512"
	"testing"

	"verif/internal/ev"
)

// TestReferenceCurve validates the math/big reference against the standard
// library (not against the code under test): public keys and whole signatures
// of RFC 8032 keys must match.
func TestReferenceCurve(t *testing.T) {
	rng := ev.NewRand(1, "C28", "selftest", 0)
	for i := 0; i < 200; i++ {
		seed := rng.Bytes(32)
		priv := ed25519.NewKeyFromSeed(seed)
		h := sha512.Sum512(seed)
		h[0] &= 248
		h[31] &= 127
		h[31] |= 64
		got := scalarBase(leInt(h[:32]))
		if !bytes.Equal(got[:], priv.Public().(ed25519.PublicKey)) {
			t.Fatalf("reference scalar*B differs from crypto/ed25519 for seed %x", seed)
		}
		// reference EdDSA with the RFC 8032 prefix must reproduce the library signature
		msg := rng.Bytes(rng.Intn(100))
		a := leInt(h[:32])
		hh := sha512.New()
		hh.Write(h[32:])
		hh.Write(msg)
		r := leInt(hh.Sum(nil))
		r.Mod(r, ordL)
		R := scalarBase(r)
		hh.Reset()
		hh.Write(R[:])
		hh.Write(got[:])
		hh.Write(msg)
		k := leInt(hh.Sum(nil))
		k.Mod(k, ordL)
		k.Mul(k, a).Add(k, r).Mod(k, ordL)
		sb, _ := le32(k)
		if sig := append(R[:], sb[:]...); !bytes.Equal(sig, ed25519.Sign(priv, msg)) {
			t.Fatalf("reference EdDSA differs from crypto/ed25519 for seed %x", seed)
		}
	}
	// scalars above the group order (ChainKD scalars are not reduced)
	for i := 0; i < 50; i++ {
		k := leInt(rng.Bytes(32))
		a := scalarBase(k)
		b := scalarBase(k.Mod(k, ordL))
		if a != b {
			t.Fatalf("k*B != (k mod L)*B")
		}
	}
}
