// Independent model of "this witness unlocks this standard program for this
// transaction".  Written from the property statement and the byte-level shape
// of the standard programs; it never runs the VM.
//
//   P2WPKH            program  00 14 <20-byte hash>
//                     witness  [... sig pubkey]          ripemd160(pubkey) = hash, sig valid for pubkey
//   P2WSH             program  00 20 <32-byte hash>
//                     witness  [... sig.. script]        sha3-256(script) = hash, script = multisig below
//   m-of-n multisig   program  ae (20 <32-byte key>)*n  OP_m OP_n  ad
//                     witness  [... sig_1 .. sig_m]      there are keys k_1 < k_2 < .. < k_m (positions in the
//                                                         program) with sig_i valid for key k_i
//
// "valid" always means crypto/ed25519.Verify(key, sighash, sig) with
// sighash = sha3-256(inputID ‖ txID).  Items below the ones named are not
// looked at (the VM leaves them on the stack); such witnesses are called
// non-canonical here.
package p02

import (
	"bytes"
	"crypto/ed25519"

	"golang.org/x/crypto/ripemd160"
	"golang.org/x/crypto/sha3"

	"github.com/bytom/bytom/protocol/bc/types"
)

func sha3sum(b []byte) []byte {
	h := sha3.Sum256(b)
	return h[:]
}

func ripemd(b []byte) []byte {
	h := ripemd160.New()
	h.Write(b)
	return h.Sum(nil)
}

// sigHash is the signature hash of input i by the property's definition.
func sigHash(tx *types.Tx, i int) []byte {
	h := sha3.New256()
	h.Write(tx.Tx.InputIDs[i].Bytes())
	h.Write(tx.Tx.ID.Bytes())
	return h.Sum(nil)
}

func isP2WPKH(p []byte) bool { return len(p) == 22 && p[0] == 0x00 && p[1] == 0x14 }
func isP2WSH(p []byte) bool  { return len(p) == 34 && p[0] == 0x00 && p[1] == 0x20 }

// parseMultisig recognises  TXSIGHASH <key>*n  m n CHECKMULTISIG  with 1 <= m <= n <= 16.
func parseMultisig(p []byte) (keys [][]byte, m int, ok bool) {
	if len(p) < 1+33+3 || p[0] != 0xae || p[len(p)-1] != 0xad {
		return nil, 0, false
	}
	body := p[1 : len(p)-3]
	if len(body)%33 != 0 {
		return nil, 0, false
	}
	n := len(body) / 33
	for i := 0; i < n; i++ {
		if body[33*i] != 0x20 {
			return nil, 0, false
		}
		keys = append(keys, body[33*i+1:33*i+33])
	}
	m = int(p[len(p)-3]) - 0x50
	nn := int(p[len(p)-2]) - 0x50
	if nn != n || m < 1 || m > n || n > 16 {
		return nil, 0, false
	}
	return keys, m, true
}

type verdict struct {
	decided   bool // the program has one of the standard shapes
	valid     bool
	canonical bool // exactly the expected items, nothing underneath
	why       string
}

type verifier struct {
	cache map[string]bool
	calls int64
}

func newVerifier() *verifier { return &verifier{cache: map[string]bool{}} }

func (v *verifier) ok(pub, msg, sig []byte) bool {
	if len(pub) != ed25519.PublicKeySize {
		return false
	}
	k := string(pub) + string(msg) + string(sig) // pub and msg have fixed lengths
	if r, hit := v.cache[k]; hit {
		return r
	}
	v.calls++
	r := ed25519.Verify(ed25519.PublicKey(pub), msg, sig)
	v.cache[k] = r
	return r
}

// inKeyOrder: is there a strictly increasing assignment of keys to sigs under
// which every signature verifies?
func (v *verifier) inKeyOrder(keys, sigs [][]byte, msg []byte) bool {
	var rec func(i, from int) bool
	rec = func(i, from int) bool {
		if i == len(sigs) {
			return true
		}
		for k := from; k < len(keys); k++ {
			if v.ok(keys[k], msg, sigs[i]) && rec(i+1, k+1) {
				return true
			}
		}
		return false
	}
	return rec(0, 0)
}

func (v *verifier) multisig(keys [][]byte, m int, args [][]byte, msg []byte) verdict {
	if len(args) < m {
		return verdict{decided: true, why: "too-few-signatures"}
	}
	sigs := args[len(args)-m:]
	if v.inKeyOrder(keys, sigs, msg) {
		return verdict{decided: true, valid: true, canonical: len(args) == m}
	}
	// why not (diagnosis only: names the violation, does not change the verdict)
	seen := map[int]bool{}
	why := "out-of-key-order"
	for _, s := range sigs {
		owner := -1
		for k := range keys {
			if v.ok(keys[k], msg, s) {
				owner = k
				break
			}
		}
		if owner < 0 {
			return verdict{decided: true, why: "bad-signature"}
		}
		if seen[owner] {
			why = "repeated-signature"
		}
		seen[owner] = true
	}
	return verdict{decided: true, why: why}
}

func (v *verifier) input(prog []byte, args [][]byte, msg []byte) verdict {
	switch {
	case isP2WPKH(prog):
		if len(args) < 2 {
			return verdict{decided: true, why: "missing-items"}
		}
		pub, sig := args[len(args)-1], args[len(args)-2]
		if !bytes.Equal(ripemd(pub), prog[2:]) {
			return verdict{decided: true, why: "pubkey-hash-mismatch"}
		}
		if !v.ok(pub, msg, sig) {
			return verdict{decided: true, why: "bad-signature"}
		}
		return verdict{decided: true, valid: true, canonical: len(args) == 2}
	case isP2WSH(prog):
		if len(args) < 1 {
			return verdict{decided: true, why: "missing-items"}
		}
		script := args[len(args)-1]
		if !bytes.Equal(sha3sum(script), prog[2:]) {
			return verdict{decided: true, why: "script-hash-mismatch"}
		}
		keys, m, ok := parseMultisig(script)
		if !ok {
			return verdict{why: "committed-script-is-not-multisig"}
		}
		return v.multisig(keys, m, args[:len(args)-1], msg)
	default:
		keys, m, ok := parseMultisig(prog)
		if !ok {
			return verdict{why: "not-a-standard-program"}
		}
		return v.multisig(keys, m, args, msg)
	}
}

// tx: every input must be unlocked.
func (v *verifier) tx(tx *types.Tx) (all verdict, per []verdict, firstBad int) {
	all = verdict{decided: true, valid: true, canonical: true}
	firstBad = -1
	for i, in := range tx.Inputs {
		d := v.input(in.ControlProgram(), in.Arguments(), sigHash(tx, i))
		per = append(per, d)
		all.decided = all.decided && d.decided
		all.valid = all.valid && d.valid
		all.canonical = all.canonical && d.canonical
		if !d.valid && firstBad < 0 {
			all.why, firstBad = d.why, i
		}
	}
	all.valid = all.valid && all.decided
	return all, per, firstBad
}
