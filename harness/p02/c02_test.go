// C02 — outputs locked by standard programs are spendable only with a matching
// witness.  Every case is one spending transaction with 1–3 inputs locked by
// P2WPKH / P2WSH(m-of-n multisig) / bare m-of-n multisig; the correct witness
// must pass validation.ValidateTx, and every mutant of the witness or of a
// committed field is accepted iff the independent model (model_test.go) says
// the witness is valid for this exact signature hash.
package p02

import (
	"bytes"
	"crypto/ed25519"
	"encoding/hex"
	"errors"
	"fmt"
	"io"
	"os"
	"strings"
	"testing"

	"github.com/sirupsen/logrus"

	"github.com/bytom/bytom/consensus"
	"github.com/bytom/bytom/crypto/ed25519/chainkd"
	berrors "github.com/bytom/bytom/errors"
	"github.com/bytom/bytom/protocol/bc"
	"github.com/bytom/bytom/protocol/bc/types"
	"github.com/bytom/bytom/protocol/validation"
	"github.com/bytom/bytom/protocol/vm"
	"github.com/bytom/bytom/protocol/vm/vmutil"

	"verif/internal/ev"
)

func TestMain(m *testing.M) {
	logrus.SetLevel(logrus.PanicLevel)
	logrus.SetOutput(io.Discard)
	os.Exit(m.Run())
}

// ---------------------------------------------------------------- keys / locks

type signer struct {
	kind string
	pub  []byte
	sign func(msg []byte) []byte
}

func newSigner(rng *ev.Rand) *signer {
	switch rng.Intn(4) {
	case 0: // chainkd root key
		x := chainkd.RootXPrv(rng.Bytes(rng.Range(16, 64)))
		return &signer{"chainkd-root", []byte(x.XPub().PublicKey()), x.Sign}
	case 1: // chainkd non-hardened derivation path (what accounts use)
		x := chainkd.RootXPrv(rng.Bytes(32))
		var path [][]byte
		for i, n := 0, rng.Range(1, 4); i < n; i++ {
			path = append(path, rng.Bytes(rng.Range(1, 9)))
		}
		x = x.Derive(path)
		return &signer{"chainkd-derived", []byte(x.XPub().PublicKey()), x.Sign}
	case 2: // chainkd hardened child
		x := chainkd.RootXPrv(rng.Bytes(32)).Child(rng.Bytes(rng.Range(1, 9)), true)
		return &signer{"chainkd-hardened", []byte(x.XPub().PublicKey()), x.Sign}
	default: // plain RFC 8032 key
		priv := ed25519.NewKeyFromSeed(rng.Bytes(32))
		return &signer{"ed25519", []byte(priv.Public().(ed25519.PublicKey)), func(msg []byte) []byte { return ed25519.Sign(priv, msg) }}
	}
}

const (
	kindPKH  = "p2wpkh"
	kindWSH  = "p2wsh-multisig"
	kindBare = "bare-multisig"
)

type lock struct {
	kind   string
	m, n   int
	keys   []*signer
	script []byte // the multisig program (redeem script of p2wsh, control program of bare); nil for p2wpkh
	prog   []byte // control program of the output
	subset []int  // keys (ascending) that sign the correct witness
}

func multisigScript(keys []*signer, m int) ([]byte, error) {
	pubs := make([]ed25519.PublicKey, len(keys))
	for i, k := range keys {
		pubs[i] = ed25519.PublicKey(k.pub)
	}
	return vmutil.P2SPMultiSigProgram(pubs, m)
}

func newLock(rng *ev.Rand) (*lock, error) {
	l := &lock{}
	var err error
	switch rng.Intn(3) {
	case 0:
		l.kind, l.m, l.n = kindPKH, 1, 1
		l.keys = []*signer{newSigner(rng)}
		l.subset = []int{0}
		l.prog, err = vmutil.P2WPKHProgram(ripemd(l.keys[0].pub))
		return l, err
	case 1:
		l.kind = kindWSH
	default:
		l.kind = kindBare
	}
	l.n = rng.Range(1, 6)
	l.m = rng.Range(1, l.n)
	for i := 0; i < l.n; i++ {
		l.keys = append(l.keys, newSigner(rng))
	}
	// a random m-subset, ascending
	p := rng.Perm(l.n)[:l.m]
	in := map[int]bool{}
	for _, k := range p {
		in[k] = true
	}
	for k := 0; k < l.n; k++ {
		if in[k] {
			l.subset = append(l.subset, k)
		}
	}
	if l.script, err = multisigScript(l.keys, l.m); err != nil {
		return nil, err
	}
	if l.kind == kindBare {
		l.prog = l.script
		return l, nil
	}
	l.prog, err = vmutil.P2WSHProgram(sha3sum(l.script))
	return l, err
}

// witness builds the witness of this lock from signatures by the keys idx (in that order).
func (l *lock) witness(msg []byte, idx []int) [][]byte {
	args := [][]byte{}
	for _, k := range idx {
		args = append(args, l.keys[k].sign(msg))
	}
	return l.close(args)
}

// close appends what follows the signatures.
func (l *lock) close(sigs [][]byte) [][]byte {
	args := append([][]byte{}, sigs...)
	switch l.kind {
	case kindPKH:
		args = append(args, l.keys[0].pub)
	case kindWSH:
		args = append(args, l.script)
	}
	return args
}

// ---------------------------------------------------------------- transactions

func cloneData(d *types.TxData) types.TxData {
	c := types.TxData{Version: d.Version, SerializedSize: d.SerializedSize, TimeRange: d.TimeRange}
	for _, in := range d.Inputs {
		switch sp := in.TypedInput.(type) {
		case *types.SpendInput:
			c.Inputs = append(c.Inputs, types.NewSpendInput(cloneArgs(sp.Arguments), sp.SourceID, *sp.AssetId, sp.Amount, sp.SourcePosition,
				append([]byte{}, sp.ControlProgram...), cloneState(sp.StateData)))
		case *types.VetoInput:
			c.Inputs = append(c.Inputs, types.NewVetoInput(cloneArgs(sp.Arguments), sp.SourceID, *sp.AssetId, sp.Amount, sp.SourcePosition,
				append([]byte{}, sp.ControlProgram...), append([]byte{}, sp.Vote...), cloneState(sp.StateData)))
		}
	}
	for _, o := range d.Outputs {
		if v, ok := o.TypedOutput.(*types.VoteOutput); ok {
			c.Outputs = append(c.Outputs, types.NewVoteOutput(*o.AssetId, o.Amount, append([]byte{}, o.ControlProgram...), append([]byte{}, v.Vote...), cloneState(o.StateData)))
			continue
		}
		c.Outputs = append(c.Outputs, types.NewOriginalTxOutput(*o.AssetId, o.Amount, append([]byte{}, o.ControlProgram...), cloneState(o.StateData)))
	}
	return c
}

// cloneState copies a state data list (nil stays nil).
func cloneState(sd [][]byte) [][]byte {
	if sd == nil {
		return nil
	}
	return cloneArgs(sd)
}

// randState: the state data of an output, most often none, else one to four
// items, some of them empty.
func randState(rng *ev.Rand) [][]byte {
	if rng.Chance(1, 2) {
		return nil
	}
	sd := make([][]byte, rng.Range(1, 4))
	for i := range sd {
		sd[i] = rng.Bytes(rng.Range(0, 6))
	}
	return sd
}

// alteredState returns a state data list that differs from sd as a list of
// byte strings: an item boundary moved (the concatenation stays the same), one
// byte changed, an item added, or an item dropped.
func alteredState(sd [][]byte, rng *ev.Rand) ([][]byte, string) {
	c := cloneArgs(sd)
	for tries := 0; tries < 8; tries++ {
		switch rng.Intn(4) {
		case 0: // boundary between two neighbours moves
			if len(c) < 2 {
				continue
			}
			i := rng.Intn(len(c) - 1)
			joined := append(append([]byte{}, c[i]...), c[i+1]...)
			if len(joined) == 0 {
				continue
			}
			cut := rng.Intn(len(joined) + 1)
			if cut == len(c[i]) {
				cut = (cut + 1) % (len(joined) + 1)
			}
			c[i], c[i+1] = joined[:cut:cut], joined[cut:]
			return c, "boundary"
		case 1:
			i := rng.Intn(len(c) + 1)
			if i == len(c) || len(c[i]) == 0 {
				continue
			}
			c[i] = flipped(c[i], rng.Intn(len(c[i])), rng)
			return c, "byte"
		case 2:
			if len(c) == 0 {
				continue
			}
			return c[:len(c)-1], "dropped"
		case 3:
			if rng.Bool() {
				return append(c, []byte{}), "added-empty"
			}
			return append(c, rng.Bytes(rng.Range(1, 4))), "added"
		}
	}
	return append(c, []byte{1}), "added"
}

// voteOutputs lists the positions of the vote outputs.
func voteOutputs(d *types.TxData) []int {
	var l []int
	for i, o := range d.Outputs {
		if _, ok := o.TypedOutput.(*types.VoteOutput); ok {
			l = append(l, i)
		}
	}
	return l
}

func cloneArgs(a [][]byte) [][]byte {
	c := make([][]byte, len(a))
	for i := range a {
		c[i] = append([]byte{}, a[i]...)
	}
	return c
}

// spendOf: the commitment to the spent output of input i (a spend, or the veto of a vote output).
func spendOf(d *types.TxData, i int) *types.SpendCommitment {
	switch in := d.Inputs[i].TypedInput.(type) {
	case *types.VetoInput:
		return &in.SpendCommitment
	case *types.SpendInput:
		return &in.SpendCommitment
	}
	panic("harness: unexpected input type")
}

func txHex(tx *types.Tx) string {
	b, err := tx.TxData.MarshalText()
	if err != nil {
		return "marshal: " + err.Error()
	}
	return string(b)
}

func hexArgs(a [][]byte) []string {
	s := make([]string, len(a))
	for i := range a {
		s[i] = hex.EncodeToString(a[i])
	}
	return s
}

type spend struct {
	locks  []*lock
	height uint64
	tx     *types.Tx  // with the correct witnesses
	args   [][][]byte // the correct witness of every input
	vetoes int        // inputs that are vetoes of vote outputs
	votes  int        // outputs that are vote outputs
}

func randHash(rng *ev.Rand) bc.Hash {
	var b [32]byte
	copy(b[:], rng.Bytes(32))
	return bc.NewHash(b)
}

func randProgram(rng *ev.Rand) []byte {
	switch rng.Intn(3) {
	case 0:
		return append([]byte{0x00, 0x14}, rng.Bytes(20)...)
	case 1:
		return append([]byte{0x00, 0x20}, rng.Bytes(32)...)
	default:
		return append([]byte{0x51, 0x75, 0x20}, rng.Bytes(32)...) // TRUE DROP <data>: non-empty, never starts with FAIL
	}
}

// signAll produces the correct witness of every input of tx.
func signAll(tx *types.Tx, locks []*lock) [][][]byte {
	out := make([][][]byte, len(locks))
	for i, l := range locks {
		out[i] = l.witness(sigHash(tx, i), l.subset)
	}
	return out
}

func mapped(d types.TxData) *types.Tx {
	var buf bytes.Buffer
	d.SerializedSize = 1
	if _, err := d.WriteTo(&buf); err == nil && buf.Len() > 0 {
		d.SerializedSize = uint64(buf.Len())
	}
	return types.NewTx(d)
}

func newSpend(rng *ev.Rand) (*spend, error) {
	sp := &spend{}
	nin := rng.Range(1, 3)
	for i := 0; i < nin; i++ {
		if i > 0 && rng.Chance(2, 5) {
			sp.locks = append(sp.locks, sp.locks[rng.Intn(i)]) // same program again: only the sighash tells the inputs apart
			continue
		}
		l, err := newLock(rng)
		if err != nil {
			return nil, err
		}
		sp.locks = append(sp.locks, l)
	}
	sp.height = uint64(rng.Range(1, 2000000))
	d := types.TxData{Version: 1}
	switch rng.Intn(4) {
	case 0:
		d.TimeRange = sp.height
	case 1:
		d.TimeRange = sp.height + uint64(rng.Range(1, 100000))
	}
	other := bc.NewAssetID([32]byte(rng.Bytes(32)))
	var btmIn, otherIn uint64
	for i, l := range sp.locks {
		asset := *consensus.BTMAssetID
		amount := uint64(rng.Range(100000000, 2000000000))
		if i > 0 && rng.Bool() {
			asset = other
			amount = uint64(rng.Range(1, 1000000))
			otherIn += amount
		} else {
			btmIn += amount
		}
		if asset == *consensus.BTMAssetID && rng.Chance(1, 4) {
			// the lock guards a vote output: it is spent by a veto input (same program, same witness rules)
			d.Inputs = append(d.Inputs, types.NewVetoInput(nil, randHash(rng), asset, amount, uint64(rng.Intn(4)), l.prog, rng.Bytes(64), randState(rng)))
			sp.vetoes++
		} else {
			d.Inputs = append(d.Inputs, types.NewSpendInput(nil, randHash(rng), asset, amount, uint64(rng.Intn(4)), l.prog, randState(rng)))
		}
	}
	fee := uint64(rng.Range(60000000, 70000000)) // >= MaxGasAmount * VMGasRate: gas is never the reason of a rejection
	rest := btmIn - fee
	a := uint64(rng.Range(1, int(rest-1)))
	if a == rest-a {
		a--
	}
	d.Outputs = append(d.Outputs,
		types.NewOriginalTxOutput(*consensus.BTMAssetID, a, randProgram(rng), randState(rng)),
		types.NewOriginalTxOutput(*consensus.BTMAssetID, rest-a, randProgram(rng), randState(rng)))
	if a >= consensus.MinVoteOutputAmount && rng.Chance(1, 3) {
		// the spend pays into a vote output: which validator the vote goes to is a committed field
		d.Outputs[0] = types.NewVoteOutput(*consensus.BTMAssetID, a, randProgram(rng), rng.Bytes(64), randState(rng))
		sp.votes++
	}
	if otherIn > 0 {
		d.Outputs = append(d.Outputs, types.NewOriginalTxOutput(other, otherIn, randProgram(rng), nil))
	}
	if rng.Chance(1, 3) { // a locked output of our own kind among the results
		d.Outputs = append(d.Outputs, types.NewOriginalTxOutput(*consensus.BTMAssetID, 0, sp.locks[0].prog, nil))
		d.Outputs[len(d.Outputs)-1].Amount = 1
		d.Outputs[0].Amount--
		if d.Outputs[0].Amount == 0 { // keep every amount positive and the first two different
			d.Outputs[0].Amount, d.Outputs[1].Amount = 1, d.Outputs[1].Amount-1
		}
	}
	sp.tx = mapped(d)
	sp.args = signAll(sp.tx, sp.locks)
	for i := range sp.args {
		sp.tx.SetInputArguments(uint32(i), sp.args[i])
	}
	return sp, nil
}

// ---------------------------------------------------------------- implementation under observation

func noContracts(prog []byte) ([]byte, error) { return nil, errors.New("no contract registry") }

func realValidate(tx *types.Tx, height uint64) error {
	_, err := validation.ValidateTx(tx.Tx, &bc.Block{BlockHeader: &bc.BlockHeader{Version: 1, Height: height}}, noContracts)
	return err
}

func errClass(err error) string {
	root := berrors.Root(err)
	switch root {
	case vm.ErrFalseVMResult:
		return "false-vm-result"
	case vm.ErrVerifyFailed:
		return "verify-failed"
	case vm.ErrDataStackUnderflow:
		return "stack-underflow"
	case vm.ErrBadValue:
		return "bad-value"
	case vm.ErrRunLimitExceeded, validation.ErrOverGasCredit, validation.ErrGasCalculate:
		return "GAS"
	case vm.ErrDisallowedOpcode:
		return "disallowed-opcode"
	}
	s := root.Error()
	if len(s) > 40 {
		s = s[:40]
	}
	return strings.ReplaceAll(s, " ", "-")
}

// ---------------------------------------------------------------- the mutant engine

// sink is what the engine reports to (an *ev.Case, or a recorder in the self-test).
type sink interface {
	Count(name string, n int64)
	Distinct(format string, a ...interface{})
	Eval(n int64)
	Violation(key, what string, witness interface{})
	Inconclusive(format string, a ...interface{})
}

type engine struct {
	out      sink
	validate func(tx *types.Tx, height uint64) error
	ver      *verifier
	sp       *spend
	rng      *ev.Rand
}

func (e *engine) witnessOf(tx *types.Tx, t int, class string, err error, all verdict, per []verdict) map[string]interface{} {
	w := map[string]interface{}{"tx": txHex(tx), "block_height": e.sp.height, "input": t, "mutation": class,
		"program": hex.EncodeToString(tx.Inputs[t].ControlProgram()), "arguments": hexArgs(tx.Inputs[t].Arguments()),
		"sighash": hex.EncodeToString(sigHash(tx, t)), "model_valid": all.valid, "model_reason": all.why,
		"lock": fmt.Sprintf("%s %d-of-%d", e.sp.locks[t].kind, e.sp.locks[t].m, e.sp.locks[t].n)}
	if err != nil {
		w["validate_error"] = berrors.Root(err).Error()
	} else {
		w["validate_error"] = nil
	}
	var why []string
	for _, d := range per {
		if d.valid {
			why = append(why, "valid")
		} else {
			why = append(why, d.why)
		}
	}
	w["model_per_input"] = why
	return w
}

// judge runs the implementation and the model on tx as it is and compares.
// t is the input the mutation aimed at.
func (e *engine) judge(tx *types.Tx, t int, class string) (accepted bool) {
	err := e.validate(tx, e.sp.height)
	all, per, bad := e.ver.tx(tx)
	accepted = err == nil
	l := e.sp.locks[t]
	v := "rejected"
	if accepted {
		v = "accepted"
	}
	e.out.Eval(1)
	e.out.Distinct("%s %d-of-%d %s %s", l.kind, l.m, l.n, class, v)
	e.out.Count("validations", 1)
	e.out.Count(v, 1)
	e.out.Count("class:"+class, 1)
	e.out.Count(l.kind+":"+v, 1)
	if !accepted {
		ec := errClass(err)
		e.out.Count("reject:"+ec, 1)
		if ec == "GAS" {
			e.out.Inconclusive("a witness mutant was rejected for gas, not for its witness: %v", berrors.Root(err))
		}
	}
	if !all.decided {
		e.out.Inconclusive("model cannot decide mutation %s (%s)", class, all.why)
		return accepted
	}
	switch {
	case accepted && !all.valid:
		e.out.Violation("accepted-invalid:"+e.sp.locks[bad].kind+":"+all.why,
			"ValidateTx accepted a spend whose witness is not valid for this transaction's signature hash ("+all.why+")",
			e.witnessOf(tx, t, class, err, all, per))
	case !accepted && all.valid && all.canonical:
		e.out.Violation("rejected-valid:"+l.kind+":"+class,
			"ValidateTx rejected a spend carrying exactly the valid signatures of the committed keys in key order",
			e.witnessOf(tx, t, class, err, all, per))
	case !accepted && all.valid:
		e.out.Count("noncanonical_valid_rejected", 1)
	}
	if all.valid {
		e.out.Count("model_valid", 1)
	} else {
		e.out.Count("model_invalid", 1)
		e.out.Count("model_reason:"+all.why, 1)
	}
	return accepted
}

// try validates the transaction with input t carrying args and every other input its correct witness.
func (e *engine) try(t int, args [][]byte, class string) {
	tx := e.sp.tx
	tx.SetInputArguments(uint32(t), args)
	e.judge(tx, t, class)
	tx.SetInputArguments(uint32(t), e.sp.args[t])
}

func flipped(b []byte, i int, rng *ev.Rand) []byte {
	c := append([]byte{}, b...)
	c[i] ^= 1 << uint(rng.Intn(8))
	return c
}

func replaced(args [][]byte, i int, v []byte) [][]byte {
	c := append([][]byte{}, args...)
	c[i] = v
	return c
}

func (e *engine) run() {
	sp := e.sp
	// positive control: the correct witnesses
	if !e.judge(sp.tx, 0, "control") {
		return // reported by judge; mutants of a rejected control say nothing
	}
	for t := 1; t < len(sp.locks); t++ {
		l := sp.locks[t]
		e.out.Distinct("%s %d-of-%d control accepted", l.kind, l.m, l.n)
	}
	e.out.Count("control_accepted", 1)
	for _, l := range sp.locks {
		e.out.Count("control_input:"+l.kind, 1)
		for _, k := range l.subset {
			e.out.Count("signer:"+l.keys[k].kind, 1)
		}
	}
	for t := range sp.locks {
		e.mutateInput(t)
	}
	// witness moved to another input
	for t := 0; t < len(sp.locks); t++ {
		for u := t + 1; u < len(sp.locks); u++ {
			class := "moved-other-program"
			if sp.locks[t] == sp.locks[u] {
				class = "moved-same-program"
			}
			sp.tx.SetInputArguments(uint32(t), sp.args[u])
			sp.tx.SetInputArguments(uint32(u), sp.args[t])
			e.judge(sp.tx, t, class)
			sp.tx.SetInputArguments(uint32(u), sp.args[u])
			// only input t carries the other's witness
			e.judge(sp.tx, t, class)
			sp.tx.SetInputArguments(uint32(t), sp.args[t])
		}
	}
}

func (e *engine) mutateInput(t int) {
	sp, rng := e.sp, e.rng
	l := sp.locks[t]
	good := sp.args[t]
	msg := sigHash(sp.tx, t)
	nsig := len(l.subset)

	// every byte of every signature
	for s := 0; s < nsig; s++ {
		for b := range good[s] {
			e.try(t, replaced(good, s, flipped(good[s], b, rng)), "sig-byteflip")
		}
		// malformed lengths
		e.try(t, replaced(good, s, good[s][:63]), "sig-length")
		e.try(t, replaced(good, s, append(append([]byte{}, good[s]...), 0)), "sig-length")
		e.try(t, replaced(good, s, []byte{}), "sig-length")
		e.try(t, replaced(good, s, make([]byte, 64)), "sig-zero")
	}

	// every byte of every public key / of the redeem script
	switch l.kind {
	case kindPKH:
		for b := range good[1] {
			e.try(t, replaced(good, 1, flipped(good[1], b, rng)), "pubkey-byteflip")
		}
	case kindWSH:
		for b := range l.script {
			e.try(t, replaced(good, nsig, flipped(l.script, b, rng)), "script-byteflip")
		}
	case kindBare:
		// the keys live in the control program: the spent output changes, so
		// every input is signed again by the original keys for the new
		// transaction; the only thing wrong is the committed key.
		signed := map[int]bool{}
		for _, k := range l.subset {
			signed[k] = true
		}
		for k := 0; k < l.n; k++ {
			class := "progkey-byteflip-unused-key"
			if signed[k] {
				class = "progkey-byteflip-signing-key"
			}
			for b := 0; b < 32; b++ {
				e.reprogrammed(t, flipped(l.prog, 1+33*k+1+b, rng), class)
			}
		}
	}

	// every byte of the committed hash, signatures renewed for the new transaction
	if l.kind == kindPKH || l.kind == kindWSH {
		for b := 2; b < len(l.prog); b++ {
			e.reprogrammed(t, flipped(l.prog, b, rng), "hash-byteflip-resigned")
		}
	}

	// signatures by a key that is not committed
	x := newSigner(rng)
	for s := 0; s < nsig; s++ {
		e.try(t, replaced(good, s, x.sign(msg)), "wrong-key-signature")
	}
	switch l.kind {
	case kindPKH: // the outsider's own key and a valid signature by it
		e.try(t, [][]byte{x.sign(msg), x.pub}, "outsider-key-and-signature")
	case kindWSH: // the outsider's own script and valid signatures for it
		if own, err := multisigScript([]*signer{x}, 1); err == nil {
			e.try(t, [][]byte{x.sign(msg), own}, "outsider-script-and-signature")
		}
		keys := append([]*signer{}, l.keys...)
		keys[l.subset[0]] = x
		if own, err := multisigScript(keys, l.m); err == nil {
			e.try(t, append(replaced(good, 0, x.sign(msg))[:nsig:nsig], own), "outsider-script-and-signature")
		}
	}

	// signatures over the sighash of a transaction that differs in one committed field
	e.otherSighash(t)

	// structure of the witness
	switch l.kind {
	case kindPKH:
		e.try(t, [][]byte{good[1]}, "too-few-items")
		e.try(t, [][]byte{good[0]}, "too-few-items")
		e.try(t, [][]byte{}, "too-few-items")
		e.try(t, [][]byte{good[1], good[0]}, "items-swapped")
		e.try(t, append([][]byte{rng.Bytes(rng.Range(0, 40))}, good...), "extra-item-underneath")
	default:
		e.multisigSets(t, msg)
	}
}

// reprogrammed: input t spends an output with control program prog instead;
// all inputs are signed for the resulting transaction by their original keys.
func (e *engine) reprogrammed(t int, prog []byte, class string) {
	sp := e.sp
	d := cloneData(&sp.tx.TxData)
	spendOf(&d, t).ControlProgram = prog
	tx := mapped(d)
	args := signAll(tx, sp.locks)
	for i := range args {
		tx.SetInputArguments(uint32(i), args[i])
	}
	e.judge(tx, t, class)
}

func (e *engine) otherSighash(t int) {
	sp, rng := e.sp, e.rng
	l := sp.locks[t]
	base := &sp.tx.TxData
	nin, nout := len(base.Inputs), len(base.Outputs)
	type variant struct {
		field string
		index int // position of this input in the variant
		edit  func(d *types.TxData)
	}
	vs := []variant{
		{"output-amount", t, func(d *types.TxData) { d.Outputs[rng.Intn(nout)].Amount++ }},
		{"output-program", t, func(d *types.TxData) {
			o := d.Outputs[rng.Intn(nout)]
			o.ControlProgram = flipped(o.ControlProgram, rng.Range(1, len(o.ControlProgram)-1), rng)
		}},
		{"output-asset", t, func(d *types.TxData) {
			o := d.Outputs[rng.Intn(nout)]
			a := bc.NewAssetID([32]byte(flipped(o.AssetId.Bytes(), rng.Intn(32), rng)))
			o.AssetId = &a
		}},
		{"output-order", t, func(d *types.TxData) { d.Outputs[0], d.Outputs[1] = d.Outputs[1], d.Outputs[0] }},
		{"output-vote-key", t, func(d *types.TxData) {
			if vo := voteOutputs(d); len(vo) > 0 {
				v := d.Outputs[vo[rng.Intn(len(vo))]].TypedOutput.(*types.VoteOutput)
				v.Vote = flipped(v.Vote, rng.Intn(len(v.Vote)), rng)
			} else { // no vote output: turn an ordinary output into a vote for somebody
				o := d.Outputs[rng.Intn(nout)]
				d.Outputs[0] = types.NewVoteOutput(*o.AssetId, o.Amount, o.ControlProgram, rng.Bytes(64), nil)
			}
		}},
		{"output-added", t, func(d *types.TxData) {
			d.Outputs = append(d.Outputs, types.NewOriginalTxOutput(*consensus.BTMAssetID, 1, randProgram(rng), nil))
		}},
		{"output-dropped", t, func(d *types.TxData) { d.Outputs = d.Outputs[:nout-1] }},
		{"time-range", t, func(d *types.TxData) {
			if d.TimeRange == 0 || rng.Bool() {
				d.TimeRange += uint64(rng.Range(1, 1000))
			} else {
				d.TimeRange = 0
			}
		}},
		{"version", t, func(d *types.TxData) { d.Version += uint64(rng.Range(1, 3)) }},
		{"this-input-source", t, func(d *types.TxData) {
			s := spendOf(d, t)
			if rng.Bool() {
				s.SourcePosition++
			} else {
				s.SourceID = bc.NewHash([32]byte(flipped(s.SourceID.Bytes(), rng.Intn(32), rng)))
			}
		}},
		{"this-input-amount", t, func(d *types.TxData) { spendOf(d, t).Amount++ }},
	}
	// the state data of the spent outputs and of the results: each way a list of byte strings can differ
	for k := 0; k < 3; k++ {
		vs = append(vs,
			variant{"output-statedata", t, func(d *types.TxData) {
				o := d.Outputs[rng.Intn(nout)]
				var how string
				o.StateData, how = alteredState(o.StateData, rng)
				e.out.Count("statedata_"+how, 1)
			}},
			variant{"this-input-statedata", t, func(d *types.TxData) {
				s := spendOf(d, t)
				var how string
				s.StateData, how = alteredState(s.StateData, rng)
				e.out.Count("statedata_"+how, 1)
			}})
	}
	if nin > 1 {
		u := (t + 1 + rng.Intn(nin-1)) % nin
		vs = append(vs,
			variant{"other-input-source", t, func(d *types.TxData) {
				s := spendOf(d, u)
				s.SourceID = bc.NewHash([32]byte(flipped(s.SourceID.Bytes(), rng.Intn(32), rng)))
			}},
			variant{"other-input-amount", t, func(d *types.TxData) { spendOf(d, u).Amount++ }},
			variant{"other-input-statedata", t, func(d *types.TxData) {
				s := spendOf(d, u)
				var how string
				s.StateData, how = alteredState(s.StateData, rng)
				e.out.Count("statedata_"+how, 1)
			}},
			variant{"other-input-dropped", t - btoi(u < t), func(d *types.TxData) {
				d.Inputs = append(append([]*types.TxInput{}, d.Inputs[:u]...), d.Inputs[u+1:]...)
			}},
			variant{"input-order", u, func(d *types.TxData) { d.Inputs[t], d.Inputs[u] = d.Inputs[u], d.Inputs[t] }},
		)
	}
	msg := sigHash(sp.tx, t)
	for _, v := range vs {
		d := cloneData(base)
		v.edit(&d)
		other := mapped(d)
		omsg := sigHash(other, v.index)
		e.out.Count("sighash_variants", 1)
		if bytes.Equal(omsg, msg) {
			e.out.Violation("sighash-not-covering:"+v.field,
				"two transactions that differ in a committed field give the same signature hash for the input: a signature for one spends in the other",
				map[string]interface{}{"field": v.field, "tx": txHex(sp.tx), "other_tx": txHex(other), "input": t, "input_in_other": v.index,
					"sighash": hex.EncodeToString(msg)})
		}
		e.try(t, l.witness(omsg, l.subset), "signed-other-tx:"+v.field)
	}
}

func btoi(b bool) int {
	if b {
		return 1
	}
	return 0
}

// multisigSets: every sequence of m distinct committed keys (all m-subsets in
// all orders), too few, too many and duplicated signatures.
func (e *engine) multisigSets(t int, msg []byte) {
	sp, rng := e.sp, e.rng
	l := sp.locks[t]
	good := sp.args[t]
	all := make([][]byte, l.n)
	for k := range all {
		all[k] = l.keys[k].sign(msg)
	}
	seq := make([]int, 0, l.m)
	used := make([]bool, l.n)
	var rec func()
	rec = func() {
		if len(seq) == l.m {
			class, sigs := "subset-in-key-order", make([][]byte, l.m)
			for i, k := range seq {
				sigs[i] = all[k]
				if i > 0 && seq[i-1] > k {
					class = "subset-out-of-key-order"
				}
			}
			e.try(t, l.close(sigs), class)
			return
		}
		for k := 0; k < l.n; k++ {
			if !used[k] {
				used[k] = true
				seq = append(seq, k)
				rec()
				seq = seq[:len(seq)-1]
				used[k] = false
			}
		}
	}
	rec()

	sigs := good[:l.m]
	// too few: every way of leaving one out, and none at all
	for s := 0; s < l.m; s++ {
		fewer := append(append([][]byte{}, sigs[:s]...), sigs[s+1:]...)
		e.try(t, l.close(fewer), "too-few-signatures")
	}
	if l.m > 1 {
		e.try(t, l.close(nil), "too-few-signatures")
	}
	// duplicated: signature i also in place of signature j
	for i := 0; i < l.m; i++ {
		for j := 0; j < l.m; j++ {
			if i != j {
				e.try(t, l.close(replaced(sigs, j, sigs[i])), "duplicated-signature")
			}
		}
	}
	if l.m < l.n {
		// one valid signature repeated m times (enough distinct keys are left to be "matched" by a sloppy check)
		one := make([][]byte, l.m+1)
		for i := range one {
			one[i] = sigs[0]
		}
		e.try(t, l.close(one[:l.m]), "duplicated-signature")
		// more signatures than the threshold: the last m decide
		e.try(t, l.close(all), "more-signatures-than-m")
		rev := make([][]byte, l.n)
		for k := range all {
			rev[l.n-1-k] = all[k]
		}
		e.try(t, l.close(rev), "more-signatures-than-m")
	}
	junk := rng.Bytes(rng.Range(0, 70))
	e.try(t, l.close(append([][]byte{junk}, sigs...)), "extra-item-underneath")
	e.try(t, l.close(append(append([][]byte{}, sigs...), junk)), "extra-item-on-top")
	if l.kind == kindWSH {
		e.try(t, sigs, "script-missing")
		e.try(t, append([][]byte{l.script}, sigs...), "script-underneath")
	}
}

// ---------------------------------------------------------------- the monitor

// quick-tier floors: about 45 % of what a quick run observes (300 spends); the
// thorough tier multiplies them.  Every class the monitor claims to cover has one.
var quickFloors = map[string]int64{
	"control_accepted": 280, "accepted": 4000, "rejected": 75000, "sighash_variants": 3500,
	"p2wpkh:accepted": 150, "p2wsh-multisig:accepted": 500, "bare-multisig:accepted": 3000,
	"p2wpkh:rejected": 14000, "p2wsh-multisig:rejected": 35000, "bare-multisig:rejected": 24000,
	"control_input:p2wpkh": 100, "control_input:p2wsh-multisig": 85, "control_input:bare-multisig": 75,
	"signer:chainkd-root": 110, "signer:chainkd-derived": 110, "signer:chainkd-hardened": 110, "signer:ed25519": 110,

	"class:sig-byteflip": 30000, "class:sig-length": 1400, "class:sig-zero": 450,
	"class:pubkey-byteflip": 3200, "class:script-byteflip": 10000,
	"class:progkey-byteflip-signing-key": 5000, "class:progkey-byteflip-unused-key": 2500, "class:hash-byteflip-resigned": 4800,
	"class:wrong-key-signature": 450, "class:outsider-key-and-signature": 100, "class:outsider-script-and-signature": 170,
	"class:signed-other-tx:output-amount": 250, "class:signed-other-tx:output-program": 250, "class:signed-other-tx:output-asset": 250,
	"class:signed-other-tx:output-order": 250, "class:signed-other-tx:output-added": 250, "class:signed-other-tx:output-dropped": 250,
	"class:signed-other-tx:time-range": 250, "class:signed-other-tx:version": 250,
	"class:signed-other-tx:this-input-source": 250, "class:signed-other-tx:this-input-amount": 250,
	"class:signed-other-tx:other-input-source": 200, "class:signed-other-tx:other-input-amount": 200,
	"class:signed-other-tx:other-input-dropped": 200, "class:signed-other-tx:input-order": 200,
	"class:moved-same-program": 100, "class:moved-other-program": 220,
	"class:subset-in-key-order": 700, "class:subset-out-of-key-order": 10000,
	"class:too-few-signatures": 450, "class:too-few-items": 300, "class:items-swapped": 100,
	"class:duplicated-signature": 850, "class:more-signatures-than-m": 180,
	"class:extra-item-underneath": 250, "class:extra-item-on-top": 160, "class:script-missing": 85, "class:script-underneath": 85,

	"model_reason:bad-signature": 40000, "model_reason:out-of-key-order": 10000, "model_reason:repeated-signature": 800,
	"model_reason:pubkey-hash-mismatch": 5500, "model_reason:script-hash-mismatch": 13000,
	"model_reason:too-few-signatures": 450, "model_reason:missing-items": 300,
	"reject:false-vm-result": 50000, "reject:verify-failed": 19000, "reject:stack-underflow": 400,
}

const (
	quickCases    = 300
	thoroughCases = 8000
)

func TestC02(t *testing.T) {
	r := ev.Start(t, "C02")
	defer r.Finish()
	r.Rule("one case = one spending transaction (1-3 inputs locked by P2WPKH / P2WSH over m-of-n multisig / bare m-of-n multisig, 1<=m<=n<=6, keys from chainkd root/derived/hardened and plain ed25519, 2-4 outputs, random height / time range / second asset) validated by validation.ValidateTx with the correct witness and with every mutant: each byte of each signature, public key, redeem script, committed hash and committed key flipped in a random bit; malformed signature lengths; signatures by an outsider (alone, and with the outsider's own key / script); signatures made for a transaction differing in one committed field (14 fields); witnesses exchanged between inputs; every sequence of m distinct committed keys; too few, duplicated and surplus signatures. distinct = (program kind, m-of-n, mutation class, accepted/rejected)")
	r.Assume("crypto/ed25519.Verify, sha3-256 and ripemd160 of golang.org/x/crypto are correct; the sighash is sha3-256(inputID ‖ txID) with the IDs computed by types.MapTx (their coverage of the transaction's fields is checked here only as 'a changed committed field changes the sighash'; C03 decides the IDs themselves); a witness with surplus items underneath the required ones is only required not to be accepted when invalid")

	// the standard programs built by vmutil must have the byte shapes the model recognises
	probe := ev.NewRand(r.Seed, "C02", "shape-probe", 0)
	for i := 0; i < 30; i++ {
		l, err := newLock(probe)
		if err != nil {
			r.Inconclusive("vmutil cannot build a standard program: %v", err)
			return
		}
		ok := false
		switch l.kind {
		case kindPKH:
			ok = isP2WPKH(l.prog)
		case kindWSH:
			_, m, ok2 := parseMultisig(l.script)
			ok = isP2WSH(l.prog) && ok2 && m == l.m
		case kindBare:
			keys, m, ok2 := parseMultisig(l.prog)
			ok = ok2 && m == l.m && len(keys) == l.n
		}
		if !ok {
			r.Inconclusive("the %s %d-of-%d program built by vmutil (%x) does not have the documented shape", l.kind, l.m, l.n, l.prog)
			return
		}
	}

	r.Cases("spend", r.N(quickCases, thoroughCases), func(c *ev.Case) {
		sp, err := newSpend(c.Rand)
		if err != nil {
			c.Inconclusive("cannot build a spend: %v", err)
			return
		}
		e := &engine{out: c, validate: realValidate, ver: newVerifier(), sp: sp, rng: c.Rand}
		c.Count("veto_inputs", int64(sp.vetoes))
		c.Count("vote_outputs", int64(sp.votes))
		if c.WantSample() {
			var locks []string
			for _, l := range sp.locks {
				locks = append(locks, fmt.Sprintf("%s %d-of-%d", l.kind, l.m, l.n))
			}
			c.Sample(map[string]interface{}{"inputs": locks, "outputs": len(sp.tx.Outputs), "tx": txHex(sp.tx)})
		}
		e.run()
		c.Count("ed25519_verifications_by_model", e.ver.calls)
	})

	for name, min := range quickFloors {
		if r.Thorough() {
			min *= thoroughCases / quickCases * 3 / 4
		}
		r.Floor(name, min)
	}
	r.Floor("veto_inputs", 50)
	r.Floor("vote_outputs", 50)
}
