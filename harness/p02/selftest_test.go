// Sensitivity self-test of the C02 monitor (not run by ./check, which selects
// ^TestC02$): the mutant engine and the oracle are run against stand-ins for
// ValidateTx that carry one realistic defect each; every defect must be
// reported, and the defect-free stand-in must be silent.
package p02

import (
	"bytes"
	"errors"
	"fmt"
	"sort"
	"strings"
	"testing"

	"github.com/bytom/bytom/protocol/bc/types"

	"verif/internal/ev"
)

type recorder struct {
	viol     map[string]int
	classes  map[string]map[string]bool // violation key -> mutation classes that raised it
	counters map[string]int64
	incon    []string
}

func newRecorder() *recorder {
	return &recorder{viol: map[string]int{}, counters: map[string]int64{}, classes: map[string]map[string]bool{}}
}

func (r *recorder) Count(name string, n int64)               { r.counters[name] += n }
func (r *recorder) Distinct(format string, a ...interface{}) {}
func (r *recorder) Eval(n int64)                             {}
func (r *recorder) Violation(key, what string, w interface{}) {
	r.viol[key]++
	if r.classes[key] == nil {
		r.classes[key] = map[string]bool{}
	}
	if m, ok := w.(map[string]interface{}); ok {
		if cl, ok := m["mutation"].(string); ok {
			r.classes[key][cl] = true
		}
	}
}
func (r *recorder) Inconclusive(format string, a ...interface{}) {
	r.incon = append(r.incon, fmt.Sprintf(format, a...))
}

type bug int

const (
	bugNone           bug = iota
	bugAnyOrder           // CHECKMULTISIG looks for a matching key among all unused keys: order ignored
	bugKeyNotConsumed     // CHECKMULTISIG does not advance past a key that matched: one signature counts twice
	bugOneShort           // CHECKMULTISIG is satisfied when one signature is left unmatched
	bugNoKeyHashCheck     // the converted P2WPKH program lost its EQUALVERIFY
	bugNoScriptHash       // the converted P2WSH program lost its EQUALVERIFY
	bugSighashPerTx       // the sighash does not include the input ID
	bugSigTruncated       // CHECKSIG / CHECKMULTISIG look at the first 64 bytes of a longer signature
	bugEmptySigPasses     // an empty signature is treated as "skip"
	bugPKHNoSigCheck      // the result of CHECKSIG is dropped
)

var bugNames = map[bug]string{bugNone: "none", bugAnyOrder: "multisig-any-order", bugKeyNotConsumed: "multisig-key-not-consumed",
	bugOneShort: "multisig-one-short", bugNoKeyHashCheck: "p2wpkh-no-hash-check", bugNoScriptHash: "p2wsh-no-hash-check",
	bugSighashPerTx: "sighash-without-input-id", bugSigTruncated: "signature-truncated-to-64", bugEmptySigPasses: "empty-signature-passes",
	bugPKHNoSigCheck: "checksig-result-dropped"}

func buggyValidate(b bug) func(tx *types.Tx, height uint64) error {
	ver := newVerifier()
	check := func(pub, msg, sig []byte) bool {
		if b == bugSigTruncated && len(sig) > 64 {
			sig = sig[:64]
		}
		if b == bugEmptySigPasses && len(sig) == 0 {
			return true
		}
		return ver.ok(pub, msg, sig)
	}
	multisig := func(keys [][]byte, m int, args [][]byte, msg []byte) bool {
		if len(args) < m {
			return false
		}
		sigs := args[len(args)-m:]
		switch b {
		case bugAnyOrder:
			used := make([]bool, len(keys))
			for _, s := range sigs {
				found := false
				for k := range keys {
					if !used[k] && check(keys[k], msg, s) {
						used[k], found = true, true
						break
					}
				}
				if !found {
					return false
				}
			}
			return true
		case bugKeyNotConsumed:
			k := 0
			for _, s := range sigs {
				for k < len(keys) && !check(keys[k], msg, s) {
					k++
				}
				if k == len(keys) {
					return false
				}
			}
			return true
		}
		// the VM's loop: both lists from the top of the stack
		si, ki := len(sigs)-1, len(keys)-1
		for si >= 0 && ki >= 0 {
			if check(keys[ki], msg, sigs[si]) {
				si--
			}
			ki--
		}
		if b == bugOneShort {
			return si <= 0
		}
		return si < 0
	}
	return func(tx *types.Tx, _ uint64) error {
		for i, in := range tx.Inputs {
			prog, args := in.ControlProgram(), in.Arguments()
			msg := sigHash(tx, i)
			if b == bugSighashPerTx {
				msg = sha3sum(tx.Tx.ID.Bytes())
			}
			ok := false
			switch {
			case isP2WPKH(prog):
				if len(args) >= 2 {
					pub, sig := args[len(args)-1], args[len(args)-2]
					ok = (b == bugNoKeyHashCheck || bytes.Equal(ripemd(pub), prog[2:])) && (b == bugPKHNoSigCheck || check(pub, msg, sig))
				}
			case isP2WSH(prog):
				if len(args) >= 1 {
					script := args[len(args)-1]
					if b == bugNoScriptHash || bytes.Equal(sha3sum(script), prog[2:]) {
						if keys, m, good := parseMultisig(script); good {
							ok = multisig(keys, m, args[:len(args)-1], msg)
						}
					}
				}
			default:
				if keys, m, good := parseMultisig(prog); good {
					ok = multisig(keys, m, args, msg)
				}
			}
			if !ok {
				return errors.New("stand-in: input rejected")
			}
		}
		return nil
	}
}

// bugSighashPerTx: the harness signs the property's sighash, so that stand-in
// rejects the control — which is the detection.

func TestOracleSensitivity(t *testing.T) {
	const cases = 16 // the quick tier runs 300 cases: a defect found within 16 is found by every quick run
	// violation key -> mutation classes that must have produced it
	want := map[bug]map[string][]string{
		bugAnyOrder: {"accepted-invalid:p2wsh-multisig:out-of-key-order": {"subset-out-of-key-order"},
			"accepted-invalid:bare-multisig:out-of-key-order": {"subset-out-of-key-order"}},
		bugKeyNotConsumed: {"accepted-invalid:p2wsh-multisig:repeated-signature": {"duplicated-signature"},
			"accepted-invalid:bare-multisig:repeated-signature": {"duplicated-signature"}},
		bugOneShort: {"accepted-invalid:bare-multisig:bad-signature": {"sig-byteflip", "wrong-key-signature", "signed-other-tx:output-amount", "progkey-byteflip-signing-key"},
			"accepted-invalid:p2wsh-multisig:bad-signature": {"sig-byteflip", "wrong-key-signature", "signed-other-tx:version", "moved-same-program"}},
		bugNoKeyHashCheck: {"accepted-invalid:p2wpkh:pubkey-hash-mismatch": {"outsider-key-and-signature", "hash-byteflip-resigned"}},
		bugNoScriptHash:   {"accepted-invalid:p2wsh-multisig:script-hash-mismatch": {"outsider-script-and-signature", "hash-byteflip-resigned"}},
		bugSighashPerTx:   {"rejected-valid:p2wpkh:control": {"control"}},
		bugSigTruncated:   {"accepted-invalid:p2wpkh:bad-signature": {"sig-length"}, "accepted-invalid:bare-multisig:bad-signature": {"sig-length"}},
		bugEmptySigPasses: {"accepted-invalid:p2wpkh:bad-signature": {"sig-length"}, "accepted-invalid:p2wsh-multisig:bad-signature": {"sig-length"}},
		bugPKHNoSigCheck: {"accepted-invalid:p2wpkh:bad-signature": {"sig-byteflip", "sig-zero", "wrong-key-signature", "signed-other-tx:time-range",
			"signed-other-tx:output-program", "signed-other-tx:output-order", "signed-other-tx:other-input-source", "moved-same-program"}},
	}
	for b := bugNone; b <= bugPKHNoSigCheck; b++ {
		rec := newRecorder()
		for i := 0; i < cases; i++ {
			rng := ev.NewRand(5, "C02", "selftest", i)
			sp, err := newSpend(rng)
			if err != nil {
				t.Fatal(err)
			}
			(&engine{out: rec, validate: buggyValidate(b), ver: newVerifier(), sp: sp, rng: rng}).run()
		}
		var keys []string
		for k := range rec.viol {
			keys = append(keys, k)
		}
		sort.Strings(keys)
		if len(rec.incon) > 0 {
			t.Errorf("%s: inconclusive: %v", bugNames[b], rec.incon)
		}
		if b == bugNone {
			if len(keys) > 0 {
				t.Errorf("defect-free stand-in raised alarms: %v", keys)
			}
			if rec.counters["control_accepted"] != cases || rec.counters["rejected"] < 1000 {
				t.Errorf("defect-free stand-in: %d controls accepted, %d mutants rejected", rec.counters["control_accepted"], rec.counters["rejected"])
			}
			continue
		}
		for key, classes := range want[b] {
			for _, cl := range classes {
				if !rec.classes[key][cl] {
					t.Errorf("%s: expected violation %q from mutation class %q within %d cases; got %v", bugNames[b], key, cl, cases, rec.classes[key])
				}
			}
		}
		if len(keys) > 6 {
			t.Errorf("%s: one defect produced %d violation keys (should be few): %v", bugNames[b], len(keys), keys)
		}
		t.Logf("%-28s -> %s", bugNames[b], strings.Join(keys, " "))
	}
}
