// C07 generators: random byte-string programs and grammar programs.
package p07

import (
	"encoding/binary"

	"github.com/bytom/bytom/protocol/vm"

	"verif/internal/ev"
)

type prog struct{ b []byte }

func (p *prog) op(o vm.Op)    { p.b = append(p.b, byte(o)) }
func (p *prog) push(d []byte) { p.b = append(p.b, vm.PushDataBytes(d)...) }
func (p *prog) num(n uint64)  { p.b = append(p.b, vm.PushDataUint64(n)...) }
func (p *prog) here() uint32  { return uint32(len(p.b)) }
func (p *prog) jump(o vm.Op, a uint32) {
	var x [4]byte
	binary.LittleEndian.PutUint32(x[:], a)
	p.b = append(p.b, byte(o))
	p.b = append(p.b, x[:]...)
}

// jumpFwd emits a jump whose target is patched later.
func (p *prog) jumpFwd(o vm.Op) int {
	p.jump(o, 0)
	return len(p.b) - 4
}
func (p *prog) patch(pos int) { binary.LittleEndian.PutUint32(p.b[pos:], uint32(len(p.b))) }

type gen struct {
	r     *ev.Rand
	kinds map[string]bool // fragment kinds used (for evidence)
}

func (g *gen) use(k string) { g.kinds[k] = true }

func (g *gen) smallData() []byte {
	r := g.r
	switch r.Intn(6) {
	case 0:
		return nil
	case 1:
		return []byte{byte(r.Intn(256))}
	case 2:
		return r.Bytes(32)
	case 3:
		return make([]byte, r.Intn(40)) // zeros: false of any length
	default:
		return r.Bytes(r.Intn(41))
	}
}

func (g *gen) bigData() []byte {
	r := g.r
	switch r.Intn(4) {
	case 0:
		return r.Bytes(r.Range(76, 255))
	case 1:
		return r.Bytes(r.Range(256, 1200))
	case 2:
		return make([]byte, r.Range(100, 3000))
	default:
		return r.Bytes(r.Range(1000, 5000))
	}
}

func (g *gen) number() uint64 {
	r := g.r
	switch r.Intn(5) {
	case 0:
		return uint64(r.Intn(17))
	case 1:
		return uint64(r.Intn(1000))
	case 2:
		return r.U64Boundary()
	default:
		return uint64(r.Intn(300))
	}
}

var shuffleOps = []vm.Op{vm.OP_DUP, vm.OP_OVER, vm.OP_2DUP, vm.OP_3DUP, vm.OP_2OVER, vm.OP_TUCK, vm.OP_SWAP, vm.OP_ROT, vm.OP_2ROT,
	vm.OP_2SWAP, vm.OP_DEPTH, vm.OP_IFDUP, vm.OP_NIP, vm.OP_SIZE, vm.OP_NOP}
var unaryNum = []vm.Op{vm.OP_1ADD, vm.OP_1SUB, vm.OP_2MUL, vm.OP_2DIV, vm.OP_NOT, vm.OP_0NOTEQUAL}
var binaryNum = []vm.Op{vm.OP_ADD, vm.OP_SUB, vm.OP_MUL, vm.OP_DIV, vm.OP_MOD, vm.OP_LSHIFT, vm.OP_RSHIFT, vm.OP_BOOLAND, vm.OP_BOOLOR,
	vm.OP_NUMEQUAL, vm.OP_NUMNOTEQUAL, vm.OP_LESSTHAN, vm.OP_GREATERTHAN, vm.OP_LESSTHANOREQUAL, vm.OP_GREATERTHANOREQUAL, vm.OP_MIN, vm.OP_MAX}
var bitOps = []vm.Op{vm.OP_AND, vm.OP_OR, vm.OP_XOR, vm.OP_EQUAL}
var hashOps = []vm.Op{vm.OP_SHA256, vm.OP_SHA3, vm.OP_HASH160}
var introOps = []vm.Op{vm.OP_PROGRAM, vm.OP_ASSET, vm.OP_AMOUNT, vm.OP_INDEX, vm.OP_ENTRYID, vm.OP_OUTPUTID, vm.OP_BLOCKHEIGHT, vm.OP_TXSIGHASH}
var dropOps = []vm.Op{vm.OP_DROP, vm.OP_DROP, vm.OP_2DROP, vm.OP_NIP}

func pickOp(r *ev.Rand, l []vm.Op) vm.Op { return l[r.Intn(len(l))] }

// simple emits one straight-line fragment (no jumps, no CHECKPREDICATE).
func (g *gen) simple(p *prog) {
	r := g.r
	switch r.Intn(15) {
	case 0: // small pushes
		g.use("push-small")
		for i := r.Range(1, 3); i > 0; i-- {
			if r.Bool() {
				p.num(g.number())
			} else {
				p.push(g.smallData())
			}
		}
	case 1: // big push then drop: refund-heavy
		g.use("bigpush-drop")
		k := r.Range(1, 3)
		for i := 0; i < k; i++ {
			p.push(g.bigData())
		}
		for i := 0; i < k; i++ {
			if r.Chance(5, 6) {
				p.op(pickOp(r, dropOps))
			}
		}
	case 2: // pushes then drops
		g.use("push-drop")
		k := r.Range(1, 6)
		for i := 0; i < k; i++ {
			p.push(g.smallData())
		}
		for i := r.Range(0, k); i > 0; i-- {
			p.op(pickOp(r, dropOps))
		}
	case 3: // alt stack round trips
		g.use("altstack")
		k := r.Range(1, 5)
		for i := 0; i < k; i++ {
			if r.Chance(1, 4) {
				p.push(g.bigData())
			} else {
				p.push(g.smallData())
			}
		}
		for i := 0; i < k; i++ {
			p.op(vm.OP_TOALTSTACK)
		}
		for i := r.Range(0, k+1); i > 0; i-- {
			p.op(vm.OP_FROMALTSTACK)
		}
		for i := r.Range(0, k); i > 0; i-- {
			p.op(vm.OP_DROP)
		}
	case 4: // stack shuffles
		g.use("shuffle")
		for i := r.Range(0, 3); i > 0; i-- {
			p.push(g.smallData())
		}
		for i := r.Range(1, 5); i > 0; i-- {
			p.op(pickOp(r, shuffleOps))
		}
		if r.Bool() {
			p.num(uint64(r.Intn(4)))
			p.op(pickOp(r, []vm.Op{vm.OP_PICK, vm.OP_ROLL}))
		}
	case 5: // arithmetic
		g.use("arith")
		p.num(g.number())
		if r.Bool() {
			p.op(pickOp(r, unaryNum))
		} else {
			p.num(g.number())
			p.op(pickOp(r, binaryNum))
		}
		if r.Chance(1, 6) {
			p.num(g.number())
			p.num(g.number())
			p.op(vm.OP_WITHIN)
		}
		if r.Bool() {
			p.op(vm.OP_DROP)
		}
	case 6: // CAT growth, unrolled
		g.use("cat-unrolled")
		p.push(r.Bytes(r.Range(1, 64)))
		for i := r.Range(1, 8); i > 0; i-- {
			p.op(vm.OP_DUP)
			p.op(pickOp(r, []vm.Op{vm.OP_CAT, vm.OP_CAT, vm.OP_CATPUSHDATA}))
		}
		if r.Bool() {
			p.op(vm.OP_DROP)
		}
	case 7: // hashes of big strings
		g.use("hash")
		if r.Bool() {
			p.push(g.bigData())
		} else {
			p.push(g.smallData())
		}
		p.op(pickOp(r, hashOps))
		if r.Bool() {
			p.op(vm.OP_DROP)
		}
	case 8: // CHECKMULTISIG / CHECKSIG
		g.use("sig")
		switch r.Intn(4) {
		case 0: // zero keys, zero signatures
			p.push(r.Bytes(32))
			p.num(0)
			p.num(0)
			p.op(vm.OP_CHECKMULTISIG)
		case 1:
			nk := r.Range(1, 3)
			ns := r.Range(0, nk)
			for i := 0; i < ns; i++ {
				p.push(r.Bytes(64))
			}
			p.push(r.Bytes(32))
			for i := 0; i < nk; i++ {
				p.push(r.Bytes(32))
			}
			p.num(uint64(ns))
			p.num(uint64(nk))
			p.op(vm.OP_CHECKMULTISIG)
		case 2:
			p.push(r.Bytes(64))
			p.push(r.Bytes(32))
			p.push(r.Bytes(32))
			p.op(vm.OP_CHECKSIG)
		default: // malformed operand mix
			for i := r.Range(0, 4); i > 0; i-- {
				p.push(g.smallData())
			}
			p.num(uint64(r.Intn(3)))
			p.num(uint64(r.Intn(3)))
			p.op(vm.OP_CHECKMULTISIG)
		}
		if r.Bool() {
			p.op(vm.OP_DROP)
		}
	case 9: // introspection
		g.use("introspection")
		p.op(pickOp(r, introOps))
		if r.Bool() {
			p.op(vm.OP_DROP)
		}
	case 10: // splice
		g.use("splice")
		d := g.smallData()
		if r.Chance(1, 3) {
			d = g.bigData()
		}
		p.push(d)
		switch r.Intn(4) {
		case 0:
			p.num(uint64(r.Intn(len(d) + 2)))
			p.num(uint64(r.Intn(len(d) + 2)))
			p.op(vm.OP_SUBSTR)
		case 1:
			p.num(uint64(r.Intn(len(d) + 2)))
			p.op(vm.OP_LEFT)
		case 2:
			p.num(uint64(r.Intn(len(d) + 2)))
			p.op(vm.OP_RIGHT)
		default:
			p.op(vm.OP_SIZE)
			p.op(vm.OP_DROP)
		}
		if r.Bool() {
			p.op(vm.OP_DROP)
		}
	case 11: // bitwise on strings
		g.use("bitwise")
		if r.Chance(1, 3) {
			p.push(g.bigData())
			p.push(g.bigData())
		} else {
			p.push(g.smallData())
			p.push(g.smallData())
		}
		if r.Chance(1, 4) {
			p.op(vm.OP_INVERT)
		}
		p.op(pickOp(r, bitOps))
		if r.Bool() {
			p.op(vm.OP_DROP)
		}
	case 12: // verification ops
		g.use("verify")
		switch r.Intn(4) {
		case 0:
			p.num(uint64(r.Intn(2)))
			p.op(vm.OP_VERIFY)
		case 1:
			x := g.smallData()
			p.push(x)
			if r.Bool() {
				p.push(x)
			} else {
				p.push(g.smallData())
			}
			p.op(vm.OP_EQUALVERIFY)
		case 2:
			n := g.number()
			p.num(n)
			p.num(n + uint64(r.Intn(2)))
			p.op(vm.OP_NUMEQUALVERIFY)
		default:
			if r.Chance(1, 3) {
				p.op(vm.OP_FAIL)
			} else {
				p.op(vm.OP_VERIFY)
			}
		}
	case 13: // expansion opcodes and NOP
		g.use("nop-expansion")
		if r.Bool() {
			p.op(vm.OP_NOP)
		} else {
			p.op(pickOp(r, []vm.Op{0x50, 0x62, 0x65, 0x8a, 0xa6, 0xb0, 0xc5, 0xd0, 0xff}))
		}
	default: // CHECKOUTPUT
		g.use("checkoutput")
		p.num(uint64(r.Intn(3)))
		p.num(g.number())
		p.push(r.Bytes(32))
		p.num(1)
		p.push(g.smallData())
		p.op(vm.OP_CHECKOUTPUT)
		if r.Bool() {
			p.op(vm.OP_DROP)
		}
	}
}

// cpLimit picks the limit operand of CHECKPREDICATE.
func (g *gen) cpLimit(p *prog) string {
	r := g.r
	switch r.Intn(8) {
	case 0, 1:
		p.num(0)
		return "0"
	case 2, 3:
		p.num(uint64(r.Range(1, 40)))
		return "small"
	case 4:
		p.num(uint64(r.Range(41, 3000)))
		return "mid"
	case 5:
		p.num([]uint64{400000, 1 << 40, 1<<63 - 1}[r.Intn(3)])
		return "huge"
	case 6:
		p.push([]byte{0, 0, 0, 0, 0, 0, 0, 0x80}) // 2^63: not an int64
		return "bad"
	default:
		p.num(uint64(r.Range(200, 700)))
		return "mid"
	}
}

// checkPredicate emits  <k args> <n> <child program> <limit> CHECKPREDICATE [VERIFY|DROP].
func (g *gen) checkPredicate(p *prog, depth int) {
	r := g.r
	g.use("checkpredicate")
	k := r.Intn(4)
	for i := 0; i < k; i++ {
		if r.Chance(1, 5) {
			p.push(g.bigData())
		} else if r.Bool() {
			p.num(g.number())
		} else {
			p.push(g.smallData())
		}
	}
	switch r.Intn(5) {
	case 0:
		p.num(0) // all items
	case 1:
		p.num(uint64(k + r.Range(1, 5))) // more than pushed here
	default:
		p.num(uint64(k))
	}
	child := &prog{}
	if r.Chance(1, 5) {
		child.op(pickOp(r, introOps))
		if r.Bool() {
			child.op(vm.OP_DROP)
		}
	}
	for i := r.Range(0, 3); i > 0; i-- {
		g.fragment(child, depth-1)
	}
	if r.Chance(2, 3) {
		child.num(1)
	}
	p.push(child.b)
	g.use("cp-limit-" + g.cpLimit(p))
	p.op(vm.OP_CHECKPREDICATE)
	switch r.Intn(4) {
	case 0:
		p.op(vm.OP_VERIFY)
	case 1, 2:
		p.op(vm.OP_DROP)
	}
}

// loopBody: a fragment inside a loop, biased to CHECKPREDICATE.
func (g *gen) loopBody(p *prog, depth int) {
	if g.r.Chance(1, 3) {
		g.use("loop-around-checkpredicate")
		g.checkPredicate(p, depth)
		return
	}
	g.fragment(p, depth)
}

// fragment emits one fragment; loops and CHECKPREDICATE nest up to `depth`.
func (g *gen) fragment(p *prog, depth int) {
	r := g.r
	if depth <= 0 {
		g.simple(p)
		return
	}
	switch r.Intn(10) {
	case 0: // counter loop:  n ; L: body ; 1SUB DUP JUMPIF L ; DROP
		g.use("loop-counter")
		n := uint64(r.Range(1, 40))
		if r.Chance(1, 6) {
			n = uint64(r.Range(100, 3000))
		}
		p.num(n)
		l := p.here()
		if r.Chance(2, 3) {
			// keep the counter on top: the body works below it via the alt stack
			p.op(vm.OP_TOALTSTACK)
			for i := r.Range(0, 2); i > 0; i-- {
				g.loopBody(p, depth-1)
			}
			p.op(vm.OP_FROMALTSTACK)
		}
		p.op(vm.OP_1SUB)
		p.op(vm.OP_DUP)
		p.jump(vm.OP_JUMPIF, l)
		p.op(vm.OP_DROP)
	case 1: // unbounded loop
		g.use("loop-unbounded")
		l := p.here()
		for i := r.Range(0, 2); i > 0; i-- {
			g.loopBody(p, depth-1)
		}
		if r.Bool() {
			p.jump(vm.OP_JUMP, l)
		} else {
			p.num(1)
			p.jump(vm.OP_JUMPIF, l)
		}
	case 2: // CAT growth loop
		g.use("loop-cat")
		p.push(r.Bytes(r.Range(1, 40)))
		l := p.here()
		p.op(vm.OP_DUP)
		p.op(pickOp(r, []vm.Op{vm.OP_CAT, vm.OP_CAT, vm.OP_CATPUSHDATA}))
		if r.Chance(1, 3) {
			p.op(vm.OP_DUP)
			p.op(vm.OP_TOALTSTACK)
		}
		p.jump(vm.OP_JUMP, l)
	case 3, 4, 5: // CHECKPREDICATE
		g.checkPredicate(p, depth)
	case 6: // forward conditional skip
		g.use("if-skip")
		p.num(uint64(r.Intn(2)))
		pos := p.jumpFwd(vm.OP_JUMPIF)
		g.fragment(p, depth-1)
		p.patch(pos)
	case 7: // jump somewhere odd: into data, past the end, to itself
		g.use("odd-jump")
		switch r.Intn(3) {
		case 0:
			p.jump(vm.OP_JUMP, p.here()+uint32(r.Intn(12)))
		case 1:
			p.jump(vm.OP_JUMP, uint32(r.Intn(1<<16)))
		default:
			p.num(uint64(r.Intn(2)))
			p.jump(vm.OP_JUMPIF, uint32(r.Intn(int(p.here())+6)))
		}
	default:
		g.simple(p)
	}
}

func (g *gen) grammar() []byte {
	r := g.r
	p := &prog{}
	depth := r.Range(1, 3)
	if r.Chance(1, 6) {
		depth = 5
	}
	if r.Chance(1, 5) { // padding that makes the program long (unreachable or a dropped push)
		g.use("long-program")
		p.push(g.bigData())
		p.op(vm.OP_DROP)
	}
	for i := r.Range(1, 5); i > 0; i-- {
		g.fragment(p, depth)
	}
	if r.Chance(2, 3) {
		p.num(1)
	}
	return p.b
}

// all defined opcodes except the push ranges (added with immediates below)
var definedOps = func() []vm.Op {
	var l []vm.Op
	for i := 0x61; i <= 0xcd; i++ {
		o := vm.Op(i)
		if _, err := vm.Assemble(o.String()); err == nil {
			l = append(l, o)
		}
	}
	return l
}()

// randomOps: random well-formed instruction sequences over all opcodes.
func (g *gen) randomOps() []byte {
	r := g.r
	p := &prog{}
	for i := r.Range(1, 30); i > 0; i-- {
		switch r.Intn(8) {
		case 0, 1:
			p.num(g.number())
		case 2:
			p.push(g.smallData())
		case 3:
			if r.Chance(1, 4) {
				p.push(g.bigData())
			} else {
				p.op(vm.Op(r.Intn(256)))
			}
		default:
			o := pickOp(r, definedOps)
			if o == vm.OP_JUMP || o == vm.OP_JUMPIF {
				p.jump(o, uint32(r.Intn(len(p.b)+20)))
			} else {
				p.op(o)
			}
		}
	}
	return p.b
}

func (g *gen) randomBytes() []byte {
	r := g.r
	n := r.Range(1, 80)
	if r.Chance(1, 10) {
		n = r.Range(80, 600)
	}
	b := r.Bytes(n)
	if r.Bool() { // bias bytes to the interesting opcode ranges
		for i := range b {
			switch r.Intn(6) {
			case 0:
				b[i] = byte(r.Intn(0x11)) // short pushes
			case 1:
				b[i] = byte(0x51 + r.Intn(16))
			case 2:
				b[i] = byte(0x61 + r.Intn(0x6d))
			}
		}
	}
	return b
}

func (g *gen) mutate(b []byte) []byte {
	r := g.r
	out := append([]byte{}, b...)
	for k := r.Range(1, 3); k > 0 && len(out) > 0; k-- {
		i := r.Intn(len(out))
		switch r.Intn(3) {
		case 0:
			out[i] = byte(r.Intn(256))
		case 1:
			out = append(out[:i], out[i+1:]...)
		default:
			out = append(out[:i], append([]byte{byte(r.Intn(256))}, out[i:]...)...)
		}
	}
	return out
}

func (g *gen) args() [][]byte {
	r := g.r
	var out [][]byte
	for i := r.Pick([]int{3, 3, 2, 2, 1, 1}); i > 0; i-- {
		switch r.Intn(6) {
		case 0:
			out = append(out, vm.Uint64Bytes(g.number()))
		case 1:
			out = append(out, g.bigData())
		default:
			out = append(out, g.smallData())
		}
	}
	return out
}
