// C07 — VM execution terminates within the gas limit.
//
// Drives the real vm.Verify on random byte-string programs and grammar
// programs (counter loops, unbounded loops, nested CHECKPREDICATE, refund-heavy
// sequences, CAT growth) with gas limits from {0,1,7,…,consensus.MaxGasAmount}
// and decides the property from the step events (oracle_test.go).
package p07

import (
	"encoding/hex"
	"fmt"
	"runtime/debug"
	"testing"
	"time"

	"github.com/bytom/bytom/consensus"
	"github.com/bytom/bytom/errors"
	"github.com/bytom/bytom/math/checked"
	"github.com/bytom/bytom/protocol/vm"

	"verif/internal/ev"
)

var limitSet = []int64{0, 1, 7, 8, 9, 10, 63, 64, 65, 100, 255, 256, 257, 500, 1000, 2000, 4096, 10000, 20000, 65535, 100000, consensus.MaxGasAmount}
var limitWeight = []int{3, 3, 3, 2, 2, 2, 2, 3, 2, 5, 2, 4, 2, 8, 12, 12, 10, 4, 2, 1, 1, 1}

// runBudget bounds the monitor's own cost per run: the step hook deep-copies
// both stacks before every instruction, so a run costs Σ(stack items) over its
// steps.  One unit = one event, one stack item or 256 stack bytes copied.  A run
// that uses up the budget is cut (counted; its observed prefix is checked, no
// verdict on the rest).  One case in 25 is a "long" case: big limits, big budget.
const (
	budgetNormal = 50000
	budgetLong   = 1200000
)

type input struct {
	budget   int64
	code     []byte
	args     [][]byte
	state    [][]byte
	txv      int // 0: no tx version, 1: version 1 (expansion opcodes reserved), 2: version 2
	checkOut int // CheckOutput answers 0: true, 1: false, 2: error
	entryID  []byte
	assetID  []byte
	outputID []byte
	sigHash  []byte
}

func exact(b []byte) []byte { return append(make([]byte, 0, len(b)), b...) }
func exactAll(l [][]byte) [][]byte {
	out := make([][]byte, len(l))
	for i, b := range l {
		out[i] = exact(b)
	}
	return out
}

// context builds a fresh context whose buffers have no spare capacity and are
// not shared with any other run (an append inside the VM cannot reach them).
func (in *input) context() *vm.Context {
	ctx := &vm.Context{VMVersion: 1, Code: exact(in.code), Arguments: exactAll(in.args), StateData: exactAll(in.state), EntryID: exact(in.entryID)}
	if in.txv > 0 {
		v := uint64(in.txv)
		ctx.TxVersion = &v
	}
	h, n, amt, pos := uint64(1234), uint64(2), uint64(100000), uint64(0)
	ctx.BlockHeight, ctx.NumResults, ctx.Amount, ctx.DestPos = &h, &n, &amt, &pos
	a, o := exact(in.assetID), exact(in.outputID)
	ctx.AssetID, ctx.SpentOutputID = &a, &o
	sh := exact(in.sigHash)
	ctx.TxSigHash = func() []byte { return exact(sh) }
	mode := in.checkOut
	ctx.CheckOutput = func(uint64, uint64, []byte, uint64, []byte, [][]byte, bool) (bool, error) {
		switch mode {
		case 0:
			return true, nil
		case 1:
			return false, nil
		}
		return false, vm.ErrBadValue
	}
	return ctx
}

func hexCap(b []byte, n int) string {
	if len(b) > n {
		return fmt.Sprintf("%x...(%d bytes)", b[:n], len(b))
	}
	return hex.EncodeToString(b)
}

func (in *input) describe(limit int64) map[string]interface{} {
	args := []string{}
	for _, a := range in.args {
		args = append(args, hexCap(a, 64))
	}
	st := []string{}
	for _, a := range in.state {
		st = append(st, hexCap(a, 64))
	}
	dis, err := vm.Disassemble(in.code)
	if err != nil {
		dis = "(not disassemblable: " + err.Error() + ")"
	}
	if len(dis) > 1500 {
		dis = dis[:1500] + "..."
	}
	return map[string]interface{}{"program_hex": hexCap(in.code, 1500), "program_len": len(in.code), "disasm": dis,
		"arguments": args, "state_data": st, "gas_limit": limit, "tx_version": in.txv}
}

func classify(err error) string {
	if err == nil {
		return "ok"
	}
	switch errors.Root(err) {
	case vm.ErrRunLimitExceeded:
		return "runlimit"
	case vm.ErrFalseVMResult:
		return "false-result"
	case vm.ErrVerifyFailed:
		return "verify-failed"
	case vm.ErrReturn:
		return "fail-op"
	case vm.ErrDataStackUnderflow:
		return "underflow"
	case vm.ErrAltStackUnderflow:
		return "alt-underflow"
	case vm.ErrBadValue:
		return "bad-value"
	case vm.ErrRange:
		return "range"
	case vm.ErrDivZero:
		return "divzero"
	case vm.ErrContext:
		return "context"
	case vm.ErrDisallowedOpcode:
		return "disallowed"
	case vm.ErrShortProgram:
		return "short-program"
	case vm.ErrUnexpected:
		return "unexpected"
	case checked.ErrOverflow:
		return "overflow"
	}
	return "other"
}

type result struct {
	limit, gasLeft int64
	class          string
	ck             *checker
	escaped        interface{}
}

// verify runs the real VM under the checker.  The hook and TraceOut are
// process-global: the tests of this package run sequentially.
func verify(in *input, limit, budget int64, trace bool, report reportFn) *result {
	ck := newChecker(limit, report)
	ck.traceOn = trace
	ck.budget = budget
	res := &result{limit: limit, ck: ck}
	ctx := in.context()
	vm.VerifStepHook = ck.onEvent
	if trace {
		vm.TraceOut = ck
	} else {
		vm.TraceOut = nil
	}
	var err error
	func() {
		defer func() {
			vm.VerifStepHook = nil
			vm.TraceOut = nil
			if p := recover(); p != nil { // Verify recovers everything; belt and braces
				res.escaped = p
			}
		}()
		res.gasLeft, err = vm.Verify(ctx, limit)
	}()
	res.class = classify(err)
	if res.escaped != nil {
		res.class = "escaped-panic"
	}
	if ck.aborted {
		res.class = "aborted"
	} else if ck.cut {
		res.class = "cut"
	}
	ck.finish()
	return res
}

// run = verify + the end-of-run oracle + evidence.
func run(c *ev.Case, in *input, limit int64, trace bool) *result {
	var desc map[string]interface{}
	report := func(key, what string, w map[string]interface{}) {
		if w == nil {
			w = map[string]interface{}{}
		}
		if desc == nil {
			desc = in.describe(limit)
		}
		w["input"] = desc
		c.Violation(key, what, w)
	}
	res := verify(in, limit, in.budget, trace, report)
	ck := res.ck

	c.Count("runs", 1)
	c.Count("result_"+res.class, 1)
	c.Count("steps_started", ck.events)
	c.Count("steps_completed", ck.completed)
	c.Count("steps_raw_runlimit_rose", ck.runRose)
	c.Count("cp_child_ran_to_end", ck.cpOK)
	c.Count("cp_child_failed", ck.cpFailed)
	c.Count("cp_child_no_events", ck.cpNoChild)
	c.Count("must_fail_instructions_recognised", ck.mustFails)
	if trace {
		c.Count("trace_steps_compared", ck.traceSteps)
	}
	if ck.maxDepth >= 2 {
		c.Count("runs_depth>=2", 1)
	}
	c.Max("max_depth", int64(ck.maxDepth))
	c.Max("max_steps_one_run", ck.events)
	switch limit {
	case 0:
		c.Count("runs_limit_0", 1)
	case consensus.MaxGasAmount:
		c.Count("runs_limit_max", 1)
	}
	for k, n := range ck.classes {
		cls := dphiClassName[(k>>8)&0xff]
		c.Distinct("%s dPhi=%s depth=%d", vm.Op(k>>16).String(), cls, k&0xff)
		c.Count("dphi_"+cls, n)
	}

	if res.escaped != nil {
		report("escaped-panic", "a panic escaped vm.Verify", map[string]interface{}{"panic": fmt.Sprint(res.escaped)})
		return res
	}
	if ck.aborted || ck.cut {
		return res
	}
	if res.gasLeft < 0 {
		report("gasLeft<0", "Verify returned negative remaining gas", map[string]interface{}{"gasLeft": res.gasLeft, "class": res.class})
	}
	if res.gasLeft > limit {
		report("gasLeft>limit[cause="+ck.causes(true)+"]", "Verify returned more remaining gas than the limit it was given",
			map[string]interface{}{"gasLeft": res.gasLeft, "limit": limit, "class": res.class})
	}
	if ck.completed > limit {
		report("completed-steps>limit[cause="+ck.causes(false)+"]", "more instructions completed than the gas limit",
			map[string]interface{}{"completed": ck.completed, "limit": limit})
	}
	switch res.class {
	case "ok", "false-result":
		if ck.end0 == nil {
			report("result-without-end:"+res.class, "Verify judged the result of a program whose top frame never ran to its end", nil)
			break
		}
		truthy := ck.end0.nData > 0 && asBool(ck.end0.top[0])
		if truthy != (res.class == "ok") {
			report("result-contradicts-final-stack:"+res.class, "success/false-result disagrees with the top item when the program ended",
				map[string]interface{}{"top_true": truthy})
		}
		if res.gasLeft != ck.end0.run {
			report("gasLeft!=final-runLimit", "the returned remaining gas differs from the run limit when the program ended",
				map[string]interface{}{"gasLeft": res.gasLeft, "final_runLimit": ck.end0.run})
		}
	default:
		if ck.end0 != nil {
			report("error-after-end:"+res.class, "Verify reported an execution error although the top frame ran to its end", nil)
		}
	}
	return res
}

func pickLimit(r *ev.Rand, long bool) int64 {
	if long {
		return []int64{20000, 65535, 100000, consensus.MaxGasAmount, consensus.MaxGasAmount}[r.Intn(5)]
	}
	if r.Chance(1, 8) {
		return int64(r.Intn(3000))
	}
	return limitSet[r.Pick(limitWeight)]
}

func wantTrace(r *ev.Rand, limit int64) bool {
	if limit >= 65535 {
		return r.Bool()
	}
	return true
}

// mono checks the monotonicity clauses on a program that succeeded at
// base.limit without executing CHECKPREDICATE, against every other run.
func mono(c *ev.Case, in *input, base *result, others []*result) {
	need := base.limit - base.ck.minRun0 // observed peak need (a lower bound of the true one)
	for _, o := range others {
		if o == base || o.class == "aborted" || o.class == "cut" || o.class == "escaped-panic" {
			continue
		}
		w := func() map[string]interface{} {
			return map[string]interface{}{"input": in.describe(o.limit), "base_limit": base.limit, "base_gasLeft": base.gasLeft,
				"observed_peak_need": need, "limit": o.limit, "class": o.class, "gasLeft": o.gasLeft}
		}
		switch {
		case o.limit > base.limit:
			c.Count("mono_more_gas_checked", 1)
			if o.class != "ok" {
				c.Violation("mono:fails-with-more-gas:"+o.class, "a program without CHECKPREDICATE succeeds with limit L but not with a larger limit", w())
			} else if o.gasLeft-base.gasLeft != o.limit-base.limit {
				c.Violation("mono:gasLeft-shift", "with Δ more gas the remaining gas did not grow by exactly Δ", w())
			}
		case o.limit < need:
			c.Count("mono_below_need_checked", 1)
			if o.class != "runlimit" {
				c.Violation("mono:below-peak-need:"+o.class, "a limit below the observed peak need did not end in a run-limit failure", w())
			}
		case o.limit < base.limit:
			c.Count("mono_between_checked", 1)
			if o.class == "ok" {
				c.Count("mono_between_ok", 1)
				if base.gasLeft-o.gasLeft != base.limit-o.limit {
					c.Violation("mono:gasLeft-shift", "with Δ more gas the remaining gas did not grow by exactly Δ", w())
				}
			} else if o.class != "runlimit" {
				c.Violation("mono:less-gas-other-error:"+o.class, "with less gas a succeeding program failed in a class other than run limit", w())
			}
		}
	}
}

func pickBase(rs []*result) *result {
	var base *result
	for _, x := range rs {
		if x.class == "ok" && !x.ck.sawCP && (base == nil || x.limit < base.limit) {
			base = x
		}
	}
	return base
}

func newInput(g *gen, code []byte) *input {
	r := g.r
	in := &input{budget: budgetNormal, code: code, args: g.args(), txv: r.Intn(3), checkOut: r.Pick([]int{4, 2, 1}),
		entryID: r.Bytes(32), assetID: r.Bytes(32), outputID: r.Bytes(32), sigHash: r.Bytes(32)}
	for i := r.Pick([]int{5, 2, 1, 1}); i > 0; i-- {
		in.state = append(in.state, g.smallData())
	}
	return in
}

func oneCase(c *ev.Case, kind string) {
	r := c.Rand
	g := &gen{r: r, kinds: map[string]bool{}}
	var code []byte
	switch kind {
	case "grammar":
		code = g.grammar()
	case "mutated":
		code = g.mutate(g.grammar())
	case "random-ops":
		code = g.randomOps()
	default:
		code = g.randomBytes()
	}
	in := newInput(g, code)
	for k := range g.kinds {
		c.Count("frag_"+k, 1)
	}
	long := r.Chance(1, 25)
	if long {
		in.budget = budgetLong
		c.Count("long_cases", 1)
	}
	c.Journal(in.describe(-1))

	var rs []*result
	seen := map[int64]bool{}
	for i := 0; i < 3; i++ {
		l := pickLimit(r, long)
		if seen[l] {
			continue
		}
		seen[l] = true
		rs = append(rs, run(c, in, l, wantTrace(r, l)))
	}
	c.Eval(int64(len(rs) - 1))
	if c.WantSample() {
		s := in.describe(rs[0].limit)
		s["class"], s["gasLeft"], s["steps"] = rs[0].class, rs[0].gasLeft, rs[0].ck.events
		c.Sample(s)
	}

	base := pickBase(rs)
	if base == nil {
		return
	}
	c.Count("mono_bases", 1)
	need := base.limit - base.ck.minRun0
	var extra []int64
	if need >= 1 {
		extra = append(extra, need-1, int64(r.Intn(int(need))))
	}
	if base.limit > need {
		extra = append(extra, need+int64(r.Intn(int(base.limit-need))))
	}
	if base.limit < consensus.MaxGasAmount {
		d := []int64{1, 7, 1000, consensus.MaxGasAmount - base.limit}[r.Intn(4)]
		if base.limit+d > consensus.MaxGasAmount {
			d = consensus.MaxGasAmount - base.limit
		}
		extra = append(extra, base.limit+d)
	}
	for _, l := range extra {
		if seen[l] {
			continue
		}
		seen[l] = true
		rs = append(rs, run(c, in, l, wantTrace(r, l)))
		c.Eval(1)
	}
	mono(c, in, base, rs)
}

// ladder: every gas limit from 0 to a little above the need of a small
// CHECKPREDICATE-free program: the set of succeeding limits must be upward
// closed, with exact shifts, and everything below the observed need must fail
// on the run limit.
func ladder(c *ev.Case) {
	r := c.Rand
	g := &gen{r: r, kinds: map[string]bool{}}
	var in *input
	var top *result
	var need int64
	for try := 0; ; try++ {
		if try == 30 {
			c.Count("ladder_no_candidate", 1)
			return
		}
		var code []byte
		if r.Bool() {
			code = g.grammar()
		} else {
			code = g.randomOps()
		}
		in = newInput(g, code)
		c.Journal(in.describe(-1))
		top = run(c, in, 20000, true)
		c.Eval(1)
		if top.class != "ok" || top.ck.sawCP {
			continue
		}
		if need = top.limit - top.ck.minRun0; need <= 400 {
			break
		}
	}
	c.Count("ladder_programs", 1)
	rs := []*result{top}
	for l := int64(0); l <= need+12; l++ {
		rs = append(rs, run(c, in, l, l%4 == 0))
		c.Eval(1)
	}
	base := pickBase(rs)
	mono(c, in, base, rs)
	c.Count("ladder_min_success_minus_observed_need", base.limit-need)
	c.Distinct("ladder need=%d slack=%d", need/16, base.limit-need)
}

// childLadder: the ladder of limits applied to a CHECKPREDICATE child.  A small program that ends
// with pushes and one copying / splicing stack instruction runs as the predicate of
// <all items> <program> <limit> CHECKPREDICATE for EVERY child limit from 0 to a little above its
// need, so the child also fails in the middle of each instruction's cost sequence (base cost paid,
// deposit not).  What the failed child is refunded is decided from its stacks; the step oracle
// measures the parent's drop net of what the child's completed instructions consumed.
var copyOps = []vm.Op{vm.OP_TUCK, vm.OP_DUP, vm.OP_OVER, vm.OP_2DUP, vm.OP_3DUP, vm.OP_2OVER, vm.OP_IFDUP, vm.OP_SWAP, vm.OP_ROT, vm.OP_2SWAP, vm.OP_2ROT, vm.OP_NIP, vm.OP_CAT, vm.OP_TOALTSTACK}

func childLadder(c *ev.Case) {
	r := c.Rand
	g := &gen{r: r, kinds: map[string]bool{}}
	var in *input
	var need, window int64
	var child []byte
	for try := 0; ; try++ {
		if try == 30 {
			c.Count("child_ladder_no_candidate", 1)
			return
		}
		p := &prog{}
		if r.Chance(2, 3) {
			p.b = append(p.b, g.grammar()...)
		}
		// items of 70-400 bytes among the last pushes: a deposit that is larger than CHECKPREDICATE's own
		// cost, so that an unpaid or twice refunded deposit is not hidden behind it
		maxItem := 0
		for i := r.Range(2, 6); i > 0; i-- {
			d := g.smallData()
			if r.Chance(1, 2) {
				d = r.Bytes(r.Range(70, 400))
			}
			if len(d) > maxItem {
				maxItem = len(d)
			}
			p.push(d)
		}
		op := copyOps[r.Intn(len(copyOps))]
		p.op(op)
		if r.Bool() {
			p.op(copyOps[r.Intn(len(copyOps))])
		}
		in = newInput(g, p.b)
		top := run(c, in, 20000, false)
		c.Eval(1)
		if top.ck.sawCP || (top.class != "ok" && top.class != "false-result") {
			continue
		}
		if need = top.limit - top.ck.minRun0; need <= 6000 {
			child = p.b
			window = 4*int64(maxItem+16) + 40 // the last instructions: where the copies are made
			c.Count("child_ladder_last_op:"+op.String(), 1)
			break
		}
	}
	c.Count("child_ladder_programs", 1)
	from := need - window
	if from < 0 || r.Chance(1, 8) {
		from = 0
	}
	if need-from > 2500 {
		from = need - 2500
	}
	for l := from; l <= need+12; l++ {
		p := &prog{}
		p.num(0) // the child gets every item of the parent's stack
		p.push(child)
		p.num(uint64(l))
		p.op(vm.OP_CHECKPREDICATE)
		p.op(vm.OP_DROP)
		p.num(1)
		in2 := *in
		in2.code = p.b
		c.Journal(in2.describe(20000))
		res := run(c, &in2, 20000, l%4 == 0)
		c.Eval(1)
		c.Count("child_ladder_runs", 1)
		c.Count("child_ladder_parent_"+res.class, 1)
	}
	c.Distinct("child-ladder need=%d", need/16)
}

func TestC07(t *testing.T) {
	r := ev.Start(t, "C07")
	defer r.Finish()
	r.Rule("programs: grammar (counter loops with JUMPIF, unbounded JUMP/JUMPIF loops, CAT growth loops, nested CHECKPREDICATE with limit 0/small/mid/huge/non-int64 and n 0/exact/too large, big pushes then DROP/2DROP/NIP, alt-stack round trips, hashes, signatures incl. 0-of-0 CHECKMULTISIG, introspection, splice, odd jumps), byte-mutated grammar programs, random well-formed opcode sequences over all opcodes, random byte strings; argument and state-data lists; each program at 3 gas limits from {0,1,7,8,9,10,63,64,65,100,255,256,257,500,1000,2000,4096,10000,20000,65535,100000,300000=consensus.MaxGasAmount} or random <3000, plus limits around the observed peak need; ladder group: every limit 0..need+12 of small programs. distinct = (opcode, class of the decrease of runLimit+deposits across the completed instruction, frame depth); the ladder group adds (observed need/16, minimal succeeding limit - observed need) classes")
	r.Assume("the step hook reports the true run limit and stacks of the executing frame before each instruction; a frame's next event is the witness that its previous instruction completed; arity table of the documented VM1 stack effects is used only to recognise instructions that cannot succeed")
	r.Assume("gas limits above consensus.MaxGasAmount are outside the quantifier; CHECKPREDICATE's drop is measured on the parent net of what the child's completed instructions consumed")

	r.Assume("the hook deep-copies both stacks at every step, so a run whose monitoring cost (events + stack items + stack bytes/256 copied) exceeds a fixed budget (50k units; 1.2M for 1 case in 25) is cut by the monitor: its observed prefix is checked, termination and gasLeft of that run are not (counter result_cut)")

	defer debug.SetGCPercent(debug.SetGCPercent(400)) // the hook's stack copies are short-lived garbage
	group := func(name string, n int, fn func(c *ev.Case)) {
		st := time.Now()
		r.Cases(name, n, fn)
		t.Logf("group %s: %d cases over all shards, %.1fs in this shard (log only)", name, n, time.Since(st).Seconds())
	}
	group("grammar", r.N(6000, 240000), func(c *ev.Case) { oneCase(c, "grammar") })
	group("mutated", r.N(1500, 60000), func(c *ev.Case) { oneCase(c, "mutated") })
	group("random-ops", r.N(3000, 120000), func(c *ev.Case) { oneCase(c, "random-ops") })
	group("random-bytes", r.N(2000, 80000), func(c *ev.Case) { oneCase(c, "random-bytes") })
	group("ladder", r.N(300, 12000), ladder)
	group("child-ladder", r.N(120, 3000), childLadder)

	r.Floor("runs", 30000)
	r.Floor("steps_completed", 1000000)
	r.Floor("result_ok", 3000)
	r.Floor("result_runlimit", 3000)
	r.Floor("result_false-result", 200)
	r.Floor("result_verify-failed", 50)
	r.Floor("result_underflow", 200)
	r.Floor("steps_raw_runlimit_rose", 20000)
	r.Floor("cp_child_ran_to_end", 300)
	r.Floor("cp_child_failed", 300)
	r.Floor("runs_depth>=2", 100)
	r.Floor("runs_limit_0", 300)
	r.Floor("runs_limit_max", 100)
	r.Floor("trace_steps_compared", 500000)
	r.Floor("mono_more_gas_checked", 1500)
	r.Floor("mono_below_need_checked", 3000)
	r.Floor("mono_between_checked", 1000)
	r.Floor("ladder_programs", 100)
	r.Floor("child_ladder_programs", 60)
	r.Floor("child_ladder_runs", 5000)
	r.Floor("child_ladder_last_op:TUCK", 3)
	r.Floor("must_fail_instructions_recognised", 3000)
	r.Floor("frag_loop-around-checkpredicate", 100)
	r.Floor("frag_loop-counter", 200)
	r.Floor("frag_loop-unbounded", 200)
	r.Floor("frag_loop-cat", 200)
	r.Floor("frag_checkpredicate", 1000)
	r.Floor("frag_altstack", 200)
	r.Floor("frag_bigpush-drop", 200)
}
