// Self-test of the C07 oracle against deliberately wrong VMs: synthetic event
// streams a broken implementation would produce must be flagged, and the
// stream of a correct one must not.  (Not run by ./check; `go test ./p07`.)
package p07

import (
	"fmt"
	"sort"
	"strings"
	"testing"

	"github.com/bytom/bytom/protocol/vm"
)

func item(n int) []byte { return make([]byte, n) }

func feed(limit int64, trace []string, evs ...*vm.VerifStep) (keys []string) {
	seen := map[string]bool{}
	ck := newChecker(limit, func(k, _ string, _ map[string]interface{}) { seen[k] = true })
	ck.traceOn = trace != nil
	func() {
		defer func() { recover() }()
		for i, e := range evs {
			ck.onEvent(e)
			if trace != nil && !e.End && i < len(trace) && trace[i] != "" {
				fmt.Fprint(ck, trace[i])
			}
		}
	}()
	ck.finish()
	for k := range seen {
		keys = append(keys, k)
	}
	sort.Strings(keys)
	return
}

func TestOracleSelf(t *testing.T) {
	T := []byte{1}
	cases := []struct {
		name  string
		limit int64
		trace []string
		evs   []*vm.VerifStep
		want  string // substring of a key, "" = no violation at all
	}{
		{"correct: push, drop, end", 100, nil, []*vm.VerifStep{
			{PC: 0, Op: vm.OP_1, RunLimit: 100},
			{PC: 1, Op: vm.OP_DROP, RunLimit: 90, DataStack: [][]byte{T}},
			{End: true, PC: 2, RunLimit: 98}}, ""},
		{"free instruction", 100, nil, []*vm.VerifStep{
			{PC: 0, Op: vm.OP_NOP, RunLimit: 100},
			{PC: 1, Op: vm.OP_NOP, RunLimit: 100}}, "dPhi=0:NOP:-"},
		{"refund larger than deposit", 100, nil, []*vm.VerifStep{
			{PC: 0, Op: vm.OP_DROP, RunLimit: 50, DataStack: [][]byte{item(10)}},
			{PC: 1, Op: vm.OP_NOP, RunLimit: 70}}, "dPhi<0:DROP:-"},
		{"push without deposit charge", 100, nil, []*vm.VerifStep{
			{PC: 0, Op: vm.OP_1, RunLimit: 100},
			{PC: 1, Op: vm.OP_NOP, RunLimit: 99, DataStack: [][]byte{T}}}, "dPhi<0:1:-"},
		{"runs on after FAIL", 100, nil, []*vm.VerifStep{
			{PC: 0, Op: vm.OP_FAIL, RunLimit: 100},
			{PC: 1, Op: vm.OP_NOP, RunLimit: 99}}, "ran-on-after-failure:FAIL"},
		{"runs on after VERIFY false", 100, nil, []*vm.VerifStep{
			{PC: 0, Op: vm.OP_VERIFY, RunLimit: 80, DataStack: [][]byte{{}}},
			{PC: 1, Op: vm.OP_NOP, RunLimit: 87}}, "ran-on-after-failure:VERIFY:false"},
		{"runs on after underflow", 100, nil, []*vm.VerifStep{
			{PC: 0, Op: vm.OP_CAT, RunLimit: 80, DataStack: [][]byte{T}},
			{PC: 1, Op: vm.OP_NOP, RunLimit: 70, DataStack: [][]byte{T}}}, "ran-on-after-failure:CAT:underflow"},
		{"negative run limit", 10, nil, []*vm.VerifStep{
			{PC: 0, Op: vm.OP_NOP, RunLimit: 10},
			{PC: 1, Op: vm.OP_NOP, RunLimit: -1}}, "runLimit<0"},
		{"arguments not charged", 10, nil, []*vm.VerifStep{
			{PC: 0, Op: vm.OP_NOP, RunLimit: 10, DataStack: [][]byte{T}}}, "phi0>limit"},
		{"child gets more than the parent has", 1000, nil, []*vm.VerifStep{
			{PC: 0, Op: vm.OP_CHECKPREDICATE, RunLimit: 300, DataStack: [][]byte{{}, {byte(vm.OP_1)}, {}}},
			{Depth: 1, PC: 0, Op: vm.OP_1, RunLimit: 5000}}, "child-budget>parent"},
		{"child consumption refunded but still covered by the flat cost: tolerated", 1000, nil, []*vm.VerifStep{
			// parent: n=0, predicate = NOP NOP TRUE, limit=0
			{PC: 0, Op: vm.OP_CHECKPREDICATE, RunLimit: 900, DataStack: [][]byte{{}, {0x61, 0x61, 0x51}, {}}},
			{Depth: 1, PC: 0, Op: vm.OP_NOP, RunLimit: 644},
			{Depth: 1, PC: 1, Op: vm.OP_NOP, RunLimit: 643},
			{Depth: 1, PC: 2, Op: vm.OP_1, RunLimit: 642},
			{Depth: 1, End: true, PC: 3, RunLimit: 632, DataStack: [][]byte{T}},
			// correct would be 900+27 (popped) -64 -3 (child) -9 (true) = 851; here the child's 3 are given back
			{End: true, PC: 1, RunLimit: 854, DataStack: [][]byte{T}}}, ""},
		{"child's consumption refunded to the parent (2)", 1000, nil, []*vm.VerifStep{
			{PC: 0, Op: vm.OP_CHECKPREDICATE, RunLimit: 900, DataStack: [][]byte{{}, {0x61, 0x61, 0x51}, {}}},
			{Depth: 1, PC: 0, Op: vm.OP_NOP, RunLimit: 644},
			{Depth: 1, PC: 1, Op: vm.OP_NOP, RunLimit: 643},
			{Depth: 1, PC: 2, Op: vm.OP_1, RunLimit: 642},
			{Depth: 1, End: true, PC: 3, RunLimit: 632, DataStack: [][]byte{T}},
			// everything but nothing charged: parent Φ falls by 2 only although the child consumed 3
			{End: true, PC: 1, RunLimit: 900 + 27 - 9 - 2, DataStack: [][]byte{T}}}, "dPhi<=0:CHECKPREDICATE:child-ok"},
		{"failed child reported as success", 1000, nil, []*vm.VerifStep{
			{PC: 0, Op: vm.OP_CHECKPREDICATE, RunLimit: 900, DataStack: [][]byte{{}, {byte(vm.OP_FAIL)}, {}}},
			{Depth: 1, PC: 0, Op: vm.OP_FAIL, RunLimit: 644},
			{End: true, PC: 1, RunLimit: 700, DataStack: [][]byte{T}}}, "checkpredicate-result"},
		{"watchdog", 3, nil, []*vm.VerifStep{
			{PC: 0, Op: vm.OP_JUMP, RunLimit: 3}, {PC: 0, Op: vm.OP_JUMP, RunLimit: 2}, {PC: 0, Op: vm.OP_JUMP, RunLimit: 1},
			{PC: 0, Op: vm.OP_JUMP, RunLimit: 1}, {PC: 0, Op: vm.OP_JUMP, RunLimit: 1}}, "steps>limit+1"},
		{"trace agrees", 100, []string{"vm 0 pc 0 limit 100 1 01\n", "vm 0 pc 1 limit 90 DROP\n  stack 0: 01\n"}, []*vm.VerifStep{
			{PC: 0, Op: vm.OP_1, RunLimit: 100, Data: T},
			{PC: 1, Op: vm.OP_DROP, RunLimit: 90, DataStack: [][]byte{T}},
			{End: true, PC: 2, RunLimit: 98}}, ""},
		{"trace limit differs", 100, []string{"vm 0 pc 0 limit 100 1 01\n", "vm 0 pc 1 limit 91 DROP\n"}, []*vm.VerifStep{
			{PC: 0, Op: vm.OP_1, RunLimit: 100, Data: T},
			{PC: 1, Op: vm.OP_DROP, RunLimit: 90, DataStack: [][]byte{T}},
			{End: true, PC: 2, RunLimit: 98}}, "trace:limit"},
		{"trace line missing", 100, []string{"vm 0 pc 0 limit 100 1 01\n", ""}, []*vm.VerifStep{
			{PC: 0, Op: vm.OP_1, RunLimit: 100, Data: T},
			{PC: 1, Op: vm.OP_DROP, RunLimit: 90, DataStack: [][]byte{T}},
			{End: true, PC: 2, RunLimit: 98}}, "trace:missing-line"},
		{"trace opcode differs", 100, []string{"vm 0 pc 0 limit 100 NOP\n"}, []*vm.VerifStep{
			{PC: 0, Op: vm.OP_1, RunLimit: 100, Data: T},
			{End: true, PC: 1, RunLimit: 90, DataStack: [][]byte{T}}}, "trace:opcode"},
	}
	for _, tc := range cases {
		keys := feed(tc.limit, tc.trace, tc.evs...)
		switch {
		case tc.want == "" && len(keys) > 0:
			t.Errorf("%s: false alarm %v", tc.name, keys)
		case tc.want != "" && !strings.Contains(strings.Join(keys, " | "), tc.want):
			t.Errorf("%s: want a key containing %q, got %v", tc.name, tc.want, keys)
		}
	}
}
