// C07 oracle: a streaming checker over the VM's step events (build-tag hook
// vm.VerifStepHook) and over the VM's own public trace (vm.TraceOut).
//
// Everything asserted here is derived from the property statement, not from a
// per-opcode cost table:
//
//	Φ(frame) = runLimit + Σ(8+len) over data stack + Σ(8+len) over alt stack
//
// must drop by at least 1 across every instruction that completes (the next
// event of the same frame is the witness that it completed).  For
// CHECKPREDICATE the drop is measured on the parent frame and must in
// addition cover what the child frame's completed instructions consumed
// (Φ at the child's first event minus Φ at the child's last event): otherwise
// instructions executed in a child would be free for the transaction.
package p07

import (
	"encoding/hex"
	"fmt"
	"sort"
	"strconv"
	"strings"

	"github.com/bytom/bytom/protocol/vm"
)

type reportFn func(key, what string, w map[string]interface{})

// evSummary is what is kept of an event after it was processed.
type evSummary struct {
	end          bool
	op           vm.Op
	pc           uint32
	run, phi     int64
	nData, nAlt  int
	top          [3][]byte // top[0] is the top of the data stack
	depData, dep int64
}

type childSummary struct {
	phi0, lastPhi int64
	ended         bool // End event seen: the child's program ran to its end
	endTruthy     bool // ... with a true top item
	lastOp        vm.Op
	lastEnd       bool
	events        int
}

type frame struct {
	depth    int
	phi0     int64
	last     evSummary
	mustFail string        // the instruction at `last` cannot succeed (reason)
	child    *childSummary // child frame that ran since `last` (CHECKPREDICATE)
	events   int
}

type abortSentinel struct{}

type checker struct {
	limit  int64
	report reportFn
	// expansionReserved of the top frame is not needed: no per-opcode model.

	frames    []*frame
	events    int64 // step events (End excluded) at any depth
	completed int64 // instructions known to have completed
	minRun0   int64 // min runLimit seen at depth 0 (peak need = limit - minRun0)
	hasEv0    bool
	sawCP     bool
	maxDepth  int
	aborted   bool
	budget    int64 // monitor cost budget (the hook deep-copies both stacks at every step)
	cost      int64
	cut       bool // the run was cut by the monitor when the budget was used up (no verdict on the rest)
	runRose   int64
	cpOK      int64
	cpFailed  int64
	cpNoChild int64
	mustFails int64 // instructions recognised as unable to succeed

	dphiKeys map[string]bool  // keys of ΔΦ <= 0 violations of this run
	classes  map[uint32]int64 // op<<16 | ΔΦ class<<8 | depth bucket -> count

	end0 *evSummary // End event of the top frame

	// trace comparison
	traceOn      bool
	cur          *vm.VerifStep // last step event, until matched by a trace line
	curMatched   bool
	traceSteps   int64
	traceBad     bool
	lineBuf      []byte
	skippingLine bool
}

func newChecker(limit int64, report reportFn) *checker {
	return &checker{limit: limit, report: report, dphiKeys: map[string]bool{}, classes: map[uint32]int64{}}
}

func deposit(stack [][]byte) int64 {
	n := int64(8 * len(stack))
	for _, it := range stack {
		n += int64(len(it))
	}
	return n
}

func asBool(b []byte) bool {
	for _, x := range b {
		if x != 0 {
			return true
		}
	}
	return false
}

func summarize(e *vm.VerifStep) evSummary {
	s := evSummary{end: e.End, op: e.Op, pc: e.PC, run: e.RunLimit, nData: len(e.DataStack), nAlt: len(e.AltStack)}
	s.depData = deposit(e.DataStack)
	s.dep = s.depData + deposit(e.AltStack)
	s.phi = s.run + s.dep
	for i := 0; i < 3 && i < len(e.DataStack); i++ {
		s.top[i] = e.DataStack[len(e.DataStack)-1-i]
	}
	return s
}

func dphiClass(d int64) uint32 {
	switch {
	case d <= 0:
		return 0
	case d == 1:
		return 1
	case d <= 8:
		return 2
	case d <= 64:
		return 3
	case d <= 1024:
		return 4
	default:
		return 5
	}
}

var dphiClassName = []string{"<=0", "1", "2-8", "9-64", "65-1024", ">1024"}

func depthBucket(d int) uint32 {
	if d > 3 {
		return 3
	}
	return uint32(d)
}

// arity: minimal number of data-stack items an opcode needs according to the
// documented VM1 stack effects.  Used only to recognise instructions that
// cannot succeed ("after an instruction fails no further instruction runs in
// that frame"); opcodes with a data-dependent arity list their fixed part.
var arity = map[vm.Op]int{
	vm.OP_JUMPIF: 1, vm.OP_VERIFY: 1, vm.OP_CHECKPREDICATE: 3,
	vm.OP_TOALTSTACK: 1, vm.OP_2DROP: 2, vm.OP_2DUP: 2, vm.OP_3DUP: 3, vm.OP_2OVER: 4, vm.OP_2ROT: 6, vm.OP_2SWAP: 4,
	vm.OP_IFDUP: 1, vm.OP_DROP: 1, vm.OP_DUP: 1, vm.OP_NIP: 2, vm.OP_OVER: 2, vm.OP_PICK: 1, vm.OP_ROLL: 1, vm.OP_ROT: 3,
	vm.OP_SWAP: 2, vm.OP_TUCK: 2,
	vm.OP_CAT: 2, vm.OP_SUBSTR: 3, vm.OP_LEFT: 2, vm.OP_RIGHT: 2, vm.OP_SIZE: 1, vm.OP_CATPUSHDATA: 2,
	vm.OP_INVERT: 1, vm.OP_AND: 2, vm.OP_OR: 2, vm.OP_XOR: 2, vm.OP_EQUAL: 2, vm.OP_EQUALVERIFY: 2,
	vm.OP_1ADD: 1, vm.OP_1SUB: 1, vm.OP_2MUL: 1, vm.OP_2DIV: 1, vm.OP_NOT: 1, vm.OP_0NOTEQUAL: 1,
	vm.OP_ADD: 2, vm.OP_SUB: 2, vm.OP_MUL: 2, vm.OP_DIV: 2, vm.OP_MOD: 2, vm.OP_LSHIFT: 2, vm.OP_RSHIFT: 2,
	vm.OP_BOOLAND: 2, vm.OP_BOOLOR: 2, vm.OP_NUMEQUAL: 2, vm.OP_NUMEQUALVERIFY: 2, vm.OP_NUMNOTEQUAL: 2,
	vm.OP_LESSTHAN: 2, vm.OP_GREATERTHAN: 2, vm.OP_LESSTHANOREQUAL: 2, vm.OP_GREATERTHANOREQUAL: 2,
	vm.OP_MIN: 2, vm.OP_MAX: 2, vm.OP_WITHIN: 3,
	vm.OP_SHA256: 1, vm.OP_SHA3: 1, vm.OP_HASH160: 1, vm.OP_CHECKSIG: 3, vm.OP_CHECKMULTISIG: 3,
	vm.OP_CHECKOUTPUT: 5,
}

// mustFail says why the instruction about to run at event s cannot succeed,
// or "" when that cannot be told without a model of the opcode.
func mustFail(s *evSummary) string {
	switch s.op {
	case vm.OP_FAIL:
		return "FAIL"
	case vm.OP_FROMALTSTACK:
		if s.nAlt == 0 {
			return "alt-underflow"
		}
		return ""
	case vm.OP_VERIFY:
		if s.nData > 0 && !asBool(s.top[0]) {
			return "false"
		}
	}
	if n, ok := arity[s.op]; ok && s.nData < n {
		return "underflow"
	}
	return ""
}

func smallInt(b []byte) string {
	for len(b) > 0 && b[len(b)-1] == 0 { // little-endian: drop leading zeros of the number
		b = b[:len(b)-1]
	}
	if len(b) > 8 {
		return "big"
	}
	var n uint64
	for i := len(b) - 1; i >= 0; i-- {
		n = n<<8 | uint64(b[i])
	}
	if n > 16 {
		return ">16"
	}
	return strconv.FormatUint(n, 10)
}

// operandClass is the second half of a ΔΦ violation key.
func operandClass(f *frame) string {
	switch f.last.op {
	case vm.OP_CHECKMULTISIG:
		if f.last.nData == 0 {
			return "nkeys=?"
		}
		return "nkeys=" + smallInt(f.last.top[0])
	case vm.OP_CHECKPREDICATE:
		ch := f.child
		switch {
		case ch == nil:
			return "child-no-events"
		case ch.ended:
			return "child-ok"
		default:
			return "child-failed-in=" + ch.lastOp.String()
		}
	}
	return "-"
}

func (c *checker) violation(key, what string, w map[string]interface{}) {
	if c.report != nil {
		c.report(key, what, w)
	}
}

func (c *checker) popTo(n int) {
	for len(c.frames) > n {
		f := c.frames[len(c.frames)-1]
		c.frames = c.frames[:len(c.frames)-1]
		if len(c.frames) > 0 {
			ch := &childSummary{phi0: f.phi0, lastPhi: f.last.phi, ended: f.last.end, lastOp: f.last.op, lastEnd: f.last.end, events: f.events}
			if f.last.end {
				ch.endTruthy = f.last.nData > 0 && asBool(f.last.top[0])
			}
			c.frames[len(c.frames)-1].child = ch
		}
	}
}

// onEvent is installed as vm.VerifStepHook.
func (c *checker) onEvent(e *vm.VerifStep) {
	if c.traceOn && c.cur != nil && !c.curMatched && !c.traceBad {
		c.traceBad = true
		c.violation("trace:missing-line", "an instruction observed by the step hook produced no TraceOut line before the next instruction",
			map[string]interface{}{"depth": c.cur.Depth, "pc": c.cur.PC, "op": c.cur.Op.String()})
	}
	s := summarize(e)
	c.cost += 1 + int64(s.nData+s.nAlt) + s.dep>>8
	if !e.End {
		c.events++
		c.cur, c.curMatched = e, false
		if e.Op == vm.OP_CHECKPREDICATE {
			c.sawCP = true
		}
	} else {
		c.cur = nil
	}
	if e.Depth > c.maxDepth {
		c.maxDepth = e.Depth
	}
	if e.RunLimit < 0 {
		c.violation("runLimit<0", "the run limit of a frame is negative at an instruction boundary",
			map[string]interface{}{"depth": e.Depth, "pc": e.PC, "runLimit": e.RunLimit})
	}
	if e.Depth == 0 {
		if !c.hasEv0 || e.RunLimit < c.minRun0 {
			c.minRun0 = e.RunLimit
		}
		c.hasEv0 = true
	}

	d := e.Depth
	switch {
	case d > len(c.frames):
		c.violation("frame-sequence:depth-skipped", "an event of depth d arrived although no frame of depth d-1 is executing",
			map[string]interface{}{"depth": d, "open_frames": len(c.frames)})
		for len(c.frames) < d { // keep going with placeholder frames
			c.frames = append(c.frames, &frame{depth: len(c.frames), last: evSummary{end: false, op: vm.OP_CHECKPREDICATE, phi: 1 << 62}})
		}
		fallthrough
	case d == len(c.frames):
		f := &frame{depth: d, phi0: s.phi}
		if d == 0 {
			if s.phi > c.limit {
				c.violation("phi0>limit", "before the first instruction run limit plus stack deposits exceed the gas limit passed to Verify",
					map[string]interface{}{"limit": c.limit, "phi0": s.phi, "runLimit": s.run})
			}
		} else {
			p := c.frames[d-1]
			if p.last.op != vm.OP_CHECKPREDICATE || p.last.end {
				c.violation("frame-sequence:child-without-checkpredicate", "a child frame started although the parent's current instruction is not CHECKPREDICATE",
					map[string]interface{}{"depth": d, "parent_op": p.last.op.String()})
			} else if s.phi > p.last.phi {
				c.violation("child-budget>parent", "a CHECKPREDICATE child starts with more run limit plus deposits than its parent had before the instruction",
					map[string]interface{}{"depth": d, "child_phi0": s.phi, "parent_phi": p.last.phi, "child_runLimit": s.run, "parent_runLimit": p.last.run})
			}
		}
		f.last = s
		f.events = 1
		if !s.end {
			f.mustFail = mustFail(&s)
			if f.mustFail != "" {
				c.mustFails++
			}
		} else if d == 0 {
			cp := s
			c.end0 = &cp
		}
		c.frames = append(c.frames, f)
		c.watchdogs(e)
		return
	}
	// d < len(frames): the frames above d are over.
	c.popTo(d + 1)
	f := c.frames[d]
	f.events++
	if f.last.end {
		c.violation("frame-sequence:event-after-end", "a frame produced an event after its End event",
			map[string]interface{}{"depth": d, "pc": e.PC})
	} else {
		c.completedInstr(f, &s, e)
	}
	f.last = s
	f.child = nil
	f.mustFail = ""
	if !s.end {
		f.mustFail = mustFail(&s)
		if f.mustFail != "" {
			c.mustFails++
		}
	} else if d == 0 {
		cp := s
		c.end0 = &cp
	}
	c.watchdogs(e)
}

func (c *checker) watchdogs(e *vm.VerifStep) {
	if c.events > c.limit+1 {
		c.abort(e)
	}
	if c.budget > 0 && c.cost > c.budget {
		c.cut = true
		panic(abortSentinel{})
	}
}

// completedInstr: the instruction at f.last completed; s is the state after it.
func (c *checker) completedInstr(f *frame, s *evSummary, e *vm.VerifStep) {
	c.completed++
	op := f.last.op
	if f.mustFail != "" {
		c.violation("ran-on-after-failure:"+op.String()+":"+f.mustFail,
			"an instruction that cannot succeed was followed by another instruction of the same frame",
			map[string]interface{}{"depth": f.depth, "pc": f.last.pc, "op": op.String(), "reason": f.mustFail, "next_pc": e.PC, "stack_items": f.last.nData, "alt_items": f.last.nAlt})
	}
	dphi := f.last.phi - s.phi
	eff := dphi
	var consumed int64
	if op == vm.OP_CHECKPREDICATE {
		ch := f.child
		switch {
		case ch == nil:
			c.cpNoChild++
		case ch.ended:
			c.cpOK++
		default:
			c.cpFailed++
		}
		if ch != nil {
			// signed: if the child's own Φ rose, that was flagged on the child's
			// frame at the instruction where it happened; the parent merely
			// inherits it and is not blamed a second time.
			consumed = ch.phi0 - ch.lastPhi
			eff = dphi - consumed
		}
		// the pushed result must say whether the child ran to its end with a true top item
		want := ch != nil && ch.ended && ch.endTruthy
		got := s.nData > 0 && asBool(s.top[0])
		if !s.end || s.nData > 0 {
			if got != want && (ch == nil || ch.ended || got) {
				// (a child without End event failed: result must be false;
				//  a child with End event: result must equal its top item)
				c.violation(fmt.Sprintf("checkpredicate-result:%s:pushed=%v", operandClass(f), got),
					"CHECKPREDICATE pushed a result that contradicts what the child frame did",
					map[string]interface{}{"depth": f.depth, "pc": f.last.pc, "pushed": got, "child_ran_to_end_true": want})
			}
		}
	}
	if s.run > f.last.run {
		c.runRose++
	}
	c.classes[uint32(op)<<16|dphiClass(eff)<<8|depthBucket(f.depth)]++
	if eff < 1 {
		sign := "<0"
		if eff == 0 {
			sign = "=0"
		}
		if op == vm.OP_CHECKPREDICATE {
			sign = "<=0"
		}
		key := "dPhi" + sign + ":" + op.String() + ":" + operandClass(f)
		c.dphiKeys[key] = true
		w := map[string]interface{}{"depth": f.depth, "pc": f.last.pc, "op": op.String(),
			"runLimit_before": f.last.run, "deposits_before": f.last.dep, "phi_before": f.last.phi,
			"runLimit_after": s.run, "deposits_after": s.dep, "phi_after": s.phi, "dPhi": dphi}
		if op == vm.OP_CHECKPREDICATE {
			w["child_consumed_by_completed_instructions"] = consumed
			w["dPhi_net_of_child"] = eff
			if f.child != nil {
				w["child_phi_first_event"] = f.child.phi0
				w["child_phi_last_event"] = f.child.lastPhi
				w["child_events"] = f.child.events
			}
		}
		for i := 0; i < 3 && i < f.last.nData; i++ {
			it := f.last.top[i]
			if len(it) > 40 {
				w[fmt.Sprintf("top%d", i)] = fmt.Sprintf("%x...(%d bytes)", it[:40], len(it))
			} else {
				w[fmt.Sprintf("top%d", i)] = hex.EncodeToString(it)
			}
		}
		c.violation(key, "run limit plus stack deposits of the frame did not decrease by at least 1 across a completed instruction (the instruction cost nothing, or created gas)", w)
	}
}

// causes names the ΔΦ<=0 violations seen so far in this run (gasOnly: only
// those that can create gas, i.e. not the exact-zero ones).
func (c *checker) causes(gasOnly bool) string {
	ks := make([]string, 0, len(c.dphiKeys))
	for k := range c.dphiKeys {
		if gasOnly && strings.HasPrefix(k, "dPhi=0:") {
			continue
		}
		ks = append(ks, k)
	}
	if len(ks) == 0 {
		return "none"
	}
	sort.Strings(ks)
	return strings.Join(ks, "+")
}

func (c *checker) abort(e *vm.VerifStep) {
	c.aborted = true
	c.violation("steps>limit+1[cause="+c.causes(false)+"]",
		"more instructions started than gasLimit+1: the run cannot be bounded by its gas limit (aborted by the monitor)",
		map[string]interface{}{"limit": c.limit, "steps": c.events, "depth": e.Depth, "pc": e.PC, "runLimit_now": e.RunLimit})
	panic(abortSentinel{})
}

// ---- TraceOut ----

// Write implements io.Writer for vm.TraceOut.  Lines "vm D pc P limit R NAME[ hex]"
// are compared with the current step event; "  stack i: hex" lines are skipped.
func (c *checker) Write(p []byte) (int, error) {
	n := len(p)
	for len(p) > 0 {
		if len(c.lineBuf) == 0 && !c.skippingLine && p[0] == ' ' {
			c.skippingLine = true
		}
		i := indexByte(p, '\n')
		if c.skippingLine {
			if i < 0 {
				return n, nil
			}
			c.skippingLine = false
			p = p[i+1:]
			continue
		}
		if i < 0 {
			if len(c.lineBuf) < 256 { // only the head of the line matters
				c.lineBuf = append(c.lineBuf, p...)
			}
			return n, nil
		}
		if len(c.lineBuf) < 256 {
			c.lineBuf = append(c.lineBuf, p[:i]...)
		}
		c.traceLine(string(c.lineBuf))
		c.lineBuf = c.lineBuf[:0]
		p = p[i+1:]
	}
	return n, nil
}

func indexByte(p []byte, b byte) int {
	for i, x := range p {
		if x == b {
			return i
		}
	}
	return -1
}

func (c *checker) traceLine(line string) {
	if c.traceBad {
		return
	}
	f := strings.Fields(line)
	bad := func(field, want string) {
		c.traceBad = true
		cur := map[string]interface{}{}
		if c.cur != nil {
			cur = map[string]interface{}{"depth": c.cur.Depth, "pc": c.cur.PC, "limit": c.cur.RunLimit, "op": c.cur.Op.String()}
		}
		c.violation("trace:"+field, "the VM's TraceOut line disagrees with the step hook on "+field,
			map[string]interface{}{"line": line, "hook": cur, "want": want})
	}
	if len(f) < 7 || f[0] != "vm" || f[2] != "pc" || f[4] != "limit" {
		bad("format", "vm D pc P limit R OPCODE")
		return
	}
	if c.cur == nil || c.curMatched {
		bad("extra-line", "one line per instruction")
		return
	}
	c.curMatched = true
	c.traceSteps++
	if f[1] != strconv.Itoa(c.cur.Depth) {
		bad("depth", strconv.Itoa(c.cur.Depth))
	} else if f[3] != strconv.FormatUint(uint64(c.cur.PC), 10) {
		bad("pc", strconv.FormatUint(uint64(c.cur.PC), 10))
	} else if f[5] != strconv.FormatInt(c.cur.RunLimit, 10) {
		bad("limit", strconv.FormatInt(c.cur.RunLimit, 10))
	} else if f[6] != c.cur.Op.String() {
		bad("opcode", c.cur.Op.String())
	}
}

// finish runs the end-of-run part of the trace comparison.
func (c *checker) finish() {
	if c.traceOn && !c.traceBad && !c.aborted && !c.cut {
		if c.cur != nil && !c.curMatched {
			c.violation("trace:missing-line", "the last instruction observed by the step hook produced no TraceOut line",
				map[string]interface{}{"depth": c.cur.Depth, "pc": c.cur.PC, "op": c.cur.Op.String()})
		} else if c.traceSteps != c.events {
			c.violation("trace:count", "number of TraceOut instruction lines differs from the number of hook step events",
				map[string]interface{}{"trace": c.traceSteps, "hook": c.events})
		}
	}
}
