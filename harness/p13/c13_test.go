// C13 — blocks violating consensus rules never enter the main chain; valid blocks are accepted.
//
// In a random valid chain context a valid candidate block is accepted (control);
// every single-rule mutant of it is delivered (a) on the best tip and (b) at the base
// of a side branch that is then extended until it is longer than the main chain
// (spend rules only run when a branch is connected).  Oracle: the mutant is never
// InMainChain, the best block never descends from it, the main chain keeps
// accepting valid blocks once it is the longest again.
package p13

import (
	"fmt"
	"os"
	"strings"
	"testing"
	"time"

	"github.com/bytom/bytom/consensus"
	"github.com/bytom/bytom/protocol/bc"
	"github.com/bytom/bytom/protocol/bc/types"
	"github.com/bytom/bytom/protocol/validation"
	"github.com/bytom/bytom/protocol/vm"

	"verif/internal/chainkit"
	"verif/internal/ev"
)

type mutant struct {
	rule  string
	build func(tr *chainkit.Tree, p *chainkit.Blk) (*chainkit.Blk, error)
	needs string // "", "reward" (p.Height%epoch==0, p.Height>0), "coinbase-utxo", "vote-utxo", "false-utxo"
}

func emptyOpt() chainkit.BlockOpt { return chainkit.BlockOpt{NoRefCheck: true} }

// gasLoop is a program that burns gas: <n> [1SUB DUP JUMPIF:loop] DROP TRUE
func gasLoop(n uint32) []byte {
	p := []byte{byte(vm.OP_DATA_4), byte(n), byte(n >> 8), byte(n >> 16), byte(n >> 24)}
	loop := uint32(len(p))
	p = append(p, byte(vm.OP_1SUB), byte(vm.OP_DUP), byte(vm.OP_JUMPIF), byte(loop), byte(loop>>8), byte(loop>>16), byte(loop>>24))
	p = append(p, byte(vm.OP_DROP), byte(vm.OP_TRUE))
	return p
}

func firstFund(p *chainkit.Blk, skip int) *chainkit.RefUtxo {
	for _, u := range p.SortedUtxos() {
		if u.Type == chainkit.UNormal && u.U.Asset == chainkit.BTM && u.U.Amount > 100*chainkit.DefaultFee && isTrueish(u.U.Program) {
			if skip == 0 {
				return u
			}
			skip--
		}
	}
	return nil
}

func isTrueish(prog []byte) bool {
	return len(prog) > 0 && prog[len(prog)-1] == byte(vm.OP_TRUE) && prog[0] != byte(vm.OP_DATA_4)
}

func simpleTx(p *chainkit.Blk, skip int) *types.Tx {
	f := firstFund(p, skip)
	if f == nil {
		return nil
	}
	return chainkit.PayTx([]*chainkit.UTXO{f.U}, chainkit.TrueProg, 2, chainkit.DefaultFee)
}

func mutants(net *chainkit.Net) []mutant {
	E := net.P.Epoch
	var ms []mutant
	add := func(rule, needs string, f func(tr *chainkit.Tree, p *chainkit.Blk) (*chainkit.Blk, error)) {
		ms = append(ms, mutant{rule, f, needs})
	}
	hdr := func(rule string, mut func(b *types.Block)) {
		add(rule, "", func(tr *chainkit.Tree, p *chainkit.Blk) (*chainkit.Blk, error) {
			o := emptyOpt()
			o.MutateRoot = mut
			return tr.Build(p, []*types.Tx{simpleTx(p, 0)}, o)
		})
	}
	hdr("header:height+1", func(b *types.Block) { b.Height++ })
	hdr("header:height-1", func(b *types.Block) { b.Height-- })
	hdr("header:version=2", func(b *types.Block) { b.Version = 2 })
	hdr("header:version=0", func(b *types.Block) { b.Version = 0 })
	hdr("header:merkle-root-flipped", func(b *types.Block) { b.TransactionsMerkleRoot.V0 ^= 1 })
	add("header:merkle-root-of-other-tx-set", "", func(tr *chainkit.Tree, p *chainkit.Blk) (*chainkit.Blk, error) {
		o := emptyOpt()
		other := simpleTx(p, 1)
		o.MutateRoot = func(b *types.Block) {
			root, _ := types.TxMerkleRoot([]*bc.Tx{b.Transactions[0].Tx, other.Tx})
			b.TransactionsMerkleRoot = root
		}
		return tr.Build(p, []*types.Tx{simpleTx(p, 0)}, o)
	})
	add("header:timestamp=parent", "", func(tr *chainkit.Tree, p *chainkit.Blk) (*chainkit.Blk, error) {
		o := emptyOpt()
		o.Timestamp = p.B.Timestamp
		if p.B.Timestamp < p.CP(E).B.Timestamp+chainkit.Interval {
			o.Timestamp = p.B.Timestamp + chainkit.Interval - 1
		}
		return tr.Build(p, []*types.Tx{}, o)
	})
	add("header:timestamp=parent+interval-1", "", func(tr *chainkit.Tree, p *chainkit.Blk) (*chainkit.Blk, error) {
		o := emptyOpt()
		o.Timestamp = p.B.Timestamp + chainkit.Interval - 1
		return tr.Build(p, []*types.Tx{}, o)
	})
	add("header:timestamp=now+1h", "", func(tr *chainkit.Tree, p *chainkit.Blk) (*chainkit.Blk, error) {
		o := emptyOpt()
		now := uint64(time.Now().UnixNano() / 1e6)
		o.Timestamp = now + 3600*1000
		return tr.Build(p, []*types.Tx{}, o)
	})
	valset := func(p *chainkit.Blk) (right int, set map[int]bool) {
		set = map[int]bool{}
		for _, v := range net.Validators(p.CP(E)) {
			set[net.KeyIndex(v.PubHex)] = true
		}
		return net.KeyIndex(net.ProposerAt(p, p.B.Timestamp+chainkit.Interval).PubHex), set
	}
	add("proposer:other-validator-signs", "", func(tr *chainkit.Tree, p *chainkit.Blk) (*chainkit.Blk, error) {
		o := emptyOpt()
		right, set := valset(p)
		other := -1
		for k := 0; k < net.P.NKeys; k++ {
			if set[k] && k != right {
				other = k
			}
		}
		if other < 0 {
			return nil, fmt.Errorf("single validator")
		}
		o.SignWith = &other
		return tr.Build(p, []*types.Tx{}, o)
	})
	add("proposer:wrong-slot", "", func(tr *chainkit.Tree, p *chainkit.Blk) (*chainkit.Blk, error) {
		// signed by the validator of the next slot but time-stamped in this slot
		o := emptyOpt()
		right, _ := valset(p)
		next := net.KeyIndex(net.ProposerAt(p, p.B.Timestamp+2*chainkit.Interval).PubHex)
		if next == right {
			return nil, fmt.Errorf("same validator in both slots")
		}
		o.SignWith = &next
		return tr.Build(p, []*types.Tx{}, o)
	})
	add("proposer:non-validator-signs", "", func(tr *chainkit.Tree, p *chainkit.Blk) (*chainkit.Blk, error) {
		o := emptyOpt()
		_, set := valset(p)
		k := -1
		for i := 0; i < net.P.NKeys; i++ {
			if !set[i] {
				k = i
			}
		}
		if k < 0 {
			return nil, fmt.Errorf("every key is a validator")
		}
		o.SignWith = &k
		return tr.Build(p, []*types.Tx{}, o)
	})
	add("proposer:empty-witness", "", func(tr *chainkit.Tree, p *chainkit.Blk) (*chainkit.Blk, error) {
		o := emptyOpt()
		o.NoSign = true
		return tr.Build(p, []*types.Tx{}, o)
	})
	add("proposer:garbage-witness", "", func(tr *chainkit.Tree, p *chainkit.Blk) (*chainkit.Blk, error) {
		o := emptyOpt()
		o.MutateAfter = func(b *types.Block) { b.BlockWitness[7] ^= 0x40 }
		return tr.Build(p, []*types.Tx{}, o)
	})
	add("proposer:signature-over-other-header", "", func(tr *chainkit.Tree, p *chainkit.Blk) (*chainkit.Blk, error) {
		o := emptyOpt()
		o.MutateAfter = func(b *types.Block) { b.Timestamp += 0 ; b.TransactionsMerkleRoot.V3 ^= 2 }
		return tr.Build(p, []*types.Tx{}, o)
	})
	// transactions
	var txmN func(rule, needs string, f func(p *chainkit.Blk) []*types.Tx)
	txm := func(rule string, f func(p *chainkit.Blk) []*types.Tx) { txmN(rule, "", f) }
	txmN = func(rule, needs string, f func(p *chainkit.Blk) []*types.Tx) {
		add(rule, needs, func(tr *chainkit.Tree, p *chainkit.Blk) (*chainkit.Blk, error) {
			txs := f(p)
			if txs == nil {
				return nil, fmt.Errorf("no funds")
			}
			return tr.Build(p, txs, emptyOpt())
		})
	}
	txm("tx:btm-outputs-exceed-inputs", func(p *chainkit.Blk) []*types.Tx {
		f := firstFund(p, 0)
		return []*types.Tx{chainkit.MakeTx([]*chainkit.UTXO{f.U}, []chainkit.Out{{Asset: chainkit.BTM, Amount: f.U.Amount + 1, Program: chainkit.TrueProg}}, 0)}
	})
	txm("tx:zero-fee", func(p *chainkit.Blk) []*types.Tx {
		f := firstFund(p, 0)
		return []*types.Tx{chainkit.MakeTx([]*chainkit.UTXO{f.U}, []chainkit.Out{{Asset: chainkit.BTM, Amount: f.U.Amount, Program: chainkit.TrueProg}}, 0)}
	})
	txm("tx:creates-foreign-asset", func(p *chainkit.Blk) []*types.Tx {
		f := firstFund(p, 0)
		return []*types.Tx{chainkit.MakeTx([]*chainkit.UTXO{f.U}, []chainkit.Out{{Asset: chainkit.BTM, Amount: f.U.Amount - chainkit.DefaultFee, Program: chainkit.TrueProg}, {Asset: chainkit.AssetN(2), Amount: 1, Program: chainkit.TrueProg}}, 0)}
	})
	txm("tx:time-range-expired", func(p *chainkit.Blk) []*types.Tx {
		f := firstFund(p, 0)
		return []*types.Tx{chainkit.MakeTx([]*chainkit.UTXO{f.U}, []chainkit.Out{{Asset: chainkit.BTM, Amount: f.U.Amount - chainkit.DefaultFee, Program: chainkit.TrueProg}}, p.Height)}
	})
	txm("tx:version=2", func(p *chainkit.Blk) []*types.Tx {
		f := firstFund(p, 0)
		d := &types.TxData{Version: 2, Inputs: []*types.TxInput{chainkit.Input(f.U, nil)},
			Outputs: []*types.TxOutput{types.NewOriginalTxOutput(chainkit.BTM, f.U.Amount-chainkit.DefaultFee, chainkit.TrueProg, [][]byte{})}}
		return []*types.Tx{chainkit.Finish(d)}
	})
	txm("tx:vote-output-below-minimum", func(p *chainkit.Blk) []*types.Tx {
		f := firstFund(p, 0)
		return []*types.Tx{chainkit.MakeTx([]*chainkit.UTXO{f.U}, []chainkit.Out{{Asset: chainkit.BTM, Amount: consensus.MinVoteOutputAmount - 1, Program: chainkit.TrueProg, Vote: net.VoteKey(0)},
			{Asset: chainkit.BTM, Amount: f.U.Amount - chainkit.DefaultFee - consensus.MinVoteOutputAmount + 1, Program: chainkit.TrueProg}}, 0)}
	})
	txm("tx:vote-key-wrong-length", func(p *chainkit.Blk) []*types.Tx {
		f := firstFund(p, 0)
		return []*types.Tx{chainkit.MakeTx([]*chainkit.UTXO{f.U}, []chainkit.Out{{Asset: chainkit.BTM, Amount: consensus.MinVoteOutputAmount, Program: chainkit.TrueProg, Vote: net.VoteKey(0)[:63]},
			{Asset: chainkit.BTM, Amount: f.U.Amount - chainkit.DefaultFee - consensus.MinVoteOutputAmount, Program: chainkit.TrueProg}}, 0)}
	})
	txm("tx:wrong-witness-for-false-program", func(p *chainkit.Blk) []*types.Tx {
		var u *chainkit.RefUtxo
		for _, x := range p.SortedUtxos() {
			if len(x.U.Program) == 1 && x.U.Program[0] == 0 {
				u = x
			}
		}
		f := firstFund(p, 0)
		if u == nil || f == nil {
			return nil
		}
		return []*types.Tx{chainkit.PayTx([]*chainkit.UTXO{f.U, u.U}, chainkit.TrueProg, 1, chainkit.DefaultFee)}
	})
	txm("ledger:spend-nonexistent-output", func(p *chainkit.Blk) []*types.Tx {
		f := firstFund(p, 0)
		ghost := *f.U
		ghost.SourceID.V0 ^= 0xdead
		return []*types.Tx{chainkit.PayTx([]*chainkit.UTXO{&ghost}, chainkit.TrueProg, 1, chainkit.DefaultFee)}
	})
	txm("ledger:in-block-double-spend", func(p *chainkit.Blk) []*types.Tx {
		f := firstFund(p, 0)
		return []*types.Tx{chainkit.PayTx([]*chainkit.UTXO{f.U}, chainkit.TrueProg, 1, chainkit.DefaultFee), chainkit.PayTx([]*chainkit.UTXO{f.U}, chainkit.TrueProg, 2, chainkit.DefaultFee+1)}
	})
	txm("ledger:same-tx-twice-in-block", func(p *chainkit.Blk) []*types.Tx {
		t := simpleTx(p, 0)
		return []*types.Tx{t, t}
	})
	txm("ledger:same-output-twice-in-one-tx", func(p *chainkit.Blk) []*types.Tx {
		f := firstFund(p, 0)
		return []*types.Tx{chainkit.PayTx([]*chainkit.UTXO{f.U, f.U}, chainkit.TrueProg, 1, chainkit.DefaultFee)}
	})
	txm("ledger:cross-block-double-spend", func(p *chainkit.Blk) []*types.Tx {
		// an output spent by an ancestor block
		for a := p; a != nil && a.Parent != nil; a = a.Parent {
			for _, tx := range a.B.Transactions[1:] {
				for _, id := range tx.SpentOutputIDs {
					if u, ok := a.Parent.Utxo[id]; ok && u.U.Asset == chainkit.BTM && u.U.Amount > 10*chainkit.DefaultFee && isTrueish(u.U.Program) {
						return []*types.Tx{chainkit.PayTx([]*chainkit.UTXO{u.U}, chainkit.TrueProg, 1, chainkit.DefaultFee+7)}
					}
				}
			}
		}
		return nil
	})
	txm("ledger:spend-output-of-later-tx-in-block", func(p *chainkit.Blk) []*types.Tx {
		t1 := simpleTx(p, 0)
		t2 := chainkit.PayTx([]*chainkit.UTXO{chainkit.Outputs(t1)[0]}, chainkit.TrueProg, 1, chainkit.DefaultFee)
		return []*types.Tx{t2, t1}
	})
	txm("ledger:immature-coinbase", func(p *chainkit.Blk) []*types.Tx {
		f := firstFund(p, 0)
		for _, u := range p.SortedUtxos() {
			if u.Type == chainkit.UCoinbase && !net.Spendable(u, p.Height+1) {
				return []*types.Tx{chainkit.PayTx([]*chainkit.UTXO{f.U, u.U}, chainkit.TrueProg, 1, chainkit.DefaultFee)}
			}
		}
		return nil
	})
	txmN("ledger:locked-vote", "vote-utxo", func(p *chainkit.Blk) []*types.Tx {
		f := firstFund(p, 0)
		for _, u := range p.SortedUtxos() {
			if u.Type == chainkit.UVote && !net.Spendable(u, p.Height+1) {
				return []*types.Tx{chainkit.PayTx([]*chainkit.UTXO{f.U, u.U}, chainkit.TrueProg, 1, chainkit.DefaultFee)}
			}
		}
		return nil
	})
	// coinbase shape
	cbm := func(rule string, needs string, f func(p *chainkit.Blk, d *types.TxData)) {
		add(rule, needs, func(tr *chainkit.Tree, p *chainkit.Blk) (*chainkit.Blk, error) {
			idx := net.KeyIndex(net.ProposerAt(p, p.B.Timestamp+chainkit.Interval).PubHex)
			cb := net.CoinbaseTx(p, idx, 777000+len(tr.All), net.ExpectedCoinbase(p))
			d := cb.TxData
			f(p, &d)
			o := emptyOpt()
			o.Coinbase = chainkit.Finish(&d)
			return tr.Build(p, []*types.Tx{}, o)
		})
	}
	cbm("coinbase:extra-zero-output-off-epoch", "off-epoch", func(p *chainkit.Blk, d *types.TxData) {
		d.Outputs = append(d.Outputs, types.NewOriginalTxOutput(chainkit.BTM, 0, chainkit.TrueProg, [][]byte{}))
	})
	cbm("coinbase:nonzero-amount-off-epoch", "off-epoch", func(p *chainkit.Blk, d *types.TxData) { d.Outputs[0].Amount = 1 })
	cbm("coinbase:non-btm-output", "", func(p *chainkit.Blk, d *types.TxData) {
		d.Outputs = append(d.Outputs, types.NewOriginalTxOutput(chainkit.AssetN(1), 0, chainkit.TrueProg, [][]byte{}))
	})
	cbm("coinbase:vote-typed-output", "", func(p *chainkit.Blk, d *types.TxData) {
		d.Outputs[0] = types.NewVoteOutput(chainkit.BTM, d.Outputs[0].Amount, d.Outputs[0].ControlProgram, net.VoteKey(0), [][]byte{})
	})
	cbm("coinbase:arbitrary-oversize", "", func(p *chainkit.Blk, d *types.TxData) {
		d.Inputs[0] = types.NewCoinbaseInput(make([]byte, consensus.CoinbaseArbitrarySizeLimit+1))
	})
	cbm("coinbase:two-coinbase-inputs", "", func(p *chainkit.Blk, d *types.TxData) {
		d.Inputs = append(d.Inputs, types.NewCoinbaseInput([]byte("second")))
	})
	cbm("reward:amount+1", "reward", func(p *chainkit.Blk, d *types.TxData) { d.Outputs[len(d.Outputs)-1].Amount++ })
	cbm("reward:amount-1", "reward", func(p *chainkit.Blk, d *types.TxData) { d.Outputs[len(d.Outputs)-1].Amount-- })
	cbm("reward:missing-recipient", "reward", func(p *chainkit.Blk, d *types.TxData) {
		if len(d.Outputs) > 1 {
			d.Outputs = d.Outputs[:len(d.Outputs)-1]
		} else {
			d.Outputs[0].Amount = 0
		}
	})
	cbm("reward:extra-recipient", "reward", func(p *chainkit.Blk, d *types.TxData) {
		d.Outputs = append(d.Outputs, types.NewOriginalTxOutput(chainkit.BTM, 1, []byte{0x01, 0x99, 0x75, 0x51}, [][]byte{}))
	})
	cbm("reward:paid-to-other-program", "reward", func(p *chainkit.Blk, d *types.TxData) {
		d.Outputs[len(d.Outputs)-1].ControlProgram = []byte{0x01, 0x98, 0x75, 0x51}
	})
	add("coinbase:missing", "", func(tr *chainkit.Tree, p *chainkit.Blk) (*chainkit.Blk, error) {
		o := emptyOpt()
		o.Coinbase = simpleTx(p, 0)
		return tr.Build(p, []*types.Tx{}, o)
	})
	add("coinbase:not-first", "", func(tr *chainkit.Tree, p *chainkit.Blk) (*chainkit.Blk, error) {
		o := emptyOpt()
		o.Mutate = func(b *types.Block) { b.Transactions[0], b.Transactions[1] = b.Transactions[1], b.Transactions[0] }
		return tr.Build(p, []*types.Tx{simpleTx(p, 0)}, o)
	})
	add("block:no-transactions", "", func(tr *chainkit.Tree, p *chainkit.Blk) (*chainkit.Blk, error) {
		o := emptyOpt()
		o.Mutate = func(b *types.Block) { b.Transactions = nil }
		return tr.Build(p, []*types.Tx{}, o)
	})
	return ms
}

func errClass(err error) string {
	if err == nil {
		return "no-error"
	}
	s := err.Error()
	for _, k := range []string{"timestamp", "misordered", "mismatched block", "merkle", "signature", "version", "over the limit", "coinbase", "unbalanced", "gas", "time range", "double spend",
		"fail to find utxo", "has been spent", "not ready for use", "voting lock", "vote", "checking", "missing", "results"} {
		if strings.Contains(s, k) {
			return k
		}
	}
	if len(s) > 30 {
		s = s[:30]
	}
	return s
}

func TestC13(t *testing.T) {
	r := ev.Start(t, "C13")
	defer r.Finish()
	net := chainkit.Configure(chainkit.Params{Epoch: 4, Fed: 3, Local: -1, VotePending: 6, NKeys: 5})
	g := net.NewGenesis(60, 4)
	base, _ := os.MkdirTemp("", "c13")
	defer os.RemoveAll(base)
	ms := mutants(net)
	r.Rule("random valid chain contexts (10-26 blocks with forks, spends, votes, reward blocks); at the tip a valid candidate is the control; each of the single-rule mutants (header, proposer, transaction, ledger, coinbase shape, reward amounts, block gas) is delivered on the best tip and at the base of a side branch that is then extended past the main chain. distinct = (rule, placement, node's error class)")
	r.Assume("the harness's reference model classifies the control as valid (it must be accepted) and each mutant breaks exactly the named rule")

	// gas-heavy spend: calibrated once against the real validator
	heavyN, heavyGas := calibrateHeavy(net, g)

	r.Cases("contexts", r.N(24, 2400), func(c *ev.Case) {
		rng := c.Rand
		tr := net.NewTree(g)
		o := chainkit.DefaultGen(rng.Range(10, 26))
		o.ForkPct = 15
		o.MaxBranch = 2
		if _, err := tr.Grow(rng, o); err != nil {
			c.Violation("harness:grow", "tree generator failed", err.Error())
			return
		}
		nd, err := net.NewNode(fmt.Sprintf("%s/n%d", base, c.Index), g)
		if err != nil {
			c.Inconclusive("node: %v", err)
			return
		}
		defer nd.Destroy()
		if err := nd.Feed(tr.All[1:]...); err != nil {
			c.Violation("valid-block-rejected:context", "a valid context block was rejected", err.Error())
			return
		}
		best := tr.ByHash[nd.Best()]
		// make sure the context contains a FALSE-locked output, an immature coinbase and a locked vote when possible
		prep := chainkit.MakeTx([]*chainkit.UTXO{firstFund(best, 0).U}, []chainkit.Out{
			{Asset: chainkit.BTM, Amount: 5 * chainkit.DefaultFee, Program: []byte{0}},
			{Asset: chainkit.BTM, Amount: consensus.MinVoteOutputAmount, Program: chainkit.TrueProg, Vote: net.VoteKey(1)},
			{Asset: chainkit.BTM, Amount: firstFund(best, 0).U.Amount - 6*chainkit.DefaultFee - consensus.MinVoteOutputAmount, Program: chainkit.TrueProg}}, 0)
		pb, err := tr.Build(best, []*types.Tx{prep}, chainkit.BlockOpt{})
		if err != nil {
			c.Violation("harness:prep", "cannot build the preparation block", err.Error())
			return
		}
		if err := nd.Feed(pb); err != nil {
			c.Violation("valid-block-rejected:prep", "a valid block was rejected", err.Error())
			return
		}
		best = pb
		c.Journal(map[string]interface{}{"shape": tr.Shape()})
		c.Distinct("ctx|%s", tr.Shape())
		mainTip := best
		var storedMutants []*chainkit.Blk
		extendMain := func(n int) bool {
			for i := 0; i < n; i++ {
				nb, err := tr.Build(mainTip, []*types.Tx{simpleTx(mainTip, 2)}, chainkit.BlockOpt{})
				if err != nil {
					c.Violation("harness:extend", "cannot extend main chain", err.Error())
					return false
				}
				_, perr := nd.Chain.ProcessBlock(chainkit.CloneBlock(nb.B))
				mainTip = nb
				if perr != nil {
					// Explained only if the engine's fork choice currently is a stored block that fails the
					// ledger rules (or a descendant of one): the node keeps trying to connect that branch.
					eb := tr.ByHash[nd.Chain.VerifCasper().VerifBestChain()]
					explained := false
					for _, m := range storedMutants {
						if eb != nil && m.IsAncestorOf(eb) {
							explained = true
						}
					}
					w := map[string]interface{}{"error": perr.Error(), "height": nb.Height, "engine_best": fmt.Sprint(eb != nil), "shape": tr.Shape()}
					if explained {
						c.Violation("valid-block-refused:stored-ledger-invalid-block-is-fork-choice",
							"ProcessBlock returns an error for a valid block extending the main chain because the fork choice still selects a stored block that fails the ledger rules", w)
					} else {
						c.Violation("valid-block-refused:unexplained:"+errClass(perr), "ProcessBlock returned an error for a valid block extending the main chain", w)
						return false
					}
				}
			}
			return true
		}
		checkMutant := func(m *chainkit.Blk, rule, place string, perr error) bool {
			in := nd.Chain.InMainChain(m.Hash)
			bestNow := nd.Best()
			bb := tr.ByHash[bestNow]
			desc := bb != nil && m.IsAncestorOf(bb) && m.Hash != tr.Root.Hash
			c.Distinct("%s|%s|%s", rule, place, errClass(perr))
			c.Count("mutants_delivered", 1)
			c.Count("mutant:"+strings.SplitN(rule, ":", 2)[0], 1)
			if in || desc {
				c.Violation("invalid-block-in-main-chain:"+rule+":"+place, "a block breaking a consensus rule is on the main chain",
					map[string]interface{}{"rule": rule, "placement": place, "in_main_chain": in, "best_descends_from_it": desc, "height": m.Height, "process_error": fmt.Sprint(perr), "shape": tr.Shape()})
				return false
			}
			return true
		}
		for mi := range ms {
			m := ms[mi]
			// (a) on the best tip
			p := mainTip
			switch m.needs {
			case "reward":
				if p.Height%net.P.Epoch != 0 || len(net.ExpectedCoinbase(p)) == 0 {
					if !extendMain(int(net.P.Epoch - p.Height%net.P.Epoch)) {
						return
					}
					p = mainTip
					if nd.Best() != p.Hash {
						c.Count("main_not_best_after_extension", 1)
						continue
					}
				}
			case "vote-utxo":
				f := firstFund(p, 3)
				if f != nil {
					vt := chainkit.MakeTx([]*chainkit.UTXO{f.U}, []chainkit.Out{
						{Asset: chainkit.BTM, Amount: consensus.MinVoteOutputAmount, Program: chainkit.TrueProg, Vote: net.VoteKey(1)},
						{Asset: chainkit.BTM, Amount: f.U.Amount - chainkit.DefaultFee - consensus.MinVoteOutputAmount, Program: chainkit.TrueProg}}, 0)
					vb, err := tr.Build(p, []*types.Tx{vt}, chainkit.BlockOpt{})
					if err == nil {
						if _, err := nd.Chain.ProcessBlock(chainkit.CloneBlock(vb.B)); err == nil {
							mainTip = vb
							p = vb
						}
					}
				}
			case "off-epoch":
				if (p.Height+1)%net.P.Epoch == 1 {
					if !extendMain(1) {
						return
					}
					p = mainTip
				}
			}
			mb, err := m.build(tr, p)
			if err != nil || mb == nil {
				c.Count("mutant_not_applicable:"+m.rule, 1)
				continue
			}
			_, perr := nd.Chain.ProcessBlock(chainkit.CloneBlock(mb.B))
			if h := mb.Hash; nd.Store.BlockExist(&h) {
				storedMutants = append(storedMutants, mb)
				c.Count("mutants_stored_as_side_blocks", 1)
			}
			if !checkMutant(mb, m.rule, "tip", perr) {
				return
			}
			if perr == nil {
				c.Count("mutant_stored_without_error:"+m.rule, 1)
			}
			// the main chain must keep growing with valid blocks: extend by two so that it beats any stored invalid sibling
			if !extendMain(2) {
				return
			}
			if nd.Best() != mainTip.Hash {
				c.Violation("valid-chain-not-best-after-outgrowing-invalid-block:"+m.rule, "after the valid chain outgrew an invalid sibling by a block the best block is still not the valid tip",
					map[string]interface{}{"rule": m.rule, "best": chainkit.HashShort(nd.Best()), "want": chainkit.HashShort(mainTip.Hash), "shape": tr.Shape()})
				return
			}
			if !checkMutant(mb, m.rule, "tip-after-growth", perr) {
				return
			}
			// (b) side branch: mutant two blocks below the tip, extended to tip+1
			if c.Index%2 == 0 && m.needs == "" && mainTip.Height > 3 {
				sp := mainTip.Parent.Parent
				sb, err := m.build(tr, sp)
				if err != nil || sb == nil {
					continue
				}
				_, perr := nd.Chain.ProcessBlock(chainkit.CloneBlock(sb.B))
				if h := sb.Hash; nd.Store.BlockExist(&h) {
					storedMutants = append(storedMutants, sb)
					c.Count("mutants_stored_as_side_blocks", 1)
				}
				cur := sb
				for cur.Height <= mainTip.Height {
					nb, err := tr.Build(cur, []*types.Tx{}, chainkit.BlockOpt{NoRefCheck: true, SkipSlots: 1})
					if err != nil {
						break
					}
					nd.Chain.ProcessBlock(chainkit.CloneBlock(nb.B))
					cur = nb
				}
				c.Count("side_branches_extended_past_main", 1)
				if !checkMutant(sb, m.rule, "side-branch", perr) {
					return
				}
				if !extendMain(3) {
					return
				}
				if nd.Best() != mainTip.Hash {
					c.Violation("valid-chain-not-best-after-outgrowing-invalid-branch:"+m.rule, "the valid chain is longer than the invalid branch again but is not the best chain",
						map[string]interface{}{"rule": m.rule, "best": chainkit.HashShort(nd.Best()), "want": chainkit.HashShort(mainTip.Hash), "shape": tr.Shape()})
					return
				}
			}
		}
		// multi-block side branches: the spend rules must hold ACROSS the blocks connected by one reorganisation
		if mainTip.Height > 4 {
			fork := mainTip.Parent.Parent
			grow := func(from *chainkit.Blk) *chainkit.Blk {
				cur := from
				for cur.Height <= mainTip.Height {
					nb, err := tr.Build(cur, []*types.Tx{}, chainkit.BlockOpt{NoRefCheck: true, SkipSlots: 1})
					if err != nil {
						return cur
					}
					nd.Chain.ProcessBlock(chainkit.CloneBlock(nb.B))
					cur = nb
				}
				return cur
			}
			// A. the second block of the branch spends again what the first block of the branch spent
			if f := firstFund(fork, 4); f != nil {
				if _, still := mainTip.Utxo[f.U.ID]; still {
					s1, err1 := tr.Build(fork, []*types.Tx{chainkit.PayTx([]*chainkit.UTXO{f.U}, chainkit.TrueProg, 1, chainkit.DefaultFee)}, chainkit.BlockOpt{SkipSlots: 2})
					if err1 == nil {
						nd.Chain.ProcessBlock(chainkit.CloneBlock(s1.B))
						s2, err2 := tr.Build(s1, []*types.Tx{chainkit.PayTx([]*chainkit.UTXO{f.U}, chainkit.TrueProg, 2, chainkit.DefaultFee+3)}, chainkit.BlockOpt{NoRefCheck: true})
						if err2 == nil {
							_, perr := nd.Chain.ProcessBlock(chainkit.CloneBlock(s2.B))
							if h := s2.Hash; nd.Store.BlockExist(&h) {
								storedMutants = append(storedMutants, s2)
							}
							grow(s2)
							c.Count("side_branches_extended_past_main", 1)
							if !checkMutant(s2, "ledger:double-spend-across-blocks-of-one-side-branch", "side-branch", perr) {
								return
							}
							if !extendMain(3) {
								return
							}
						}
					}
				}
			}
			// B. a side-branch block spends an output that only exists on the branch being detached
			var only *chainkit.RefUtxo
			for _, u := range mainTip.SortedUtxos() {
				if u.Height > fork.Height && u.Type == chainkit.UNormal && u.U.Asset == chainkit.BTM && u.U.Amount > 10*chainkit.DefaultFee && isTrueish(u.U.Program) {
					only = u
					break
				}
			}
			fork = mainTip.Parent.Parent
			if only != nil && only.Height > fork.Height {
				sb, err := tr.Build(fork, []*types.Tx{chainkit.PayTx([]*chainkit.UTXO{only.U}, chainkit.TrueProg, 1, chainkit.DefaultFee)}, chainkit.BlockOpt{NoRefCheck: true, SkipSlots: 3})
				if err == nil {
					_, perr := nd.Chain.ProcessBlock(chainkit.CloneBlock(sb.B))
					if h := sb.Hash; nd.Store.BlockExist(&h) {
						storedMutants = append(storedMutants, sb)
					}
					grow(sb)
					c.Count("side_branches_extended_past_main", 1)
					if !checkMutant(sb, "ledger:spend-output-created-only-on-the-detached-branch", "side-branch", perr) {
						return
					}
					if !extendMain(3) {
						return
					}
				}
			}
			// C. orphan delivery: the double-spending child arrives before its (valid) parent, both connect in one call
			if f := firstFund(mainTip, 5); f != nil {
				p1, err1 := tr.Build(mainTip, []*types.Tx{chainkit.PayTx([]*chainkit.UTXO{f.U}, chainkit.TrueProg, 1, chainkit.DefaultFee)}, chainkit.BlockOpt{})
				if err1 == nil {
					p2, err2 := tr.Build(p1, []*types.Tx{chainkit.PayTx([]*chainkit.UTXO{f.U}, chainkit.TrueProg, 2, chainkit.DefaultFee+5)}, chainkit.BlockOpt{NoRefCheck: true})
					if err2 == nil {
						nd.Chain.ProcessBlock(chainkit.CloneBlock(p2.B)) // orphan
						_, perr := nd.Chain.ProcessBlock(chainkit.CloneBlock(p1.B))
						if h := p2.Hash; nd.Store.BlockExist(&h) {
							storedMutants = append(storedMutants, p2)
						}
						c.Count("mutant:ledger", 1)
						if !checkMutant(p2, "ledger:double-spend-in-orphan-child-connected-with-its-parent", "orphan", perr) {
							return
						}
						mainTip = p1
						if !extendMain(3) {
							return
						}
						if nd.Best() != mainTip.Hash {
							c.Violation("valid-chain-not-best-after-outgrowing-invalid-block:orphan-child", "the valid chain is not best", map[string]interface{}{"shape": tr.Shape()})
							return
						}
					}
				}
			}
		}
		// block gas limit: K heavy transactions
		if c.Index%4 == 0 && heavyGas > 0 {
			gasMutant(c, net, tr, nd, &mainTip, heavyN, heavyGas)
		}
		if c.WantSample() {
			c.Sample(map[string]interface{}{"context_shape": tr.Shape(), "mutant_rules": len(ms), "final_height": mainTip.Height})
		}
	})
	r.Floor("mutants_delivered", 500)
	r.Floor("side_branches_extended_past_main", 50)
	for _, k := range []string{"header", "proposer", "tx", "ledger", "coinbase", "reward"} {
		r.Floor("mutant:"+k, 20)
	}
	r.Floor("gas_limit_blocks", 2)
	_ = validation.ErrBadTimeRange
}

// calibrateHeavy finds a loop count whose spend uses close to the per-transaction gas cap.
func calibrateHeavy(net *chainkit.Net, g *chainkit.Genesis) (uint32, int64) {
	best, bestGas := uint32(0), int64(0)
	for _, n := range []uint32{2000, 5000, 10000, 14000, 18000, 22000, 26000, 30000} {
		lock := chainkit.MakeTx([]*chainkit.UTXO{g.Funds[0]}, []chainkit.Out{{Asset: chainkit.BTM, Amount: g.Funds[0].Amount - chainkit.DefaultFee, Program: gasLoop(n)}}, 0)
		u := chainkit.Outputs(lock)[0]
		sp := chainkit.MakeTx([]*chainkit.UTXO{u}, []chainkit.Out{{Asset: chainkit.BTM, Amount: u.Amount - 70000000, Program: chainkit.TrueProg}}, 0)
		gs, err := validation.ValidateTx(sp.Tx, types.MapBlock(&types.Block{BlockHeader: types.BlockHeader{Version: 1, Height: 5}}), func(p []byte) ([]byte, error) { return p, nil })
		if err != nil {
			break
		}
		if gs.GasUsed > bestGas {
			best, bestGas = n, gs.GasUsed
		}
	}
	return best, bestGas
}

func gasMutant(c *ev.Case, net *chainkit.Net, tr *chainkit.Tree, nd *chainkit.Node, mainTip **chainkit.Blk, n uint32, gasEach int64) {
	need := int(int64(consensus.MaxBlockGas)/gasEach) + 1
	// lock outputs under the gas loop
	var locks []*types.Tx
	p := *mainTip
	for i := 0; i < need; i++ {
		f := firstFund(p, i)
		if f == nil {
			c.Count("gas_mutant_not_enough_funds", 1)
			return
		}
		locks = append(locks, chainkit.MakeTx([]*chainkit.UTXO{f.U}, []chainkit.Out{{Asset: chainkit.BTM, Amount: f.U.Amount - chainkit.DefaultFee, Program: gasLoop(n)}}, 0))
	}
	lb, err := tr.Build(p, locks, chainkit.BlockOpt{})
	if err != nil {
		c.Violation("harness:gas-lock", "cannot build lock block", err.Error())
		return
	}
	if _, err := nd.Chain.ProcessBlock(chainkit.CloneBlock(lb.B)); err != nil {
		c.Violation("valid-block-rejected:gas-lock", "a valid block was rejected", err.Error())
		return
	}
	*mainTip = lb
	var spends []*types.Tx
	for _, l := range locks {
		u := chainkit.Outputs(l)[0]
		spends = append(spends, chainkit.MakeTx([]*chainkit.UTXO{u}, []chainkit.Out{{Asset: chainkit.BTM, Amount: u.Amount - 70000000, Program: chainkit.TrueProg}}, 0))
	}
	over, err := tr.Build(lb, spends, chainkit.BlockOpt{NoRefCheck: true})
	if err != nil {
		return
	}
	_, perr := nd.Chain.ProcessBlock(chainkit.CloneBlock(over.B))
	c.Count("gas_limit_blocks", 1)
	c.Count("mutants_delivered", 1)
	c.Distinct("block:gas-over-limit|tip|%s", errClass(perr))
	if nd.Chain.InMainChain(over.Hash) || nd.Best() == over.Hash {
		c.Violation("invalid-block-in-main-chain:block:gas-over-limit:tip", "a block whose transactions use more than the block gas limit is on the main chain",
			map[string]interface{}{"transactions": len(spends), "gas_each": gasEach, "limit": consensus.MaxBlockGas, "process_error": fmt.Sprint(perr)})
		return
	}
	// control: one transaction fewer fits
	under, err := tr.Build(lb, spends[:len(spends)-1], chainkit.BlockOpt{SkipSlots: 1})
	if err != nil {
		return
	}
	if int64(len(spends)-1)*gasEach <= int64(consensus.MaxBlockGas) {
		_, perr = nd.Chain.ProcessBlock(chainkit.CloneBlock(under.B))
		next, _ := tr.Build(under, []*types.Tx{}, chainkit.BlockOpt{})
		if next != nil {
			nd.Chain.ProcessBlock(chainkit.CloneBlock(next.B))
			if nd.Best() != next.Hash {
				c.Violation("valid-block-rejected:gas-just-under-limit", "a block just under the gas limit (and its child) did not become the best chain",
					map[string]interface{}{"transactions": len(spends) - 1, "gas_each": gasEach, "process_error": fmt.Sprint(perr)})
				return
			}
			*mainTip = next
			c.Count("gas_under_limit_controls_accepted", 1)
		}
	}
}
