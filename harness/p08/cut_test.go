package p08

import (
	"encoding/hex"
	"testing"

	"verif/internal/refvm"
	"verif/internal/refvm/vmdiff"
)

// TestCut: a program that is not bounded by its gas limit (a CHECKPREDICATE child that fails on the unpaid
// deposit of PROGRAM hands gas back, then JUMP 0) is cut by the step bound in both machines instead of hanging.
func TestCut(t *testing.T) {
	code, _ := hex.DecodeString("0001c452c0756300000000")
	s := &vmdiff.Spec{VMVersion: 1, Code: code}
	ref := refvm.Run(s.Ref(), 100000, 10)
	run := &vmdiff.RealRun{}
	vmdiff.Run(run, s.Real(vmdiff.Fresh, run), 100000, 10, nil)
	t.Logf("ref cut=%v steps=%d class=%s; real cut=%v events=%d class=%s", ref.Cut, ref.Steps, ref.Class, run.Cut, run.NEvents, run.Class)
	if ref.Cut != run.Cut || ref.Class != run.Class || ref.GasLeft != run.GasLeft {
		t.Errorf("machines disagree: ref cut=%v %s %d real cut=%v %s %d", ref.Cut, ref.Class, ref.GasLeft, run.Cut, run.Class, run.GasLeft)
	}
	// with NOPs behind the jump the loop gains gas on every turn
	code, _ = hex.DecodeString("0001c452c0756300000000" + "6161616161616161616161616161616161616161")
	s.Code = code
	ref = refvm.Run(s.Ref(), 100000, 10)
	run = &vmdiff.RealRun{}
	vmdiff.Run(run, s.Real(vmdiff.Fresh, run), 100000, 10, nil)
	t.Logf("ref cut=%v steps=%d class=%s; real cut=%v events=%d class=%s", ref.Cut, ref.Steps, ref.Class, run.Cut, run.NEvents, run.Class)
	old := refvm.MaxSteps
	refvm.MaxSteps = 500
	defer func() { refvm.MaxSteps = old }()
	ref = refvm.Run(s.Ref(), 100000, 10)
	run = &vmdiff.RealRun{}
	vmdiff.Run(run, s.Real(vmdiff.Fresh, run), 100000, 10, nil)
	if !ref.Cut || !run.Cut {
		t.Errorf("step bound did not cut: ref=%v real=%v", ref.Cut, run.Cut)
	}
}
