package p08

import (
	"testing"

	"verif/internal/ev"
	"verif/internal/refvm"
	"verif/internal/refvm/vmdiff"
)

// TestSensitivity is not part of the check: it makes the reference deliberately
// wrong in one place at a time (the mirror image of a one-line bug in the
// implementation) and requires that the quick-tier workload of the affected
// opcode (400 cases, seed 1) exposes the difference.
func TestSensitivity(t *testing.T) {
	muts := []struct {
		name string
		op   byte
	}{{"within-le", 0xa5}, {"nop-free", 0x61}, {"and-long", 0x84}, {"rshift-256", 0x99}, {"checksig-anylen", 0xac}, {"cat-swapped", 0x7e}}
	defer func() { refvm.Mutant = "" }()
	for _, m := range muts {
		refvm.Mutant = m.name
		found := 0
		for i := 0; i < 400; i++ {
			g := &gen{r: ev.NewRand(1, "C08", "op", int(m.op)+256*i)}
			oc := g.build(m.op)
			ref := refvm.Run(oc.spec.Ref(), oc.gas, keepEvents)
			run := &vmdiff.RealRun{}
			vmdiff.Run(run, oc.spec.Real(vmdiff.Fresh, run), oc.gas, keepEvents, nil)
			if vmdiff.Compare(ref, run) != nil {
				found++
			}
		}
		t.Logf("mutant %-16s exposed by %d of 400 cases", m.name, found)
		if found == 0 {
			t.Errorf("mutant %s not noticed", m.name)
		}
	}
}
