package p08

import (
	"crypto/ed25519"
	"crypto/sha256"
	"math/big"

	"verif/internal/ev"
	"verif/internal/refvm"
	"verif/internal/refvm/vmdiff"
)

// ---- numbers and the boundary pool ----

func pow2(k uint) *big.Int { return new(big.Int).Lsh(big.NewInt(1), k) }

func add(v *big.Int, d int64) *big.Int { return new(big.Int).Add(v, big.NewInt(d)) }

// le: minimal little-endian encoding, padded with zero bytes to at least n bytes.
func le(v *big.Int, n int) []byte {
	b := refvm.EncodeNum(v)
	for len(b) < n {
		b = append(b, 0)
	}
	return b
}

func small(n int) []byte { return le(big.NewInt(int64(n)), 0) }

// pool is the boundary pool of DESIGN §4 C08.
var pool [][]byte

func init() {
	z := func(n int) []byte { return make([]byte, n) }
	pool = [][]byte{
		{}, z(1), z(2), z(8), z(32), z(33), z(40), // empty, zeros, non-minimal zeros
		{1}, {1, 0}, le(big.NewInt(1), 32), le(big.NewInt(1), 33), // 1 and its non-minimal forms
		{2}, {16}, {17}, {0x80}, {0xff}, {0, 1}, // small, top bit of a byte set
		le(add(pow2(63), -1), 0), le(pow2(63), 0), le(add(pow2(63), 1), 0),
		le(add(pow2(64), -1), 0), le(pow2(64), 0), le(add(pow2(64), 1), 0), le(add(pow2(64), 2), 0),
		le(pow2(128), 0), le(pow2(254), 0), le(add(pow2(254), 1), 0),
		le(add(pow2(255), -1), 0), le(pow2(255), 0), le(add(pow2(255), 1), 0), le(add(pow2(256), -1), 0),
		le(pow2(256), 0), le(add(pow2(64), -1), 33), // 33-byte numbers
		le(add(pow2(53), 0), 0), le(add(pow2(53), -1), 0),
	}
}

type gen struct {
	r *ev.Rand
}

func (g *gen) poolItem() []byte { return append([]byte{}, pool[g.r.Intn(len(pool))]...) }

// numItem: biased to valid small numbers, then boundaries, then random valid numbers.
func (g *gen) numItem() []byte {
	switch g.r.Pick([]int{45, 35, 15, 5}) {
	case 0:
		return small(g.r.Intn(41))
	case 1:
		return g.poolItem()
	case 2:
		b := g.r.Bytes(g.r.Range(1, 32))
		if len(b) == 32 {
			b[31] &= 0x7f
		}
		return b
	}
	return g.r.Bytes(g.r.Range(0, 40))
}

func (g *gen) anyItem() []byte {
	switch g.r.Pick([]int{40, 30, 30}) {
	case 0:
		return g.r.Bytes(g.r.Range(0, 40))
	case 1:
		return g.poolItem()
	}
	return small(g.r.Intn(41))
}

func (g *gen) items(n int) [][]byte {
	out := make([][]byte, n)
	for i := range out {
		out[i] = g.anyItem()
	}
	return out
}

// ---- keys ----

type keypair struct {
	pub  ed25519.PublicKey
	priv ed25519.PrivateKey
}

var keys []keypair

func init() {
	for i := 0; i < 4; i++ {
		seed := sha256.Sum256([]byte{byte(i), 'c', '0', '8'})
		priv := ed25519.NewKeyFromSeed(seed[:])
		keys = append(keys, keypair{priv.Public().(ed25519.PublicKey), priv})
	}
}

// ---- contexts ----

func u64(v uint64) *uint64 { return &v }

func (g *gen) context(s *vmdiff.Spec) {
	r := g.r
	s.VMVersion = 1
	s.EntryID = r.Bytes(32)
	switch r.Intn(5) {
	case 0:
	case 1, 2:
		s.TxVersion = u64(1)
	default:
		s.TxVersion = u64(uint64(r.Range(2, 3)))
	}
	if r.Chance(3, 4) {
		s.BlockHeight = u64(r.U64Boundary())
	}
	if r.Chance(3, 4) {
		s.Amount = u64(r.U64Boundary())
	}
	if r.Chance(3, 4) {
		s.DestPos = u64(uint64(r.Intn(4)))
	}
	if r.Chance(3, 4) {
		s.HasAssetID, s.AssetID = true, r.Bytes(32)
	}
	if r.Chance(3, 4) {
		s.HasSpentOutputID, s.SpentOutputID = true, r.Bytes(32)
	}
	if r.Chance(3, 4) {
		s.SigHash = r.Bytes(32)
	}
	s.CheckOutput = r.Pick([]int{15, 10, 10, 15, 50})
	s.Outputs = []vmdiff.Output{
		{Amount: r.U64Boundary(), Asset: r.Bytes(32), Version: 1, Code: r.Bytes(r.Range(0, 20))},
		{Amount: uint64(r.Intn(1000)), Asset: r.Bytes(32), Version: uint64(r.Range(0, 2)), Code: []byte{0x51}},
	}
}

// ---- one opcode under test ----

type opCase struct {
	spec    vmdiff.Spec
	gas     int64  // the ample limit
	opPC    uint32 // where the opcode under test sits
	shape   string // what the generator aimed at (for samples)
	noPeak  bool   // do not derive limits from the peak (unbounded loops)
	relJump bool   // the jump target is relative to the opcode under test
}

// build makes a program whose instruction at opPC is `op`, with its stacks.
func (g *gen) build(op byte) *opCase {
	r := g.r
	c := &opCase{gas: 100000}
	s := &c.spec
	g.context(s)
	info := refvm.Info(op)

	// alt stack
	nalt := r.Pick([]int{40, 30, 20, 10})
	if op == 0x6c && r.Chance(1, 4) { // FROMALTSTACK: empty alt stack more often
		nalt = 0
	}
	s.State = g.items(nalt)

	stack, imm, suffix := g.operands(op, info, c)

	// short setup: move the top k items from the arguments into pushes of the program
	var prefix []byte
	k := 0
	if r.Chance(1, 4) && len(stack) > 0 {
		k = r.Range(1, len(stack))
	}
	s.Args = stack[:len(stack)-k]
	for _, it := range stack[len(stack)-k:] {
		prefix = append(prefix, refvm.PushData(it)...)
	}
	c.opPC = uint32(len(prefix))
	// jump targets were generated relative to a program starting with the opcode
	if c.relJump && len(imm) == 4 {
		t := uint32(imm[0]) + c.opPC
		imm = []byte{byte(t), byte(t >> 8), byte(t >> 16), 0}
	}
	s.Code = append(append(append(prefix, op), imm...), suffix...)
	// Now and then the whole program runs as the predicate of a CHECKPREDICATE over all arguments: what a
	// failing instruction leaves behind (run limit, stack) then shows in what the parent gets back.
	if !c.noPeak && r.Chance(1, 6) {
		limit := []int{0, 0, 1, 5, 12, 30, 70, 300, 1100, 5000}[r.Intn(10)]
		var p []byte
		p = append(p, refvm.PushData(nil)...) // n = 0: all items
		p = append(p, refvm.PushData(s.Code)...)
		p = append(p, refvm.PushData(small(limit))...)
		s.Code = append(p, 0xc0)
		c.shape = "as-predicate"
	}
	return c
}

func (g *gen) depthFor(min int) int {
	r := g.r
	if min > 0 && r.Chance(1, 6) {
		return r.Intn(min) // underflow
	}
	if min > 8 {
		return min
	}
	return r.Range(min, 8)
}

// operands returns the data stack (bottom first), the immediate bytes and a program suffix.
func (g *gen) operands(op byte, info *refvm.OpInfo, c *opCase) (stack [][]byte, imm, suffix []byte) {
	r := g.r
	generic := func() [][]byte {
		d := g.depthFor(info.MinStack)
		st := make([][]byte, d)
		for i := range st {
			fromTop := d - 1 - i
			isNum := false
			for _, p := range info.Numeric {
				isNum = isNum || p == fromTop
			}
			if isNum {
				st[i] = g.numItem()
			} else {
				st[i] = g.anyItem()
			}
		}
		return st
	}
	below := func(n int) [][]byte { return g.items(r.Intn(n + 1)) }

	switch {
	case op >= 0x01 && op <= 0x4b: // DATA_n
		n := int(op)
		if r.Chance(1, 8) {
			n = r.Intn(n) // truncated: malformed
		}
		return below(4), r.Bytes(n), nil
	case op == 0x4c || op == 0x4d || op == 0x4e: // PUSHDATA1/2/4
		width := map[byte]int{0x4c: 1, 0x4d: 2, 0x4e: 4}[op]
		n := r.Pick([]int{1, 1, 1, 1})
		size := []int{0, r.Range(1, 40), r.Range(41, 300), r.Range(70, 80)}[n]
		if op == 0x4c && size > 255 {
			size = 255
		}
		declared := uint64(size)
		data := r.Bytes(size)
		switch r.Intn(10) {
		case 0: // fewer bytes than declared
			if size > 0 {
				data = data[:r.Intn(size)]
			} else {
				declared = uint64(r.Range(1, 200))
			}
		case 1: // length field itself cut
			lenb := make([]byte, width)
			return below(4), lenb[:r.Intn(width)], nil
		case 2: // huge declared length
			if width == 4 {
				declared = []uint64{0xffffffff, 0xfffffffb, 0x80000000, 0x7fffffff}[r.Intn(4)]
			} else if width == 2 {
				declared = 0xffff
			}
		}
		lenb := make([]byte, width)
		for i := 0; i < width; i++ {
			lenb[i] = byte(declared >> (8 * uint(i)))
		}
		return below(4), append(lenb, data...), nil
	case op == 0x63 || op == 0x64: // JUMP, JUMPIF (targets relative to the opcode at 0; build() shifts them)
		st := below(4)
		if op == 0x64 {
			st = generic()
			if len(st) > 0 && r.Chance(1, 2) {
				st[len(st)-1] = [][]byte{{}, {0}, {1}, {0, 0, 1}, {0x80}}[r.Intn(5)]
			}
		}
		suffix = [][]byte{nil, {0x00, 0x51}, {0x51, 0x00}, {0x6a, 0x51}, {0x51}}[r.Intn(5)]
		end := 5 + len(suffix)
		switch r.Intn(10) {
		case 0: // truncated immediate
			return st, r.Bytes(r.Intn(4)), nil
		case 1: // far beyond the program
			return st, [][]byte{{0xff, 0xff, 0xff, 0xff}, {0, 0, 0, 0x80}, {0xff, 0xff, 0xff, 0x7f}, {0, 0, 1, 0}}[r.Intn(4)], suffix
		case 2: // backwards: a loop that only the run limit stops
			c.noPeak, c.gas = true, int64(r.Range(0, 1500))
			return st, []byte{0, 0, 0, 0}, suffix
		case 3: // into its own immediate
			t := r.Range(1, 4)
			c.relJump = true
			return st, []byte{byte(t), 0, 0, 0}, suffix
		}
		t := r.Range(5, end+1)
		c.relJump = true
		return st, []byte{byte(t), 0, 0, 0}, suffix
	}

	switch op {
	case 0x79, 0x7a: // PICK, ROLL
		st := generic()
		if len(st) == 0 {
			return st, nil, nil
		}
		d := len(st) - 1
		var n []byte
		switch r.Pick([]int{55, 15, 15, 15}) {
		case 0:
			n = small(r.Intn(d + 2))
		case 1: // 2^64 + k: the low 64 bits address an existing item
			n = le(add(pow2(uint(64*r.Range(1, 3))), int64(r.Intn(d+1))), 0)
		case 2:
			n = [][]byte{le(add(pow2(63), -1), 0), le(pow2(63), 0), le(add(pow2(63), int64(r.Intn(9))), 0), le(add(pow2(64), -1), 0), le(add(pow2(64), -int64(r.Range(1, 9))), 0)}[r.Intn(5)]
		default:
			n = g.numItem()
		}
		st[d] = n
		return st, nil, nil
	case 0x80, 0x81, 0x7f: // LEFT, RIGHT, SUBSTR
		st := generic()
		need := 2
		if op == 0x7f {
			need = 3
		}
		if len(st) < need || r.Chance(1, 5) {
			return st, nil, nil
		}
		d := len(st)
		str := st[d-need]
		l := len(str)
		if op != 0x7f {
			st[d-1] = small([]int{0, l - 1, l, l + 1, r.Intn(l + 2)}[r.Intn(5)] & 0xffff)
			if l == 0 && r.Bool() {
				st[d-1] = small(r.Intn(2))
			}
			return st, nil, nil
		}
		off := r.Intn(l + 2)
		size := []int{0, l - off, l - off + 1, r.Intn(l + 2)}[r.Intn(4)]
		if size < 0 {
			size = 0
		}
		st[d-2], st[d-1] = small(off), small(size)
		if r.Chance(1, 10) { // offset+size overflows 64 bits
			st[d-2], st[d-1] = le(add(pow2(63), -1), 0), le(add(pow2(63), -int64(r.Range(1, 2))), 0)
		}
		return st, nil, nil
	case 0x98, 0x99: // LSHIFT, RSHIFT
		st := generic()
		if len(st) < 2 || r.Chance(1, 5) {
			return st, nil, nil
		}
		d := len(st)
		shifts := []int{0, 1, 2, 7, 8, 63, 64, 65, 127, 128, 200, 253, 254, 255, 256, 257, 1000}
		st[d-1] = small(shifts[r.Intn(len(shifts))])
		if r.Chance(1, 8) {
			st[d-1] = [][]byte{le(pow2(63), 0), le(pow2(64), 0), le(add(pow2(255), -1), 0), le(add(pow2(64), 1), 0)}[r.Intn(4)]
		}
		if r.Chance(1, 2) {
			st[d-2] = [][]byte{{1}, {3}, le(pow2(254), 0), le(add(pow2(254), 1), 0), le(add(pow2(255), -1), 0), le(pow2(128), 0), {}, le(add(pow2(64), -1), 0)}[r.Intn(8)]
		}
		return st, nil, nil
	case 0x96, 0x97: // DIV, MOD
		st := generic()
		if len(st) >= 2 && r.Chance(1, 5) {
			st[len(st)-1] = [][]byte{{}, {0}, {0, 0, 0}, make([]byte, 32)}[r.Intn(4)]
			if r.Chance(2, 3) {
				st[len(st)-2] = small(r.Intn(1000))
			}
		}
		return st, nil, nil
	case 0x87, 0x88, 0x9c, 0x9d, 0x9e: // EQUAL, EQUALVERIFY, NUMEQUAL, NUMEQUALVERIFY, NUMNOTEQUAL
		st := generic()
		if len(st) >= 2 && r.Chance(2, 5) {
			a := st[len(st)-2]
			b := append([]byte{}, a...)
			if op >= 0x9c && len(b) < 32 && r.Bool() {
				b = append(b, 0) // the same number, not minimally encoded
			}
			st[len(st)-1] = b
		}
		return st, nil, nil
	case 0x94, 0x9f, 0xa0, 0xa1, 0xa2, 0xa3, 0xa4: // SUB, comparisons, MIN, MAX: operands equal or one apart
		st := generic()
		if len(st) >= 2 && r.Chance(2, 5) {
			if v, ok := refvm.DecodeNum(st[len(st)-2]); ok {
				st[len(st)-1] = le(add(v, int64(r.Range(-1, 1))), 0)
				if v.Sign() == 0 {
					st[len(st)-1] = small(r.Intn(2))
				}
			}
		}
		return st, nil, nil
	case 0xa5: // WITHIN: x at, just below and just above the bounds
		st := generic()
		if len(st) >= 3 && r.Chance(3, 5) {
			d := len(st)
			lo := big.NewInt(int64(r.Intn(20)))
			if r.Chance(1, 4) {
				if v, ok := refvm.DecodeNum(st[d-2]); ok {
					lo = v
				}
			}
			hi := add(lo, int64(r.Intn(4)))
			x := add([]*big.Int{lo, hi}[r.Intn(2)], int64(r.Range(-1, 1)))
			if x.Sign() < 0 {
				x = big.NewInt(0)
			}
			st[d-3], st[d-2], st[d-1] = le(x, 0), le(lo, 0), le(hi, 0)
		}
		return st, nil, nil
	case 0xac:
		return g.checksig(), nil, nil
	case 0xad:
		return g.multisig(), nil, nil
	case 0xc1:
		return g.checkoutput(c), nil, nil
	case 0xc0:
		return g.checkpredicate(), nil, nil
	}
	return generic(), nil, nil
}

func (g *gen) checksig() [][]byte {
	r := g.r
	k := keys[r.Intn(len(keys))]
	msg := r.Bytes(32)
	sig := ed25519.Sign(k.priv, msg)
	pub := []byte(k.pub)
	switch r.Pick([]int{35, 10, 10, 15, 10, 10, 10}) {
	case 1:
		pub = keys[(r.Intn(len(keys)-1)+1)%len(keys)].pub
		if string(pub) == string(k.pub) {
			pub = keys[0].pub
		}
	case 2:
		msg = r.Bytes(32)
	case 3:
		msg = r.Bytes([]int{0, 31, 33, 64}[r.Intn(4)])
	case 4:
		pub = r.Bytes([]int{0, 31, 33}[r.Intn(3)])
	case 5:
		sig = sig[:[]int{0, 63, 32}[r.Intn(3)]]
		if r.Bool() {
			sig = append(append([]byte{}, ed25519.Sign(k.priv, msg)...), 0)
		}
	case 6:
		st := g.items(r.Intn(5))
		return st
	}
	st := g.items(r.Intn(3))
	return append(st, sig, msg, pub)
}

// multisig lays out: sigs (last popped first) , msg, pubkeys, nsigs, nkeys.
func (g *gen) multisig() [][]byte {
	r := g.r
	nk := r.Intn(4)
	ns := 0
	if nk > 0 {
		ns = r.Range(1, nk)
	}
	msg := r.Bytes(32)
	// keys in the order they are taken from the stack
	order := r.Perm(len(keys))[:nk]
	var pubs, sigs [][]byte
	for _, i := range order {
		pubs = append(pubs, keys[i].pub)
	}
	// signatures by an increasing subset of the keys
	chosen := r.Perm(nk)[:ns]
	for i := 1; i < len(chosen); i++ { // sort ascending
		for j := i; j > 0 && chosen[j] < chosen[j-1]; j-- {
			chosen[j], chosen[j-1] = chosen[j-1], chosen[j]
		}
	}
	for _, i := range chosen {
		sigs = append(sigs, ed25519.Sign(keys[order[i]].priv, msg))
	}
	nkItem, nsItem := small(nk), small(ns)
	drop := 0
	switch r.Pick([]int{40, 8, 8, 8, 8, 8, 6, 6, 8}) {
	case 1: // signatures in the wrong order
		if len(sigs) >= 2 {
			sigs[0], sigs[1] = sigs[1], sigs[0]
		} else if len(sigs) == 1 {
			sigs[0] = ed25519.Sign(keys[(order[0]+1)%len(keys)].priv, msg)
		}
	case 2: // wrong message signed
		if len(sigs) > 0 {
			sigs[r.Intn(len(sigs))] = ed25519.Sign(keys[order[chosen[0]]].priv, r.Bytes(32))
		}
	case 3:
		msg = r.Bytes([]int{0, 31, 33}[r.Intn(3)])
	case 4:
		if len(pubs) > 0 {
			pubs[r.Intn(len(pubs))] = r.Bytes([]int{0, 31, 33}[r.Intn(3)])
		}
	case 5: // counts that are not acceptable
		switch r.Intn(4) {
		case 0:
			nsItem = small(nk + 1)
		case 1:
			nsItem = small(0)
			if nk == 0 {
				nkItem = small(1)
			}
		case 2:
			nkItem = [][]byte{le(pow2(53), 0), le(pow2(63), 0), le(pow2(64), 0), le(pow2(255), 0), make([]byte, 33)}[r.Intn(5)]
		default:
			nsItem = [][]byte{le(pow2(63), 0), le(pow2(255), 0), make([]byte, 33)}[r.Intn(3)]
		}
	case 6: // more keys announced than present
		nkItem = small(nk + r.Range(1, 40))
		nsItem = small(r.Range(1, nk+1))
	case 7: // items missing at the bottom
		drop = r.Range(1, 1+len(sigs)+len(pubs))
	case 8:
		return g.items(r.Intn(6))
	}
	var st [][]byte
	for i := len(sigs) - 1; i >= 0; i-- {
		st = append(st, sigs[i])
	}
	st = append(st, msg)
	for i := len(pubs) - 1; i >= 0; i-- {
		st = append(st, pubs[i])
	}
	st = append(st, nsItem, nkItem)
	if drop > 0 {
		if drop > len(st) {
			drop = len(st)
		}
		return st[drop:]
	}
	return append(g.items(r.Intn(2)), st...)
}

func (g *gen) checkoutput(c *opCase) [][]byte {
	r := g.r
	s := &c.spec
	if r.Chance(1, 8) {
		return g.items(r.Intn(6))
	}
	j := r.Intn(len(s.Outputs))
	o := s.Outputs[j]
	index, amount, asset, version, code := small(j), le(new(big.Int).SetUint64(o.Amount), 0), append([]byte{}, o.Asset...), le(new(big.Int).SetUint64(o.Version), 0), append([]byte{}, o.Code...)
	switch r.Pick([]int{30, 8, 8, 8, 8, 8, 10, 10, 5, 5}) {
	case 1:
		amount = le(new(big.Int).SetUint64(o.Amount+1), 0)
	case 2:
		asset = r.Bytes(32)
	case 3:
		version = small(int(o.Version) + 1)
	case 4:
		code = append(code, 0x51)
	case 5:
		index = small(len(s.Outputs) + r.Intn(3))
	case 6: // 2^64 + j: the low 64 bits are a valid index
		index = le(add(pow2(uint(64*r.Range(1, 3))), int64(j)), 0)
	case 7: // 2^64 + version
		version = le(add(pow2(64), int64(o.Version)), 0)
	case 8:
		amount = [][]byte{le(pow2(64), 0), le(add(pow2(64), int64(o.Amount&0xffff)), 0), le(pow2(255), 0), make([]byte, 33)}[r.Intn(4)]
	case 9:
		k := r.Intn(3)
		bad := [][]byte{le(pow2(255), 0), make([]byte, 33), le(add(pow2(256), -1), 0)}[r.Intn(3)]
		switch k {
		case 0:
			index = bad
		case 1:
			version = bad
		default:
			amount = bad
		}
	}
	if r.Chance(1, 6) {
		s.OutputState = append([][]byte{}, s.State...)
		if r.Bool() && len(s.OutputState) > 0 {
			s.OutputState[0] = append(append([]byte{}, s.OutputState[0]...), 1)
		}
	}
	return append(g.items(r.Intn(2)), index, amount, asset, version, code)
}

var predicates = [][]byte{
	{},                                   // empty program: the child's result is what it was given
	{0x51},                               // TRUE
	{0x00},                               // FALSE
	{0x6a},                               // FAIL
	{0x50},                               // expansion opcode
	{0x93},                               // ADD
	{0x76, 0x76, 0x7e},                   // DUP DUP CAT
	{0x75, 0x51},                         // DROP TRUE
	{0x6b, 0x51},                         // TOALTSTACK TRUE (leaves an alt stack item behind)
	{0x51, 0x51, 0x51},                   // three items left behind
	{0x4c},                               // malformed
	{0x00, 0x01, 0x51, 0x00, 0xc0},       // nested CHECKPREDICATE of TRUE
	{0xc4},                               // PROGRAM
	{0x74},                               // DEPTH
	{0x01, 0x20, 0x01, 0x07, 0x7e, 0x87}, // pushes, CAT, EQUAL
	{0x63, 0x00, 0x00, 0x00, 0x00},       // JUMP 0: runs until its limit is used up
}

func (g *gen) checkpredicate() [][]byte {
	r := g.r
	if r.Chance(1, 10) {
		st := g.items(r.Intn(5))
		return st
	}
	items := g.items(r.Intn(5))
	if r.Chance(1, 3) {
		for i := range items {
			items[i] = small(r.Intn(5))
		}
	}
	pi := r.Intn(len(predicates))
	pred := append([]byte{}, predicates[pi]...)
	if r.Chance(1, 10) {
		pred = g.anyItem()
		pi = -1
	}
	n := small([]int{0, 1, 2, len(items), len(items) + 1, r.Intn(len(items) + 1)}[r.Intn(6)])
	limit := small([]int{0, 1, 9, 10, 11, 50, 300, 1000, 99000, 200000}[r.Intn(10)])
	if pi == len(predicates)-1 { // the loop: only with a small explicit limit
		limit = small(r.Range(1, 400))
	}
	if r.Chance(1, 12) {
		n = [][]byte{le(pow2(63), 0), le(add(pow2(63), -1), 0), le(pow2(255), 0), make([]byte, 33)}[r.Intn(4)]
	}
	if r.Chance(1, 12) {
		limit = [][]byte{le(pow2(63), 0), le(add(pow2(63), -1), 0), le(pow2(255), 0), make([]byte, 33), le(pow2(64), 0)}[r.Intn(5)]
	}
	return append(items, n, pred, limit)
}
