// C08 — every VM opcode matches an independent reference semantics.
//
// Oracle 1: the reference interpreter verif/internal/refvm (written from the
// VM1 rules and the property statement, math/big): event stream of the step
// hook (stacks and run limit before every instruction, final stacks), error
// class and gas left must be equal.  Oracle 2: model-free cross-opcode laws on
// the implementation alone.
package p08

import (
	"bytes"
	"encoding/hex"
	"fmt"
	"testing"

	"crypto/sha256"

	"golang.org/x/crypto/ripemd160"
	"golang.org/x/crypto/sha3"

	"github.com/bytom/bytom/protocol/vm"

	"verif/internal/ev"
	"verif/internal/refvm"
	"verif/internal/refvm/vmdiff"
)

const keepEvents = 400

// maxGasLimit bounds every gas limit used (consensus.MaxGasAmount is 300000).
const maxGasLimit = 10000000

func counterName(op byte) string {
	if !refvm.Defined(op) {
		return "NOPx"
	}
	return refvm.Name(op)
}

// runBoth executes one spec at one gas limit on both machines and applies the oracle.
// It returns the reference result (nil after a violation).
func runBoth(c *ev.Case, s *vmdiff.Spec, gas int64, group string) *refvm.Result {
	ref := refvm.Run(s.Ref(), gas, keepEvents)
	run := &vmdiff.RealRun{}
	if bytes.IndexByte(s.Code, 0xad) >= 0 {
		// the only instruction that allocates from an operand (room for n keys once 1024*n gas is paid):
		// leave a trace in case the process is killed.  Journalling every run would dominate the cost.
		c.Journal(map[string]interface{}{"program": hex.EncodeToString(s.Code), "args": vmdiff.Hex(s.Args), "gas": gas})
	}
	vmdiff.Run(run, s.Real(vmdiff.Fresh, run), gas, keepEvents, nil)
	c.Eval(1)
	c.Count("runs", 1)
	c.Count("steps_observed", int64(run.NEvents))
	if ref.Cut || run.Cut {
		// not bounded by the gas limit (gas handed back by a failing CHECKPREDICATE child: property C07); no verdict here
		c.Count("cut_after_max_steps", 1)
		return nil
	}

	if run.TrueConstHit {
		key, what := run.TrueConstKey()
		c.Violation(key, what, map[string]interface{}{"program": hex.EncodeToString(s.Code), "args": vmdiff.Hex(s.Args), "state": vmdiff.Hex(s.State),
			"noticed_at_event": run.TrueConstAt, "true_is_now": fmt.Sprintf("%02x", run.TrueConstVal)})
		return nil
	}
	// model-free observation: what the CHECKOUTPUT callback received is what stood on the stack
	for _, call := range run.Calls {
		for _, p := range []struct {
			operand []byte
			got     uint64
			what    string
		}{{call.IndexOperand, call.Index, "index"}, {call.VersionOperand, call.Version, "vm version"}} {
			if p.operand == nil || len(p.operand) > 32 {
				continue
			}
			if v := vmdiff.LE(p.operand); !v.IsUint64() || v.Uint64() != p.got {
				c.Violation("CHECKOUTPUT:operand>=2^64-truncated",
					"CHECKOUTPUT handed the transaction callback a "+p.what+" different from its operand (only the low 64 bits are used)",
					map[string]interface{}{"program": hex.EncodeToString(s.Code), "args": vmdiff.Hex(s.Args), "operand": hex.EncodeToString(p.operand),
						"operand_value": v.String(), "callback_got": p.got, "which": p.what})
				return nil
			}
		}
	}
	if m := vmdiff.Compare(ref, run); m != nil {
		if m.ClassOnlyPositionTolerated() {
			// both machines reject a PICK/ROLL position of 2^63 or more with the same gas; whether that is
			// called a bad value or an underflow is not fixed by the documentation
			c.Count("tolerated:PICK/ROLL-position>=2^63-badvalue-vs-underflow", 1)
			return nil
		}
		key, what := m.KeyWithHistory(ref.Events)
		c.Violation(key, what, m.Witness(s, gas))
		c.Count("mismatching_runs", 1)
		return nil
	}
	c.Count("outcome:"+string(ref.Class), 1)
	for _, x := range ref.Executed {
		name := counterName(x.Op)
		c.Count(name+":"+string(x.Class), 1)
		c.Distinct("%s %s %s", refvm.Name(x.Op), x.Class, vmdiff.OperandClass(x.Top, x.Has))
	}
	c.Max("max_depth", int64(maxDepth(ref)))
	return ref
}

func maxDepth(r *refvm.Result) int {
	d := 0
	for _, x := range r.Executed {
		if x.Depth > d {
			d = x.Depth
		}
	}
	return d
}

func TestC08(t *testing.T) {
	r := ev.Start(t, "C08")
	defer r.Finish()
	r.Rule("group op: for each of the 256 opcode bytes N cases: a program consisting of the opcode (with immediates, with probability 1/4 preceded by pushes of its top operands), " +
		"data stack of 0-8 items of 0-40 bytes from the boundary pool (empty, zeros, non-minimal encodings, 1, 2^53, 2^63±1, 2^64±1, 2^254, 2^255-1, 2^255, 2^256-1, 33-byte numbers) / small numbers / random bytes, " +
		"operand shapes specific to the opcode (stack positions, splice bounds, shift amounts, real ed25519 keys and signatures, CHECKOUTPUT tuples, predicates), alt stack of 0-3 items, " +
		"context with each optional field present with probability 3/4, tx version nil/1/other, CHECKOUTPUT callback nil/true/false/error/matching; each case runs at an ample gas limit and at need-1, need, need+1. " +
		"group seq: random programs of 2-10 instructions. group laws: cross-opcode identities on the implementation alone. " +
		"distinct = (opcode, outcome class of the instruction, boundary class of its top operand)")
	r.Assume("the reference interpreter refvm encodes the documented VM1 semantics; math/big, crypto/ed25519, crypto/sha256, x/crypto sha3 and ripemd160 are correct")
	r.Assume("where the documentation is silent the reference was calibrated to the implementation: order of charge/pop/check inside an instruction (error class precedence, gas at the point of failure), " +
		"immediate vs end-of-instruction settlement of memory deposits, LSHIFT as a 256-bit logical shift, HASH160 = RIPEMD-160, predicates run with expansion opcodes allowed, positions and sizes must fit int64")

	// the shortest programs for the deviations this monitor is known to meet: always run, and run first, so
	// that such a defect is reported under the same key and with a minimal witness at every seed
	r.Cases("idioms", len(idioms), func(c *ev.Case) {
		it := idioms[c.Index]
		code, err := vm.Assemble(it.asm)
		if err != nil {
			c.Inconclusive("idiom %q does not assemble: %v", it.asm, err)
			return
		}
		s := &vmdiff.Spec{VMVersion: 1, Code: code, Args: [][]byte{{0xb1, 0xb2, 0xb3, 0xb4, 0xb5}, {0xc1}}}
		if it.output {
			s.CheckOutput, s.Outputs = vmdiff.COMatch, []vmdiff.Output{{Amount: 5, Asset: bytes.Repeat([]byte{0x11}, 32), Version: 1, Code: []byte{0x51}}}
		}
		c.Count("idioms", 1)
		runBoth(c, s, 100000, "idioms")
	})

	perOp := r.N(400, 10000)
	r.Cases("op", 256*perOp, func(c *ev.Case) {
		op := byte(c.Index % 256)
		g := &gen{r: c.Rand}
		oc := g.build(op)
		s := &oc.spec
		ample := runBoth(c, s, oc.gas, "op")
		if ample == nil {
			return
		}
		if oc.shape == "as-predicate" {
			c.Count("opcode_run_as_predicate", 1)
		}
		if c.WantSample() && c.Index%37 == 0 {
			c.Sample(map[string]interface{}{"opcode": refvm.Name(op), "program": hex.EncodeToString(s.Code), "args": vmdiff.Hex(s.Args), "alt": vmdiff.Hex(s.State),
				"class": ample.Class, "gas_left": ample.GasLeft, "gas_limit": oc.gas, "final_stack": vmdiff.Hex(ample.DataStack)})
		}
		if oc.noPeak {
			return
		}
		// gas limits around the exact need of this path
		for _, lim := range []int64{ample.Peak - 1, ample.Peak, ample.Peak + 1} {
			// limits far above anything a transaction can have are not run: with a limit of 1024*n
			// CHECKMULTISIG pre-allocates room for n keys (n up to 2^53) before looking at the stack
			if lim < 0 || lim == oc.gas || lim > maxGasLimit {
				continue
			}
			res := runBoth(c, s, lim, "op")
			if res == nil {
				return
			}
			if lim == ample.Peak-1 && res.Class == refvm.RunLimit {
				c.Count("limit_need-1_runlimit", 1)
			}
			if lim == ample.Peak && ample.Class != refvm.RunLimit && res.Class == ample.Class {
				c.Count("limit_need_same_outcome", 1)
			}
		}
	})

	r.Cases("seq", r.N(20000, 500000), func(c *ev.Case) {
		g := &gen{r: c.Rand}
		s := g.sequence()
		gas := int64(c.Rand.Range(0, 3000))
		if c.Rand.Chance(1, 4) {
			gas = 8000
		}
		res := runBoth(c, s, gas, "seq")
		if res != nil && c.WantSample() && c.Index%101 == 0 {
			c.Sample(map[string]interface{}{"program": hex.EncodeToString(s.Code), "args": vmdiff.Hex(s.Args), "class": res.Class, "gas_left": res.GasLeft, "steps": res.Steps})
		}
	})

	r.Cases("vmversion", 64, func(c *ev.Case) {
		g := &gen{r: c.Rand}
		oc := g.build(0x51)
		oc.spec.VMVersion = []uint64{0, 2, 3, 1 << 63, ^uint64(0)}[c.Rand.Intn(5)]
		if res := runBoth(c, &oc.spec, int64(c.Rand.Intn(1000)), "vmversion"); res != nil && res.Class == refvm.UnsupportedVM {
			c.Count("unsupported_vm_seen", 1)
		}
	})

	r.Cases("laws", r.N(30000, 500000), func(c *ev.Case) { lawCase(c) })

	// floors: every defined opcode with a success and with each reachable error class
	for op := 0; op < 256; op++ {
		info := refvm.Info(byte(op))
		if !info.Defined {
			continue
		}
		if info.CanSucceed {
			r.Floor(info.Name+":"+string(refvm.OK), 1)
		}
		for _, cl := range info.Reach {
			r.Floor(info.Name+":"+string(cl), 1)
		}
	}
	for _, cl := range []refvm.Class{refvm.OK, refvm.Disallowed, refvm.RunLimit} {
		r.Floor("NOPx:"+string(cl), 100)
	}
	r.Floor("idioms", int64(len(idioms)))
	r.Floor("opcode_run_as_predicate", 1000)
	r.Floor("unsupported_vm_seen", 10)
	r.Floor("laws_checked", 1000)
	r.Floor("limit_need-1_runlimit", 1000)
	r.Floor("limit_need_same_outcome", 1000)
}

var idioms = []struct {
	asm    string
	output bool // needs a CHECKOUTPUT callback
}{
	{asm: "0xa1a2a3a4 DUP 1 LEFT 0xffff CAT"},
	{asm: "0xa1a2a3a4 DUP 1 LEFT 0xffff CATPUSHDATA"},
	{asm: "1 1 EQUAL 0 LEFT 0x07 CAT 1 1 EQUAL"},
	{asm: "1 1 EQUAL 0 LEFT 0 CATPUSHDATA DROP 1 1 EQUAL"},
	{asm: "0x000000000000000001 PICK"},   // 2^64: acts as 0 PICK
	{asm: "0x010000000000000001 ROLL"},   // 2^64+1: acts as 1 ROLL
	{asm: "0x0000000000000080 PICK"},     // 2^63
	{asm: "0xffffffffffffffffff00 PICK"}, // 2^72-1: low 64 bits all ones
	{asm: "0x000000000000000001 5 0x1111111111111111111111111111111111111111111111111111111111111111 1 0x51 CHECKOUTPUT", output: true}, // index 2^64
	{asm: "0 5 0x1111111111111111111111111111111111111111111111111111111111111111 0x010000000000000001 0x51 CHECKOUTPUT", output: true}, // version 2^64+1
}

// ---- random instruction sequences ----

var seqOps []byte

func init() {
	for op := 0; op < 256; op++ {
		if refvm.Defined(byte(op)) && !(op >= 1 && op <= 0x4e) && !(op >= 0x51 && op <= 0x60) && op != 0 {
			seqOps = append(seqOps, byte(op))
		}
	}
}

func (g *gen) sequence() *vmdiff.Spec {
	r := g.r
	s := &vmdiff.Spec{}
	g.context(s)
	s.State = g.items(r.Intn(3))
	s.Args = make([][]byte, r.Intn(6))
	for i := range s.Args {
		s.Args[i] = g.seqItem()
	}
	n := r.Range(2, 10)
	var prog []byte
	for i := 0; i < n; i++ {
		switch r.Pick([]int{35, 55, 5, 5}) {
		case 0:
			prog = append(prog, refvm.PushData(g.seqItem())...)
		case 1:
			op := seqOps[r.Intn(len(seqOps))]
			prog = append(prog, op)
			if op == 0x63 || op == 0x64 {
				t := r.Intn(len(prog) + 12)
				prog = append(prog, byte(t), 0, 0, 0)
			}
		case 2:
			prog = append(prog, byte(0x51+r.Intn(16)))
		default:
			prog = append(prog, byte(r.Intn(256)))
		}
	}
	s.Code = prog
	return s
}

// seqItem: mostly small numbers so that sequences of numeric and splice opcodes succeed.
func (g *gen) seqItem() []byte {
	switch g.r.Pick([]int{50, 25, 25}) {
	case 0:
		return small(g.r.Intn(12))
	case 1:
		return g.r.Bytes(g.r.Range(0, 12))
	}
	return g.anyItem()
}

// ---- model-free laws ----

type law struct {
	name  string
	a, b  string // two programs (assembly); both run on the same arguments
	nargs int
	kind  string // "num", "bytes" or "splice" operands
}

// noUnder: with fewer operands than nargs the two sides are not equivalent (one side is the identity)
var noUnder = map[string]bool{"SWAP SWAP = id": true, "ROT ROT ROT = id": true, "2SWAP 2SWAP = id": true, "2ROT 2ROT 2ROT = id": true,
	"DUP DROP = id": true, "TOALTSTACK FROMALTSTACK = id": true, "INVERT INVERT = id": true, "CAT then LEFT gives the first part": true,
	"whole LEFT = id": true, "whole RIGHT = id": true}

var laws = []law{
	{"2MUL = DUP ADD", "2MUL", "DUP ADD", 1, "num"},
	{"2MUL = 1 LSHIFT", "2MUL", "1 LSHIFT", 1, "num"},
	{"2DIV = 1 RSHIFT", "2DIV", "1 RSHIFT", 1, "num"},
	{"2DIV = 2 DIV", "2DIV", "2 DIV", 1, "num"},
	{"1ADD = 1 ADD", "1ADD", "1 ADD", 1, "num"},
	{"1SUB = 1 SUB", "1SUB", "1 SUB", 1, "num"},
	{"ADD commutes", "ADD", "SWAP ADD", 2, "num"},
	{"MUL commutes", "MUL", "SWAP MUL", 2, "num"},
	{"MIN commutes", "MIN", "SWAP MIN", 2, "num"},
	{"MAX commutes", "MAX", "SWAP MAX", 2, "num"},
	{"LESSTHAN = SWAP GREATERTHAN", "LESSTHAN", "SWAP GREATERTHAN", 2, "num"},
	{"LESSTHANOREQUAL = GREATERTHAN NOT", "LESSTHANOREQUAL", "GREATERTHAN NOT", 2, "num"},
	{"GREATERTHANOREQUAL = LESSTHAN NOT", "GREATERTHANOREQUAL", "LESSTHAN NOT", 2, "num"},
	{"NUMNOTEQUAL = NUMEQUAL NOT", "NUMNOTEQUAL", "NUMEQUAL NOT", 2, "num"},
	{"NOT = 0 NUMEQUAL", "NOT", "0 NUMEQUAL", 1, "num"},
	{"0NOTEQUAL = NOT NOT", "0NOTEQUAL", "NOT NOT", 1, "num"},
	{"WITHIN = range test", "WITHIN", "2 PICK GREATERTHAN TOALTSTACK GREATERTHANOREQUAL FROMALTSTACK BOOLAND", 3, "num"},
	{"MUL by 2 = 2MUL", "2 MUL", "2MUL", 1, "num"},
	{"SWAP SWAP = id", "SWAP SWAP", "NOP", 2, "bytes"},
	{"ROT ROT ROT = id", "ROT ROT ROT", "NOP", 3, "bytes"},
	{"2SWAP 2SWAP = id", "2SWAP 2SWAP", "NOP", 4, "bytes"},
	{"2ROT 2ROT 2ROT = id", "2ROT 2ROT 2ROT", "NOP", 6, "bytes"},
	{"DUP DROP = id", "DUP DROP", "NOP", 1, "bytes"},
	{"TOALTSTACK FROMALTSTACK = id", "TOALTSTACK FROMALTSTACK", "NOP", 1, "bytes"},
	{"TUCK = SWAP OVER", "TUCK", "SWAP OVER", 2, "bytes"},
	{"NIP = SWAP DROP", "NIP", "SWAP DROP", 2, "bytes"},
	{"OVER = 1 PICK", "OVER", "1 PICK", 2, "bytes"},
	{"DUP = 0 PICK", "DUP", "0 PICK", 1, "bytes"},
	{"SWAP = 1 ROLL", "SWAP", "1 ROLL", 2, "bytes"},
	{"ROT = 2 ROLL", "ROT", "2 ROLL", 3, "bytes"},
	{"2DUP = OVER OVER", "2DUP", "OVER OVER", 2, "bytes"},
	{"3DUP = 2 PICK x3", "3DUP", "2 PICK 2 PICK 2 PICK", 3, "bytes"},
	{"2OVER = 3 PICK 3 PICK", "2OVER", "3 PICK 3 PICK", 4, "bytes"},
	{"2DROP = DROP DROP", "2DROP", "DROP DROP", 2, "bytes"},
	{"2SWAP = 3 ROLL 3 ROLL", "2SWAP", "3 ROLL 3 ROLL", 4, "bytes"},
	{"2ROT = 5 ROLL 5 ROLL", "2ROT", "5 ROLL 5 ROLL", 6, "bytes"},
	{"INVERT INVERT = id", "INVERT INVERT", "NOP", 1, "bytes"},
	{"x x XOR = x x AND INVERT .. zeros", "DUP XOR", "DUP DUP INVERT AND NIP", 1, "bytes"},
	{"AND commutes", "AND", "SWAP AND", 2, "bytes"},
	{"OR commutes", "OR", "SWAP OR", 2, "bytes"},
	{"XOR commutes", "XOR", "SWAP XOR", 2, "bytes"},
	{"EQUAL reflexive", "DUP EQUAL", "DROP 1", 1, "bytes"},
	{"EQUALVERIFY = EQUAL VERIFY", "EQUALVERIFY 1", "EQUAL VERIFY 1", 2, "bytes"},
	{"NUMEQUALVERIFY = NUMEQUAL VERIFY", "NUMEQUALVERIFY 1", "NUMEQUAL VERIFY 1", 2, "num"},
	{"CAT then LEFT gives the first part", "OVER SIZE NIP TOALTSTACK CAT FROMALTSTACK LEFT", "DROP", 2, "bytes"},
	{"CAT then RIGHT gives the second part", "DUP SIZE NIP TOALTSTACK CAT FROMALTSTACK RIGHT", "NIP", 2, "bytes"},
	{"SIZE of CAT = sum of sizes", "CAT SIZE NIP", "SIZE NIP SWAP SIZE NIP ADD", 2, "bytes"},
	{"LEFT = 0 n SUBSTR", "LEFT", "0 SWAP SUBSTR", 2, "splice"},
	{"whole LEFT = id", "SIZE LEFT", "NOP", 1, "bytes"},
	{"whole RIGHT = id", "SIZE RIGHT", "NOP", 1, "bytes"},
	{"BOOLAND commutes", "BOOLAND", "SWAP BOOLAND", 2, "bytes"},
	{"BOOLOR commutes", "BOOLOR", "SWAP BOOLOR", 2, "bytes"},
}

var lawProgs [][2][]byte

func init() {
	for _, l := range laws {
		a, errA := vm.Assemble(l.a)
		b, errB := vm.Assemble(l.b)
		if errA != nil || errB != nil {
			panic(fmt.Sprintf("law %q does not assemble: %v %v", l.name, errA, errB))
		}
		lawProgs = append(lawProgs, [2][]byte{a, b})
	}
}

type lawRun struct {
	ok    bool // the program ran to its end
	class refvm.Class
	stack [][]byte
	alt   [][]byte
}

func runLaw(c *ev.Case, prog []byte, args [][]byte) lawRun {
	s := &vmdiff.Spec{VMVersion: 1, Code: prog, Args: args}
	run := &vmdiff.RealRun{}
	vmdiff.Run(run, s.Real(vmdiff.Fresh, run), 1000000, 0, nil)
	c.Eval(1)
	out := lawRun{class: run.Class}
	if run.Cut {
		return out
	}
	if last := run.Last(); last != nil && last.End && last.Depth == 0 {
		out.ok, out.stack, out.alt = true, last.DataStack, last.AltStack
	}
	return out
}

func lawCase(c *ev.Case) {
	g := &gen{r: c.Rand}
	li := c.Index % (len(laws) + 3)
	if li >= len(laws) {
		hashLaw(c, g, li-len(laws))
		return
	}
	l := laws[li]
	args := make([][]byte, l.nargs+c.Rand.Intn(2))
	for i := range args {
		switch l.kind {
		case "num":
			args[i] = g.numItem()
		case "splice":
			args[i] = g.anyItem()
		default:
			args[i] = g.anyItem()
		}
	}
	if l.kind == "splice" {
		args[len(args)-1] = small(c.Rand.Intn(len(args[len(args)-2]) + 2))
	}
	if !noUnder[l.name] && c.Rand.Chance(1, 10) && len(args) > 0 { // too few operands: both sides must fail
		args = args[:c.Rand.Intn(l.nargs)]
	}
	a := runLaw(c, lawProgs[li][0], args)
	b := runLaw(c, lawProgs[li][1], args)
	c.Count("laws_checked", 1)
	same := a.ok == b.ok
	if a.ok && b.ok {
		same = sameStacks(a.stack, b.stack) && sameStacks(a.alt, b.alt)
		c.Count("laws_both_succeed", 1)
	} else if same {
		c.Count("laws_both_fail", 1)
	}
	c.Distinct("law %s %v", l.name, a.ok)
	if !same {
		c.Violation("law:"+l.name, "two programs that the documented semantics make equivalent behave differently on the implementation",
			map[string]interface{}{"law": l.name, "program_a": l.a, "program_b": l.b, "args": vmdiff.Hex(args),
				"a": fmt.Sprintf("ran_to_end=%v class=%s stack=%s", a.ok, a.class, vmdiff.Hex(a.stack)),
				"b": fmt.Sprintf("ran_to_end=%v class=%s stack=%s", b.ok, b.class, vmdiff.Hex(b.stack))})
	}
}

func sameStacks(a, b [][]byte) bool {
	if len(a) != len(b) {
		return false
	}
	for i := range a {
		if string(a[i]) != string(b[i]) {
			return false
		}
	}
	return true
}

// hashLaw: the hash opcodes against the standard library.
func hashLaw(c *ev.Case, g *gen, which int) {
	x := c.Rand.Bytes([]int{0, 1, 31, 32, 55, 56, 63, 64, 65, 119, 120, 135, 136, 137, c.Rand.Intn(400)}[c.Rand.Intn(15)])
	var prog, want []byte
	var name string
	switch which {
	case 0:
		h := sha256.Sum256(x)
		name, prog, want = "SHA256", []byte{0xa8}, h[:]
	case 1:
		h := sha3.Sum256(x)
		name, prog, want = "SHA3", []byte{0xaa}, h[:]
	default:
		h := ripemd160.New()
		h.Write(x)
		name, prog, want = "HASH160", []byte{0xab}, h.Sum(nil)
	}
	res := runLaw(c, prog, [][]byte{x})
	c.Count("laws_checked", 1)
	c.Count("hash_laws_checked", 1)
	c.Distinct("law %s len%d", name, len(x)/64)
	if !res.ok || len(res.stack) != 1 || string(res.stack[0]) != string(want) {
		c.Violation("law:"+name+"=stdlib", name+" does not push the standard digest of its operand",
			map[string]interface{}{"input": hex.EncodeToString(x), "want": hex.EncodeToString(want), "got": vmdiff.Hex(res.stack), "class": res.class})
	}
}
