// Sequential histories: adaptive generation, exact agreement with the set
// model after every operation, shrinking of the first witness of a key.
package p26

import (
	"bytes"
	"fmt"
	"sort"
	"strings"

	"verif/internal/ev"
)

const tagOverlap = ":confirmed+unconfirmed"
const tagWrap = ":uint64-wrap"

type violAt struct {
	key, what string
	at        int // index into the executed op list
	detail    string
}

type seqRun struct {
	w       *world
	sy      *sys
	s       mstate
	empties map[uint64]int64 // live reservations holding nothing (amount 0)
	ridOf   map[int]uint64   // op seq -> reservation id it created
	dead    []uint64
	ops     []*op
	lines   []string
	viol    []violAt
	stopped bool
	sk      sink // nil when replaying for the shrinker
}

func newSeqRun(w *world, sy *sys, sk sink) *seqRun {
	return &seqRun{w: w, sy: sy, s: w.init, empties: map[uint64]int64{}, ridOf: map[int]uint64{}, sk: sk}
}

func (sr *seqRun) count(name string, n int64) {
	if sr.sk != nil {
		sr.sk.Count(name, n)
	}
}

func (sr *seqRun) liveRids() []uint64 {
	m := map[uint64]bool{}
	for _, r := range sr.s.held {
		if r != 0 {
			m[r] = true
		}
	}
	for r := range sr.empties {
		m[r] = true
	}
	var l []uint64
	for r := range m {
		l = append(l, r)
	}
	sort.Slice(l, func(i, j int) bool { return l[i] < l[j] })
	return l
}

func (sr *seqRun) violate(key, what, detail string) {
	sr.viol = append(sr.viol, violAt{key: key, what: what, at: len(sr.ops) - 1, detail: detail})
}

// checkFields: every returned output must carry the attributes of the wallet's
// output with that id (account, asset, vote key, amount, maturity height).
func checkFields(w *world, r *result) string {
	for k, u := range r.utxos {
		i := r.outs[k]
		if i < 0 {
			continue
		}
		p := &w.specs[i].utxo
		if u.AccountID != p.AccountID || u.AssetID != p.AssetID || !bytes.Equal(u.Vote, p.Vote) || u.Amount != p.Amount || u.ValidHeight != p.ValidHeight {
			return fmt.Sprintf("returned u%d as %s/%x/vote=%x amount=%d validHeight=%d, the wallet's output is %s/%x/vote=%x amount=%d validHeight=%d",
				i, u.AccountID, u.AssetID.Bytes()[:4], u.Vote, u.Amount, u.ValidHeight, p.AccountID, p.AssetID.Bytes()[:4], p.Vote, p.Amount, p.ValidHeight)
		}
	}
	return ""
}

// apply executes one concrete operation on the real keeper and checks it.
func (sr *seqRun) apply(o *op) {
	w := sr.w
	if o.kind == opCancel && o.ref >= 0 {
		o.rid = sr.ridOf[o.ref]
		if o.rid == 0 {
			o.rid = 1 << 40 // the creating op was shrunk away or failed: cancel nothing
		}
	}
	sr.ops = append(sr.ops, o)
	before := sr.s
	tag := ""
	var f funds
	if o.kind == opReserve {
		f = w.funds(&before, o)
		if w.overlapCandidate(&before, o) {
			tag = tagOverlap
			sr.count("seq_reserve_with_overlap_candidate", 1)
		} else if f.wraps() {
			tag = tagWrap
			sr.count("seq_reserve_with_wrapping_sums", 1)
		}
	}
	if o.kind == opReserve && o.amount == 0 {
		sr.count("seq_reserve_amount0_requests", 1)
	}
	liveBefore := len(sr.liveRids())
	r := sr.sy.exec(w, o)
	sr.lines = append(sr.lines, w.opString(o)+" -> "+w.resString(o, r))
	ns, v := w.step(before, o, r)
	name := strings.ToLower(o.kind.String())

	switch {
	case r.err == "panic":
		key := fmt.Sprintf("panic:%s:%s", name, r.panicSite)
		if o.kind == opReserve && o.amount == 0 {
			key = "reserve:panic:amount=0"
		}
		sr.violate(key, "the keeper panicked: "+r.errMsg, r.panicSite)
		ns = before // the panic happens before any table is modified; the snapshot below checks it
	case !v.ok && o.kind == opReserve && tag != "":
		// Which defect?  The request saw an output stored both confirmed and
		// unconfirmed: if the diagnostic model of exactly that defect (the output
		// counted as two) accepts what the keeper did, the refutation gets the
		// key of that defect and the model adopts the keeper's state, so the
		// rest of the history is still checked.  Otherwise it is something else.
		// (Wrapping sums: only in the huge-amount group, which has no overlap.)
		var tv verdict
		tns := before
		if tag == tagOverlap {
			dw := *w
			dw.doubleCount = true
			tns, tv = dw.step(before, o, r)
		}
		switch {
		case tag == tagOverlap && tv.ok:
			key, what := "reserve:miscounted-funds"+tag, "Reserve saw an output that is stored both confirmed and unconfirmed as two outputs: wrong outcome class"
			if v.reason == "duplicate-output" {
				key, what = "reserve:duplicate-output"+tag, "Reserve saw an output that is stored both confirmed and unconfirmed as two outputs: the reservation holds it twice (its amount is counted twice)"
			}
			sr.violate(key, what, "Reserve: "+v.reason+" ("+v.detail+")")
			ns = tns
		case tag == tagWrap && r.err != "":
			sr.violate("reserve:miscounted-funds"+tag, "Reserve's uint64 sums of free/reserved/immature amounts wrapped: wrong outcome class", "Reserve: "+v.reason+" ("+v.detail+")")
			ns = before
		default:
			sr.violate(name+":"+v.reason, o.kind.String()+": "+v.reason+" ("+v.detail+")", v.detail)
			sr.stopped = true
		}
	case !v.ok:
		sr.violate(name+":"+v.reason, o.kind.String()+": "+v.reason+" ("+v.detail+")", v.detail)
		sr.stopped = true
	}
	if (o.kind == opReserve || o.kind == opParticular) && r.err == "" {
		if msg := checkFields(w, r); msg != "" {
			sr.violate(name+":output-attributes-differ", msg, msg)
		}
		if !r.expiry.Equal(tick(o.exp)) {
			sr.violate(name+":expiry-differs", "reservation expiry differs from the requested one", r.expiry.String())
		}
		sr.ridOf[o.seq] = r.rid
		if len(r.outs) == 0 {
			sr.empties[r.rid] = o.exp
		}
	}
	switch o.kind {
	case opCancel:
		delete(sr.empties, o.rid)
	case opExpire:
		for rid, e := range sr.empties {
			if e < o.t {
				delete(sr.empties, rid)
			}
		}
	}
	sr.s = ns
	if sr.stopped {
		return
	}

	// exact agreement of the keeper's tables with the model after every operation
	sv := w.view(sr.sy.k.Snapshot())
	what := ""
	switch {
	case len(sv.problems) > 0:
		what = problemKey(sv.problems[0])
	case sv.held != ns.held:
		what = "held-outputs-differ-from-model"
	case sv.exp != ns.exp:
		what = "expiry-differs-from-model"
	case sv.unc != ns.unc:
		what = "unconfirmed-differs-from-model"
	default:
		live := sr.liveRids()
		if len(live) != len(sv.rids) {
			what = "live-reservations-differ-from-model"
		}
		for _, rid := range live {
			if _, ok := sv.rids[rid]; !ok {
				what = "live-reservations-differ-from-model"
			}
		}
	}
	if what != "" {
		sr.violate("snapshot:"+what+":after-"+name, "after "+o.kind.String()+" the keeper's tables are not what the operations imply: "+what,
			fmt.Sprintf("keeper held=%v exp=%v unc=%b rids=%v problems=%v; model held=%v exp=%v unc=%b live=%v", sv.held, sv.exp, sv.unc, sv.rids, sv.problems, ns.held, ns.exp, ns.unc, sr.liveRids()))
		sr.stopped = true
		return
	}

	// what was observed
	if sr.sk == nil {
		return
	}
	outcome := r.err
	if outcome == "" {
		outcome = "ok"
	}
	sr.sk.Count("seq_ops", 1)
	sr.sk.Count("seq_"+name+"_"+outcome, 1)
	extra := ""
	switch o.kind {
	case opReserve:
		if r.err == "" {
			fromPool, nsel := false, len(r.outs)
			for _, i := range r.outs {
				if i >= 0 && !bit(before.db, i) {
					fromPool = true
				}
			}
			if nsel > 1 {
				sr.sk.Count("seq_reserve_multi_output", 1)
			}
			if nsel > 3 {
				nsel = 3
			}
			if fromPool {
				sr.sk.Count("seq_reserve_used_pool_output", 1)
			}
			if o.vote == 1 && nsel > 0 {
				sr.sk.Count("seq_reserve_ok_vote_outputs", 1)
			}
			// the largest free output was passed over for smaller ones (optUTXOs' replacement path)
			var maxFree, maxSel uint64
			for _, i := range w.candidates(&before, o) {
				if sp := &w.specs[i]; sp.validHeight <= before.height && before.held[i] == 0 && sp.amount > maxFree {
					maxFree = sp.amount
				}
			}
			for _, i := range r.outs {
				if i >= 0 && w.specs[i].amount > maxSel {
					maxSel = w.specs[i].amount
				}
			}
			if nsel > 0 && maxSel < maxFree {
				sr.sk.Count("seq_reserve_passed_over_largest", 1)
				extra += " smaller-preferred"
			}
			if f.free.lo > o.amount && f.free.hi == 0 && r.change < f.free.lo-o.amount {
				sr.sk.Count("seq_reserve_partial_selection", 1)
			}
			extra += fmt.Sprintf(" n=%d change=%v pool=%v vote=%v", nsel, r.change != 0, fromPool, o.vote == 1)
		}
		extra += fmt.Sprintf(" unconfirmed=%v overlap=%v", o.useUnc, tag == tagOverlap)
	case opParticular:
		extra = fmt.Sprintf(" unconfirmed=%v ghost=%v", o.useUnc, o.out >= len(w.specs))
		if o.out < len(w.specs) && w.specs[o.out].contract && r.err == "" {
			sr.sk.Count("seq_particular_contract_output", 1)
			extra += " contract"
		}
	case opCancel, opExpire:
		freed := liveBefore - len(sr.liveRids())
		if freed > 0 {
			sr.sk.Count("seq_"+name+"_freed_reservations", int64(freed))
			extra = " freed"
		}
	case opHeight:
		for i := range w.specs {
			if vh := w.specs[i].validHeight; vh > before.height && vh <= ns.height {
				sr.sk.Count("seq_outputs_matured", 1)
				extra = " matured"
			}
		}
	}
	sr.sk.Distinct("seq %s %s%s", o.kind, outcome, extra)
}

// ---- adaptive generation

type seqGen struct {
	rng    *ev.Rand
	w      *world
	nextSq int
}

func pick64(rng *ev.Rand, vals ...uint64) uint64 { return vals[rng.Intn(len(vals))] }

func (g *seqGen) next(sr *seqRun) *op {
	rng, w, s := g.rng, g.w, &sr.s
	o := &op{seq: g.nextSq, ref: -1}
	g.nextSq++
	n := len(w.specs)
	var withDB, withPool, inDB []int
	for i := range w.specs {
		if w.specs[i].canDB {
			withDB = append(withDB, i)
		}
		if w.specs[i].canPool {
			withPool = append(withPool, i)
		}
		if bit(s.db, i) {
			inDB = append(inDB, i)
		}
	}
	for {
		switch opKind(rng.Pick([]int{36, 15, 14, 6, 7, 5, 6, 4, 7})) {
		case opReserve:
			o.kind = opReserve
			m := &w.specs[0]
			o.acc, o.asset, o.vote = m.acc, m.asset, m.vote
			if rng.Chance(1, 4) {
				o.acc, o.asset, o.vote = rng.Intn(2), rng.Intn(2), rng.Intn(2)
			}
			o.useUnc = rng.Chance(3, 5)
			o.exp = int64(2*rng.Intn(10) + 1)
			f := w.funds(s, o)
			fr, re, im := f.free.lo, f.reserved.lo, f.immature.lo+f.heldImmature.lo // wrapping here only shapes the input
			o.amount = pick64(rng, 1, fr, fr+1, fr+re, fr+re+1, fr+re+im, fr+re+im+1,
				uint64(rng.Intn(int((fr+re+im)%1000)+2)), fr/2+1, fr-fr/3)
			if w.huge && rng.Chance(1, 3) {
				o.amount = rng.Uint64() >> 1
			}
			if o.amount > 1<<63-1 {
				o.amount = 1<<63 - 1 // no transaction can move more
			}
			if o.amount == 0 {
				o.amount = 1
			}
			if rng.Chance(1, 40) {
				o.amount = 0 // reachable: the veto action does not reject amount 0
			}
		case opParticular:
			o.kind = opParticular
			o.out = rng.Intn(n)
			if rng.Chance(1, 10) {
				o.out = n
			}
			o.useUnc = rng.Bool()
			o.exp = int64(2*rng.Intn(10) + 1)
		case opCancel:
			o.kind = opCancel
			live := sr.liveRids()
			switch {
			case len(live) > 0 && rng.Chance(7, 10):
				rid := live[rng.Intn(len(live))]
				for sq, r := range sr.ridOf {
					if r == rid {
						o.ref = sq
					}
				}
				o.rid = rid
			case len(sr.dead) > 0 && rng.Bool():
				o.rid = sr.dead[rng.Intn(len(sr.dead))]
			default:
				o.rid = uint64(1000 + rng.Intn(5))
			}
		case opExpire:
			o.kind = opExpire
			o.t = int64(2 * rng.Intn(11))
		case opAddUnc:
			if len(withPool) == 0 {
				continue
			}
			o.kind, o.out = opAddUnc, withPool[rng.Intn(len(withPool))]
		case opRemUnc:
			o.kind, o.out = opRemUnc, rng.Intn(n+1)
		case opConfirm:
			if len(withDB) == 0 {
				continue
			}
			o.kind, o.out = opConfirm, withDB[rng.Intn(len(withDB))]
		case opSpend:
			if len(inDB) == 0 {
				continue
			}
			o.kind, o.out = opSpend, inDB[rng.Intn(len(inDB))]
		case opHeight:
			o.kind, o.height = opHeight, s.height+1
			if rng.Chance(1, 8) && s.height > baseHeight {
				o.height = s.height - 1
			}
		}
		return o
	}
}

// ---- one sequential case

type seqOutcome struct {
	world   []string
	history []string
	viol    []violAt
}

func runSeqCase(sk sink, rng *ev.Rand, w *world, st *store, mk keeperMaker, seen map[string]bool) seqOutcome {
	sy := newSys(w, st, mk, false)
	sr := newSeqRun(w, sy, sk)
	g := &seqGen{rng: rng, w: w}
	nops := rng.Range(6, 14)
	for i := 0; i < nops && !sr.stopped; i++ {
		live := sr.liveRids()
		sr.apply(g.next(sr))
		for _, rid := range live { // remember ids that died, for Cancel of a dead id
			if !sr.s.live(rid) {
				if _, ok := sr.empties[rid]; !ok {
					sr.dead = append(sr.dead, rid)
				}
			}
		}
	}
	sy.close()
	out := seqOutcome{world: w.describe(&w.init), history: sr.lines, viol: sr.viol}
	for _, v := range sr.viol {
		witness := map[string]interface{}{"detail": v.detail}
		if !seen[v.key] {
			// first time in this process: shrink the world and the history
			seen[v.key] = true
			mw, mops := shrinkSeq(w, sr.ops[:v.at+1], v.key, st, mk)
			rr := replaySeq(mw, mops, st, mk)
			witness["minimal_wallet"] = mw.describeUsed(&mw.init, mops)
			witness["minimal_history"] = rr.lines
			for _, x := range rr.viol {
				if x.key == v.key {
					witness["detail"] = x.detail
				}
			}
		} else {
			witness["wallet"] = out.world
			witness["history"] = sr.lines[:v.at+1]
		}
		sk.Violation(v.key, v.what, witness)
	}
	return out
}

func replaySeq(w *world, ops []*op, st *store, mk keeperMaker) *seqRun {
	sy := newSys(w, st, mk, false)
	defer sy.close()
	sr := newSeqRun(w, sy, nil)
	for _, o := range ops {
		if sr.stopped {
			break
		}
		c := *o
		sr.apply(&c)
	}
	return sr
}

func fires(sr *seqRun, key string) bool {
	for _, v := range sr.viol {
		if v.key == key {
			return true
		}
	}
	return false
}

// shrinkSeq: greedy one-at-a-time removal of operations and of initial
// placements of outputs, keeping the violation key.
func shrinkSeq(w *world, ops []*op, key string, st *store, mk keeperMaker) (*world, []*op) {
	cur := append([]*op{}, ops...)
	cw := *w
	for changed := true; changed; {
		changed = false
		for i := len(cur) - 1; i >= 0; i-- {
			cand := append(append([]*op{}, cur[:i]...), cur[i+1:]...)
			if fires(replaySeq(&cw, cand, st, mk), key) {
				cur, changed = cand, true
			}
		}
		for i := range cw.specs {
			for _, which := range []int{0, 1} {
				tw := cw
				if which == 0 {
					tw.init.db &^= 1 << uint(i)
				} else {
					tw.init.unc &^= 1 << uint(i)
				}
				if tw.init != cw.init && fires(replaySeq(&tw, cur, st, mk), key) {
					cw, changed = tw, true
				}
			}
		}
	}
	// drop the operations after the one that fires
	sr := replaySeq(&cw, cur, st, mk)
	for _, v := range sr.viol {
		if v.key == key {
			cur = cur[:v.at+1]
			break
		}
	}
	return &cw, cur
}
