// The set model of the UTXO keeper: what C26 demands, written from the property
// text and the documented error classes — not from optUTXOs.
package p26

import (
	"fmt"
	"math/bits"
	"sort"
	"strings"
	"time"

	"github.com/bytom/bytom/account"
	"github.com/bytom/bytom/protocol/bc"
)

const maxU = 10 // universe bound: at most 8 outputs are generated

// spec is one output of the universe of a case.  Its attributes never change;
// only where it is stored (wallet DB, unconfirmed pool, both, nowhere) does.
type spec struct {
	id          bc.Hash
	acc         int // index into world.accs; -1 = contract output without an account
	asset       int
	vote        int // 0 = no vote key, 1 = world.votes[1]
	amount      uint64
	validHeight uint64
	contract    bool // stored under ContractUTXOKey: visible to ReserveParticular only
	canDB       bool // the workload may store it in the wallet DB
	canPool     bool // the workload may add it to the unconfirmed pool
	utxo        account.UTXO
}

type world struct {
	specs   []spec
	ghost   bc.Hash // an output id that exists nowhere
	byID    map[bc.Hash]int
	accs    [2]string
	assets  [2]bc.AssetID
	votes   [2][]byte
	init    mstate
	overlap bool
	huge    bool
	// doubleCount turns the model into the DIAGNOSTIC model of one known defect
	// (an output stored confirmed and unconfirmed is seen as two outputs).  It is
	// never used for a verdict, only to decide which key a refutation gets.
	doubleCount bool
}

// mstate is the model state.  It is a comparable value (porcupine compares
// states with ==).
type mstate struct {
	held   [maxU]uint64 // id of the live reservation holding output i, 0 = free
	exp    [maxU]int64  // expiry tick of that reservation (0 when free)
	db     uint16       // bit i: output i is in the wallet DB
	unc    uint16       // bit i: output i is in the unconfirmed pool
	height uint64
}

type opKind int

const (
	opReserve opKind = iota
	opParticular
	opCancel
	opExpire
	opAddUnc
	opRemUnc
	opConfirm
	opSpend
	opHeight
	opSnapshot
	nOpKinds
)

var opNames = [...]string{"Reserve", "ReserveParticular", "Cancel", "Expire", "AddUnconfirmed", "RemoveUnconfirmed", "Confirm", "Spend", "SetHeight", "Snapshot"}

func (k opKind) String() string { return opNames[k] }

type op struct {
	kind   opKind
	seq    int // position in the generated history (stable under shrinking)
	acc    int
	asset  int
	vote   int
	amount uint64
	useUnc bool
	exp    int64 // expiry tick (odd)
	out    int   // output index; len(specs) = the ghost id
	rid    uint64
	ref    int // Cancel: seq of the op that created the reservation, -1 = use rid as is
	t      int64
	height uint64
}

// snapView is a keeper snapshot translated into universe indexes.
type snapView struct {
	held     [maxU]uint64
	exp      [maxU]int64
	unc      uint16
	rids     map[uint64]int64 // every live reservation -> expiry tick
	problems []string         // broken structural invariants (see view)
}

type result struct {
	err       string // "", insufficient, immature, reserved, nomatch, other, panic
	errMsg    string
	panicSite string
	rid       uint64
	outs      []int // universe index of every returned output, -1 = unknown id
	utxos     []account.UTXO
	change    uint64
	expiry    time.Time
	snap      *snapView
}

// ---- 128-bit sums (amounts near 2^63 must not wrap inside the oracle)

type u128 struct{ hi, lo uint64 }

func (a u128) add(x uint64) u128 {
	lo, c := bits.Add64(a.lo, x, 0)
	return u128{a.hi + c, lo}
}
func (a u128) plus(b u128) u128 {
	lo, c := bits.Add64(a.lo, b.lo, 0)
	return u128{a.hi + b.hi + c, lo}
}
func (a u128) less64(x uint64) bool { return a.hi == 0 && a.lo < x }
func (a u128) String() string {
	if a.hi == 0 {
		return fmt.Sprint(a.lo)
	}
	return fmt.Sprintf("%d*2^64+%d", a.hi, a.lo)
}

// ---- candidates and funds

func bit(m uint16, i int) bool { return m&(1<<uint(i)) != 0 }

// visible: can the keeper see output i for this request?
func (w *world) visible(s *mstate, i int, useUnc bool) bool {
	return bit(s.db, i) || (useUnc && bit(s.unc, i))
}

// candidates are the DISTINCT outputs of the requested account, asset and vote
// key the keeper can see (standard outputs only: Reserve never spends contract
// outputs).
func (w *world) candidates(s *mstate, o *op) []int {
	var c []int
	for i := range w.specs {
		sp := &w.specs[i]
		if sp.contract || sp.acc != o.acc || sp.asset != o.asset || sp.vote != o.vote {
			continue
		}
		if w.visible(s, i, o.useUnc) {
			c = append(c, i)
		}
	}
	return c
}

// overlapCandidate: some candidate of this request is stored both confirmed
// and unconfirmed (and the request looks at the pool).
func (w *world) overlapCandidate(s *mstate, o *op) bool {
	if !o.useUnc {
		return false
	}
	for _, i := range w.candidates(s, o) {
		if bit(s.db, i) && bit(s.unc, i) {
			return true
		}
	}
	return false
}

// funds of a request.  heldImmature are outputs that are immature AND held by
// a live reservation (possible after the height went down): the property does
// not say which of the two reasons wins, so both readings are accepted.
type funds struct{ free, reserved, immature, heldImmature u128 }

// copies: how many outputs the keeper may take output i for (1; 2 only in the
// diagnostic model when it is stored confirmed and unconfirmed).
func (w *world) copies(s *mstate, i int, useUnc bool) int {
	if w.doubleCount && useUnc && bit(s.db, i) && bit(s.unc, i) {
		return 2
	}
	return 1
}

func (w *world) funds(s *mstate, o *op) funds {
	var f funds
	for _, i := range w.candidates(s, o) {
		sp := &w.specs[i]
		for n := w.copies(s, i, o.useUnc); n > 0; n-- {
			switch {
			case sp.validHeight > s.height && s.held[i] != 0:
				f.heldImmature = f.heldImmature.add(sp.amount)
			case sp.validHeight > s.height:
				f.immature = f.immature.add(sp.amount)
			case s.held[i] != 0:
				f.reserved = f.reserved.add(sp.amount)
			default:
				f.free = f.free.add(sp.amount)
			}
		}
	}
	return f
}

func (f funds) total() u128 { return f.free.plus(f.reserved).plus(f.immature).plus(f.heldImmature) }

// wraps: do the true sums leave uint64 (only in the huge-amount group)?
func (f funds) wraps() bool { return f.total().hi != 0 }

// classes are the outcomes the property allows: insufficient = even counting
// immature and reserved outputs there is not enough; immature = enough only
// with the immature ones; reserved = enough mature funds but part is held.
func (f funds) classes(amount uint64) []string {
	one := func(reserved u128) string {
		switch {
		case f.total().less64(amount):
			return "insufficient"
		case f.free.plus(reserved).less64(amount):
			return "immature"
		case f.free.less64(amount):
			return "reserved"
		}
		return "ok"
	}
	a, b := one(f.reserved), one(f.reserved.plus(f.heldImmature))
	if a == b {
		return []string{a}
	}
	return []string{a, b}
}

func (s *mstate) live(rid uint64) bool {
	for i := range s.held {
		if s.held[i] == rid {
			return true
		}
	}
	return false
}

type verdict struct {
	ok     bool
	reason string // canonical reason (part of the violation key)
	detail string
}

func good() verdict { return verdict{ok: true} }
func bad(reason, format string, a ...interface{}) verdict {
	return verdict{reason: reason, detail: fmt.Sprintf(format, a...)}
}

// step: can the keeper, in state s, answer r to o?  Returns the next state.
// Pure: neither s, o nor r is modified.  Selection is not predicted: any
// selection that satisfies the property is accepted.
func (w *world) step(s mstate, o *op, r *result) (mstate, verdict) {
	switch o.kind {
	case opReserve:
		return w.stepReserve(s, o, r)
	case opParticular:
		return w.stepParticular(s, o, r)
	case opCancel:
		for i := range s.held {
			if s.held[i] == o.rid && o.rid != 0 {
				s.held[i], s.exp[i] = 0, 0
			}
		}
	case opExpire:
		for i := range s.held {
			if s.held[i] != 0 && s.exp[i] < o.t {
				s.held[i], s.exp[i] = 0, 0
			}
		}
	case opAddUnc:
		s.unc |= 1 << uint(o.out)
	case opRemUnc:
		if o.out < len(w.specs) {
			s.unc &^= 1 << uint(o.out)
		}
	case opConfirm:
		s.db |= 1 << uint(o.out)
	case opSpend:
		s.db &^= 1 << uint(o.out)
	case opHeight:
		s.height = o.height
	case opSnapshot:
		v := r.snap
		if len(v.problems) > 0 {
			return s, bad("snapshot:"+v.problems[0], "%v", v.problems)
		}
		if v.held != s.held {
			return s, bad("snapshot:held-outputs", "keeper %v model %v", v.held, s.held)
		}
		if v.exp != s.exp {
			return s, bad("snapshot:expiry", "keeper %v model %v", v.exp, s.exp)
		}
		if v.unc != s.unc {
			return s, bad("snapshot:unconfirmed", "keeper %b model %b", v.unc, s.unc)
		}
	}
	if r.err != "" {
		return s, bad(strings.ToLower(o.kind.String())+":"+r.err, "%s %s", r.errMsg, r.panicSite)
	}
	return s, good()
}

func (w *world) stepReserve(s mstate, o *op, r *result) (mstate, verdict) {
	f := w.funds(&s, o)
	if r.err != "" {
		wants := f.classes(o.amount)
		for _, want := range wants {
			if r.err == want {
				return s, good()
			}
		}
		return s, bad("error-class:want="+strings.Join(wants, "|")+",got="+r.err, "free=%s reserved=%s immature=%s held-and-immature=%s amount=%d", f.free, f.reserved, f.immature, f.heldImmature, o.amount)
	}
	// success: validate the selection against the state
	var seen [maxU]int
	var sum u128
	for k, i := range r.outs {
		if i < 0 || i >= len(w.specs) {
			return s, bad("unknown-output", "returned output #%d is not an output of the wallet", k)
		}
		if seen[i]++; seen[i] > w.copies(&s, i, o.useUnc) {
			return s, bad("duplicate-output", "output u%d appears twice in the reservation", i)
		}
		sp := &w.specs[i]
		switch {
		case sp.contract || sp.acc != o.acc || sp.asset != o.asset || sp.vote != o.vote:
			return s, bad("output-of-wrong-class", "u%d is not of the requested account/asset/vote", i)
		case !w.visible(&s, i, o.useUnc):
			return s, bad("output-not-visible", "u%d is neither confirmed nor (with use_unconfirmed) in the pool", i)
		case sp.validHeight > s.height:
			return s, bad("immature-output", "u%d valid at %d, height %d", i, sp.validHeight, s.height)
		case s.held[i] != 0:
			return s, bad("output-already-held", "u%d is held by live reservation %d", i, s.held[i])
		}
		sum = sum.add(sp.amount)
	}
	if sum.less64(o.amount) {
		return s, bad("sum-below-amount", "sum %s amount %d", sum, o.amount)
	}
	if sum.hi != 0 || r.change != sum.lo-o.amount {
		return s, bad("change-mismatch", "sum %s amount %d change %d", sum, o.amount, r.change)
	}
	if r.rid == 0 || s.live(r.rid) {
		return s, bad("id-reused", "reservation id %d", r.rid)
	}
	for _, i := range r.outs {
		s.held[i], s.exp[i] = r.rid, o.exp
	}
	return s, good()
}

func (w *world) stepParticular(s mstate, o *op, r *result) (mstate, verdict) {
	allowed := map[string]bool{}
	i := o.out
	if i >= len(w.specs) {
		allowed["nomatch"] = true
	} else {
		if s.held[i] != 0 {
			allowed["reserved"] = true
		}
		if !w.visible(&s, i, o.useUnc) {
			allowed["nomatch"] = true
		} else if w.specs[i].validHeight > s.height {
			allowed["immature"] = true
		}
	}
	var names []string
	for k := range allowed {
		names = append(names, k)
	}
	sort.Strings(names)
	want := strings.Join(names, "|")
	if r.err != "" {
		if allowed[r.err] {
			return s, good()
		}
		if want == "" {
			want = "ok"
		}
		return s, bad("error-class:want="+want+",got="+r.err, "output u%d", i)
	}
	if want != "" {
		return s, bad("error-class:want="+want+",got=ok", "output u%d", i)
	}
	if len(r.outs) != 1 || r.outs[0] != i {
		return s, bad("wrong-output", "asked u%d got %v", i, r.outs)
	}
	if r.change != 0 {
		return s, bad("change-mismatch", "a particular reservation spends the whole output; change %d", r.change)
	}
	if r.rid == 0 || s.live(r.rid) {
		return s, bad("id-reused", "reservation id %d", r.rid)
	}
	s.held[i], s.exp[i] = r.rid, o.exp
	return s, good()
}

// ---- descriptions (witnesses)

func (w *world) className(acc, asset, vote int) string {
	a := "-"
	if acc >= 0 {
		a = w.accs[acc]
	}
	v := "novote"
	if vote == 1 {
		v = "vote"
	}
	return fmt.Sprintf("%s/asset%d/%s", a, asset, v)
}

func (w *world) outName(i int) string {
	if i >= len(w.specs) {
		return "ghost"
	}
	if i < 0 {
		return "?"
	}
	return fmt.Sprintf("u%d", i)
}

func (w *world) describe(s *mstate) []string { return w.describeUsed(s, nil) }

// describeUsed omits outputs that are stored nowhere and that no listed
// operation touches.
func (w *world) describeUsed(s *mstate, ops []*op) []string {
	var l []string
	touched := map[int]bool{}
	for _, o := range ops {
		switch o.kind {
		case opParticular, opAddUnc, opRemUnc, opConfirm, opSpend:
			touched[o.out] = true
		}
	}
	for i := range w.specs {
		sp := &w.specs[i]
		if ops != nil && !bit(s.db, i) && !bit(s.unc, i) && !touched[i] {
			continue
		}
		where := "nowhere"
		switch {
		case bit(s.db, i) && bit(s.unc, i):
			where = "confirmed+unconfirmed"
		case bit(s.db, i):
			where = "confirmed"
		case bit(s.unc, i):
			where = "unconfirmed"
		}
		kind := ""
		if sp.contract {
			kind = " contract-key"
		}
		l = append(l, fmt.Sprintf("u%d %s amount=%d validHeight=%d %s%s id=%s", i, w.className(sp.acc, sp.asset, sp.vote), sp.amount, sp.validHeight, where, kind, sp.id.String()))
	}
	l = append(l, fmt.Sprintf("height=%d", s.height))
	return l
}

func (w *world) opString(o *op) string {
	switch o.kind {
	case opReserve:
		return fmt.Sprintf("Reserve(%s, amount=%d, useUnconfirmed=%v, exp=T+%ds)", w.className(o.acc, o.asset, o.vote), o.amount, o.useUnc, o.exp)
	case opParticular:
		return fmt.Sprintf("ReserveParticular(%s, useUnconfirmed=%v, exp=T+%ds)", w.outName(o.out), o.useUnc, o.exp)
	case opCancel:
		return fmt.Sprintf("Cancel(%d)", o.rid)
	case opExpire:
		return fmt.Sprintf("expireReservation(T+%ds)", o.t)
	case opAddUnc:
		return fmt.Sprintf("AddUnconfirmedUtxo(%s)", w.outName(o.out))
	case opRemUnc:
		return fmt.Sprintf("RemoveUnconfirmedUtxo(%s)", w.outName(o.out))
	case opConfirm:
		return fmt.Sprintf("walletDB.Set(%s)", w.outName(o.out))
	case opSpend:
		return fmt.Sprintf("walletDB.Delete(%s)", w.outName(o.out))
	case opHeight:
		return fmt.Sprintf("height=%d", o.height)
	case opSnapshot:
		return "Snapshot()"
	}
	return "?"
}

func (w *world) resString(o *op, r *result) string {
	if r.err != "" {
		return "err " + r.err
	}
	switch o.kind {
	case opReserve, opParticular:
		var names []string
		for _, i := range r.outs {
			names = append(names, w.outName(i))
		}
		return fmt.Sprintf("ok rid=%d outputs=[%s] change=%d", r.rid, strings.Join(names, ","), r.change)
	case opSnapshot:
		return fmt.Sprintf("held=%v unconfirmed=%b", r.snap.held[:len(w.specs)], r.snap.unc)
	}
	return "ok"
}
