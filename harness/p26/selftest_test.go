// Self-tests of the oracle (not run by ./check, which selects ^TestC26$):
// the same drivers and the same model, applied to a small reference keeper
// that is correct (must be silent, also on overlap / huge / amount-0 inputs)
// or carries one seeded bug (must be refuted within a quick-tier budget).
package p26

import (
	"bytes"
	"encoding/json"
	"fmt"
	"runtime"
	"sort"
	"strings"
	"sync"
	"testing"
	"time"

	"github.com/anishathalye/porcupine"

	"github.com/bytom/bytom/account"
	dbm "github.com/bytom/bytom/database/leveldb"
	"github.com/bytom/bytom/protocol/bc"

	"verif/internal/ev"
)

type refKeeper struct {
	mu       sync.Mutex
	db       dbm.DB
	height   func() uint64
	pool     map[bc.Hash]*account.UTXO
	reserved map[bc.Hash]uint64
	res      map[uint64]*account.VerifReservation
	next     uint64
	bug      string
}

func refMaker(bug string) keeperMaker {
	return func(db dbm.DB, height func() uint64) keeper {
		return &refKeeper{db: db, height: height, bug: bug, pool: map[bc.Hash]*account.UTXO{}, reserved: map[bc.Hash]uint64{}, res: map[uint64]*account.VerifReservation{}}
	}
}

func (k *refKeeper) Reserve(accountID string, assetID *bc.AssetID, amount uint64, useUnconfirmed bool, vote []byte, exp time.Time) (*account.VerifReservation, error) {
	k.mu.Lock()
	defer k.mu.Unlock()
	var cands []account.UTXO
	seen := map[bc.Hash]bool{}
	add := func(u account.UTXO) {
		if u.AccountID != accountID || u.AssetID != *assetID || (k.bug != "ignore-vote" && !bytes.Equal(u.Vote, vote)) {
			return
		}
		if seen[u.OutputID] && k.bug != "no-dedupe" {
			return
		}
		seen[u.OutputID] = true
		cands = append(cands, u)
	}
	it := k.db.IteratorPrefix([]byte(account.UTXOPreFix))
	for it.Next() {
		var u account.UTXO
		if json.Unmarshal(it.Value(), &u) == nil {
			add(u)
		}
	}
	it.Release()
	if useUnconfirmed || k.bug == "always-pool" {
		for _, u := range k.pool {
			add(*u)
		}
	}
	sort.Slice(cands, func(i, j int) bool { return cands[i].Amount > cands[j].Amount })
	var free []account.UTXO
	var fr, re, im u128
	h := k.height()
	for _, u := range cands {
		switch {
		case u.ValidHeight > h && k.bug != "immature-usable":
			im = im.add(u.Amount)
		case k.reserved[u.OutputID] != 0 && k.bug != "ignore-reserved":
			re = re.add(u.Amount)
		default:
			fr = fr.add(u.Amount)
			free = append(free, u)
		}
	}
	if k.bug == "wrap" {
		fr, re, im = u128{0, fr.lo}, u128{0, re.lo}, u128{0, im.lo}
		if s := fr.lo + re.lo + im.lo; s < amount {
			return nil, account.ErrInsufficient
		}
	}
	switch {
	case fr.plus(re).plus(im).less64(amount):
		return nil, account.ErrInsufficient
	case fr.plus(re).less64(amount):
		if k.bug == "error-swap" {
			return nil, account.ErrReserved
		}
		return nil, account.ErrImmature
	case fr.less64(amount):
		return nil, account.ErrReserved
	}
	var sel []account.UTXO
	var sum uint64
	for _, u := range free {
		if sum >= amount {
			break
		}
		sel = append(sel, u)
		sum += u.Amount
	}
	if k.bug == "short" && len(sel) > 1 {
		sum -= sel[len(sel)-1].Amount
		sel = sel[:len(sel)-1]
	}
	if k.bug == "split-lock" {
		k.mu.Unlock()
		runtime.Gosched()
		k.mu.Lock()
	}
	k.next++
	r := &account.VerifReservation{ID: k.next, UTXOs: sel, Change: sum - amount, Expiry: exp}
	if k.bug == "change+1" && r.Change > 0 {
		r.Change++
	}
	k.res[r.ID] = r
	for _, u := range sel {
		k.reserved[u.OutputID] = r.ID
	}
	cp := *r
	return &cp, nil
}

func (k *refKeeper) ReserveParticular(out bc.Hash, useUnconfirmed bool, exp time.Time) (*account.VerifReservation, error) {
	k.mu.Lock()
	defer k.mu.Unlock()
	if k.reserved[out] != 0 && k.bug != "particular-ignores-reserved" {
		return nil, account.ErrReserved
	}
	var u *account.UTXO
	if p, ok := k.pool[out]; ok && useUnconfirmed {
		u = p
	} else {
		for _, key := range [][]byte{account.StandardUTXOKey(out), account.ContractUTXOKey(out)} {
			if data := k.db.Get(key); data != nil {
				u = &account.UTXO{}
				if err := json.Unmarshal(data, u); err != nil {
					return nil, err
				}
				break
			}
		}
	}
	if u == nil {
		return nil, account.ErrMatchUTXO
	}
	if u.ValidHeight > k.height() && k.bug != "immature-usable" {
		return nil, account.ErrImmature
	}
	k.next++
	r := &account.VerifReservation{ID: k.next, UTXOs: []account.UTXO{*u}, Expiry: exp}
	k.res[r.ID] = r
	k.reserved[out] = r.ID
	cp := *r
	return &cp, nil
}

func (k *refKeeper) cancel(rid uint64) {
	r, ok := k.res[rid]
	if !ok {
		return
	}
	delete(k.res, rid)
	for i, u := range r.UTXOs {
		if k.bug == "cancel-leak" && i > 0 {
			continue
		}
		if k.reserved[u.OutputID] == rid {
			delete(k.reserved, u.OutputID)
		}
	}
}

func (k *refKeeper) Cancel(rid uint64) { k.mu.Lock(); k.cancel(rid); k.mu.Unlock() }

func (k *refKeeper) ExpireReservation(t time.Time) {
	k.mu.Lock()
	defer k.mu.Unlock()
	for rid, r := range k.res {
		if (k.bug != "expire-after" && r.Expiry.Before(t)) || (k.bug == "expire-after" && r.Expiry.After(t)) {
			k.cancel(rid)
		}
	}
}

func (k *refKeeper) AddUnconfirmedUtxo(utxos []*account.UTXO) {
	k.mu.Lock()
	for _, u := range utxos {
		k.pool[u.OutputID] = u
	}
	k.mu.Unlock()
}

func (k *refKeeper) RemoveUnconfirmedUtxo(hashes []*bc.Hash) {
	k.mu.Lock()
	for _, h := range hashes {
		if k.bug != "remove-noop" {
			delete(k.pool, *h)
		}
	}
	k.mu.Unlock()
}

func (k *refKeeper) Snapshot() account.VerifKeeperSnapshot {
	k.mu.Lock()
	defer k.mu.Unlock()
	s := account.VerifKeeperSnapshot{Reserved: map[bc.Hash]uint64{}, Reservations: map[uint64]account.VerifReservation{}, Unconfirmed: map[bc.Hash]account.UTXO{}}
	for h, r := range k.reserved {
		s.Reserved[h] = r
	}
	for id, r := range k.res {
		s.Reservations[id] = *r
	}
	for h, u := range k.pool {
		s.Unconfirmed[h] = *u
	}
	return s
}

type collector struct {
	mu     sync.Mutex
	viol   map[string]int
	first  map[string]string
	counts map[string]int64
	incon  []string
}

func newCollector() *collector {
	return &collector{viol: map[string]int{}, first: map[string]string{}, counts: map[string]int64{}}
}
func (c *collector) Violation(key, what string, witness interface{}) {
	c.mu.Lock()
	if c.viol[key] == 0 {
		b, _ := json.Marshal(witness)
		c.first[key] = what + " " + string(b)
	}
	c.viol[key]++
	c.mu.Unlock()
}
func (c *collector) Count(name string, n int64)      { c.mu.Lock(); c.counts[name] += n; c.mu.Unlock() }
func (c *collector) Max(string, int64)               {}
func (c *collector) Distinct(string, ...interface{}) {}
func (c *collector) Inconclusive(f string, a ...interface{}) {
	c.mu.Lock()
	c.incon = append(c.incon, fmt.Sprintf(f, a...))
	c.mu.Unlock()
}

// drive runs nSeq sequential (+ a tenth of it huge) and nConc concurrent cases
// of the quick-tier generators against the keeper made by mk.
func drive(t *testing.T, mk keeperMaker, nSeq, nConc int) *collector {
	col := newCollector()
	st := openStore(t.TempDir())
	defer st.close()
	seen := map[string]bool{}
	for i := 0; i < nSeq; i++ {
		rng := ev.NewRand(1, "C26", "seq", i)
		runSeqCase(col, rng, genWorld(rng, rng.Bool(), false), st, mk, seen)
	}
	for i := 0; i < nSeq/10; i++ {
		rng := ev.NewRand(1, "C26", "seq-huge", i)
		runSeqCase(col, rng, genWorld(rng, false, true), st, mk, seen)
	}
	for i := 0; i < nConc; i++ {
		rng := ev.NewRand(1, "C26", "conc", i)
		w := genWorld(rng, rng.Bool(), false)
		out := runConcCase(col, rng, w, st, mk, concGoroutines, concOpsEach, checkerTimeout)
		for _, v := range out.direct {
			col.Violation(v.key, v.what, v.detail)
		}
		if out.checked && out.linear == porcupine.Illegal {
			col.Violation("concurrent:not-linearizable", "not linearizable", nil)
		}
		if out.checked && out.linear == porcupine.Unknown {
			col.Inconclusive("timeout")
		}
	}
	return col
}

// A correct keeper (distinct candidates, 128-bit sums, amount 0 served) must
// never be refuted: the oracle demands nothing beyond the property.
func TestOracleSilentOnCorrectKeeper(t *testing.T) {
	col := drive(t, refMaker(""), 1500, 60)
	for k, n := range col.viol {
		t.Errorf("false alarm %s x%d: %s", k, n, col.first[k])
	}
	if len(col.incon) > 0 {
		t.Errorf("checker time-outs: %v", col.incon)
	}
	if col.counts["seq_reserve_ok"] < 500 || col.counts["conc_histories"] != 60 {
		t.Errorf("too little observed: %v", col.counts)
	}
}

// Every seeded one-line bug must be refuted within a fraction of the quick tier.
func TestOracleRefutesSeededBugs(t *testing.T) {
	bugs := []struct{ bug, wantKey string }{
		{"no-dedupe", "reserve:duplicate-output:confirmed+unconfirmed"}, // the defect of the real keeper
		{"ignore-vote", "reserve:"},
		{"always-pool", "reserve:"},
		{"immature-usable", "reserve:"},
		{"ignore-reserved", "reserve:output-already-held"},
		{"wrap", "reserve:miscounted-funds:uint64-wrap"},
		{"error-swap", "reserve:error-class:want=immature,got=reserved"},
		{"short", "reserve:sum-below-amount"},
		{"change+1", "reserve:change-mismatch"},
		{"particular-ignores-reserved", "reserveparticular:"},
		{"cancel-leak", "snapshot:"},
		{"expire-after", "snapshot:"},
		{"remove-noop", "snapshot:unconfirmed-differs-from-model"},
	}
	for _, b := range bugs {
		col := drive(t, refMaker(b.bug), 400, 0)
		hit := false
		var keys []string
		for k := range col.viol {
			keys = append(keys, k)
			if strings.HasPrefix(k, b.wantKey) {
				hit = true
			}
		}
		sort.Strings(keys)
		if !hit {
			t.Errorf("seeded bug %q not refuted by a key with prefix %q (keys: %v)", b.bug, b.wantKey, keys)
		} else {
			t.Logf("bug %-28s refuted: %v", b.bug, keys)
		}
	}
	// a wrong answer that leaves the tables intact: only the linearizability check sees it
	if col := drive(t, refMaker("error-swap"), 0, 20); col.viol["concurrent:not-linearizable"] == 0 {
		t.Errorf("error-swap not refuted by the linearizability check: %v", col.viol)
	} else {
		t.Logf("bug error-swap (concurrent) refuted: %v", col.viol)
	}
	// atomicity bug: only visible under concurrency
	col := drive(t, refMaker("split-lock"), 0, 40)
	if len(col.viol) == 0 {
		t.Errorf("split-lock (check-then-act outside one critical section) not refuted by the concurrent check")
	} else {
		t.Logf("bug split-lock refuted: %v", col.viol)
	}
}
