// Concurrent histories: G goroutines drive one keeper; every call and return is
// stamped from ONE atomic counter at the client boundary; the history is
// checked for linearizability (porcupine) against the validating set model,
// and a locked snapshot after every return is checked for outputs held twice.
package p26

import (
	"fmt"
	"runtime"
	"sort"
	"sync"
	"sync/atomic"
	"time"

	"github.com/anishathalye/porcupine"

	"verif/internal/ev"
)

type rec struct {
	client    int
	o         *op
	r         *result
	call, ret int64
}

type concOutcome struct {
	recs      []rec
	direct    []violAt // violations visible at the client boundary / in a snapshot
	linear    porcupine.CheckResult
	checked   bool
	checkTime time.Duration
	// a non-linearizable history that the diagnostic double-count model accepts
	explainedByDoubleCount bool
}

// genConcOp draws an operation from the static universe (no model state: the
// other goroutines are running).  A history mutates only ONE store that lives
// outside the keeper's lock — the wallet DB or the chain height: Reserve reads
// the height and then opens its DB iterator, two reads that are not atomic
// together (nor are they in production, and the property does not ask for it),
// so a history changing both could be non-linearizable on correct code.
func genConcOp(rng *ev.Rand, w *world, mine []uint64, pool *ridPool, extHeight bool) *op {
	o := &op{ref: -1}
	n := len(w.specs)
	for {
		weights := []int{40, 14, 22, 5, 6, 4, 5, 3, 0}
		if extHeight {
			weights = []int{40, 14, 22, 5, 6, 4, 0, 0, 8}
		}
		k := opKind(rng.Pick(weights))
		switch k {
		case opReserve:
			o.kind = opReserve
			m := &w.specs[0]
			o.acc, o.asset, o.vote = m.acc, m.asset, m.vote
			if rng.Chance(1, 4) {
				o.acc, o.asset, o.vote = rng.Intn(2), rng.Intn(2), rng.Intn(2)
			}
			o.useUnc = rng.Chance(3, 5)
			o.exp = int64(2*rng.Intn(20) + 1)
			var total uint64
			for i := range w.specs {
				if sp := &w.specs[i]; !sp.contract && sp.acc == o.acc && sp.asset == o.asset && sp.vote == o.vote {
					total += sp.amount
				}
			}
			switch {
			case rng.Chance(1, 2):
				o.amount = uint64(rng.Range(1, 6))
			case total > 0:
				o.amount = 1 + rng.Uint64()%(total+1)
			default:
				o.amount = uint64(rng.Range(1, 3))
			}
		case opParticular:
			o.kind, o.out, o.useUnc = opParticular, rng.Intn(n), rng.Bool()
			if rng.Chance(1, 12) {
				o.out = n
			}
			o.exp = int64(2*rng.Intn(20) + 1)
		case opCancel:
			o.kind = opCancel
			switch {
			case len(mine) > 0 && rng.Chance(3, 4):
				o.rid = mine[len(mine)-1-rng.Intn(min(len(mine), 3))]
			case rng.Chance(2, 3):
				o.rid = pool.any(rng)
			default:
				o.rid = uint64(1000 + rng.Intn(5))
			}
		case opExpire:
			o.kind, o.t = opExpire, int64(2*rng.Intn(14))
		case opAddUnc, opRemUnc, opConfirm, opSpend:
			var cands []int
			for i := range w.specs {
				if ((k == opAddUnc || k == opRemUnc) && w.specs[i].canPool) || ((k == opConfirm || k == opSpend) && w.specs[i].canDB) {
					cands = append(cands, i)
				}
			}
			if len(cands) == 0 {
				continue
			}
			o.kind, o.out = k, cands[rng.Intn(len(cands))]
		case opHeight:
			o.kind, o.height = opHeight, uint64(baseHeight+rng.Intn(4))
		}
		return o
	}
}

// ridPool: reservation ids published by all goroutines (to cancel someone
// else's reservation).
type ridPool struct {
	mu   sync.Mutex
	rids []uint64
}

func (p *ridPool) add(r uint64) { p.mu.Lock(); p.rids = append(p.rids, r); p.mu.Unlock() }
func (p *ridPool) any(rng *ev.Rand) uint64 {
	p.mu.Lock()
	defer p.mu.Unlock()
	if len(p.rids) == 0 {
		return 999
	}
	return p.rids[rng.Intn(len(p.rids))]
}

func runConcCase(sk sink, rng *ev.Rand, w *world, st *store, mk keeperMaker, G, N int, timeout time.Duration) concOutcome {
	sy := newSys(w, st, mk, false)
	defer sy.close()
	var clock int64
	var mu sync.Mutex
	var out concOutcome
	pool := &ridPool{}
	extHeight := rng.Chance(1, 3)
	perG := make([][]rec, G)
	var wg sync.WaitGroup
	start := make(chan struct{})
	for g := 0; g < G; g++ {
		rg := rng.Fork()
		wg.Add(1)
		go func(g int, rg *ev.Rand) {
			defer wg.Done()
			<-start
			var mine []uint64
			do := func(o *op) *result {
				call := atomic.AddInt64(&clock, 1)
				r := sy.exec(w, o)
				ret := atomic.AddInt64(&clock, 1)
				perG[g] = append(perG[g], rec{client: g, o: o, r: r, call: call, ret: ret})
				return r
			}
			for i := 0; i < N; i++ {
				o := genConcOp(rg, w, mine, pool, extHeight)
				r := do(o)
				if (o.kind == opReserve || o.kind == opParticular) && r.err == "" {
					mine = append(mine, r.rid)
					if rg.Chance(1, 3) {
						pool.add(r.rid)
					}
				}
				// locked snapshot after every return
				sr := do(&op{kind: opSnapshot, ref: -1})
				if len(sr.snap.problems) > 0 {
					mu.Lock()
					for _, p := range sr.snap.problems {
						out.direct = append(out.direct, violAt{key: "concurrent:snapshot:" + problemKey(p), what: "a locked snapshot of the keeper breaks the invariant: " + problemKey(p), detail: p})
					}
					mu.Unlock()
				}
				if rg.Chance(1, 3) {
					runtime.Gosched()
				}
			}
		}(g, rg)
	}
	close(start)
	wg.Wait()
	for _, l := range perG {
		out.recs = append(out.recs, l...)
	}
	sort.Slice(out.recs, func(i, j int) bool { return out.recs[i].call < out.recs[j].call })

	// client-boundary checks that need no ordering
	ids := map[uint64]bool{}
	overlapping := 0
	var maxRet int64
	for _, rc := range out.recs {
		if rc.call < maxRet {
			overlapping++ // invoked before an earlier-invoked operation returned
		}
		if rc.ret > maxRet {
			maxRet = rc.ret
		}
		o, r := rc.o, rc.r
		name := o.kind.String()
		if r.err == "panic" {
			out.direct = append(out.direct, violAt{key: "panic:" + name + ":" + r.panicSite, what: "the keeper panicked: " + r.errMsg, detail: r.panicSite})
			continue
		}
		if (o.kind != opReserve && o.kind != opParticular) || r.err != "" {
			continue
		}
		if ids[r.rid] {
			out.direct = append(out.direct, violAt{key: "concurrent:id-reused", what: "two reservations got the same id", detail: fmt.Sprint(r.rid)})
		}
		ids[r.rid] = true
		if msg := checkFields(w, r); msg != "" {
			out.direct = append(out.direct, violAt{key: "concurrent:output-attributes-differ", what: msg})
		}
		var seen uint16
		for _, i := range r.outs {
			if i >= 0 && bit(seen, i) {
				key := "reserve:duplicate-output"
				if w.specs[i].canDB && w.specs[i].canPool {
					key += tagOverlap
				}
				out.direct = append(out.direct, violAt{key: key, what: fmt.Sprintf("Reserve: duplicate-output (output u%d appears twice in the reservation)", i),
					detail: w.opString(o) + " -> " + w.resString(o, r)})
			}
			if i >= 0 {
				seen |= 1 << uint(i)
			}
		}
	}
	if sk != nil {
		sk.Count("conc_histories", 1)
		sk.Count("conc_ops", int64(len(out.recs)))
		sk.Count("conc_ops_overlapping_in_time", int64(overlapping))
		sk.Count("conc_snapshots_checked", int64(len(out.recs)/2))
		for _, rc := range out.recs {
			if rc.o.kind == opSnapshot {
				continue
			}
			oc := rc.r.err
			if oc == "" {
				oc = "ok"
			}
			sk.Count("conc_"+rc.o.kind.String()+"_"+oc, 1)
			extra := ""
			if rc.o.kind == opReserve && rc.r.err == "" {
				extra = fmt.Sprintf(" n=%d", min(len(rc.r.outs), 3))
			}
			sk.Distinct("conc %s %s%s", rc.o.kind, oc, extra)
		}
	}
	if len(out.direct) > 0 {
		return out // the history is already refuted; its linearizability adds nothing
	}

	// linearizability against the validating model
	hist := make([]porcupine.Operation, 0, len(out.recs))
	for _, rc := range out.recs {
		hist = append(hist, porcupine.Operation{ClientId: rc.client, Input: rc.o, Call: rc.call, Output: rc.r, Return: rc.ret})
	}
	t0 := time.Now()
	out.linear = porcupine.CheckOperationsTimeout(w.porcupineModel(), hist, timeout)
	out.checkTime = time.Since(t0)
	out.checked = true
	if out.linear == porcupine.Illegal && w.overlap {
		// which defect?  see seqRun.apply: the diagnostic model only chooses the key
		dw := *w
		dw.doubleCount = true
		out.explainedByDoubleCount = porcupine.CheckOperationsTimeout(dw.porcupineModel(), hist, timeout) == porcupine.Ok
	}
	return out
}

func (w *world) porcupineModel() porcupine.Model {
	return porcupine.Model{
		Init: func() interface{} { return w.init },
		Step: func(st, in, o interface{}) (bool, interface{}) {
			ns, v := w.step(st.(mstate), in.(*op), o.(*result))
			return v.ok, ns
		},
	}
}

func (out *concOutcome) lines(w *world) []string {
	var l []string
	for _, rc := range out.recs {
		l = append(l, fmt.Sprintf("[%d,%d] g%d %s -> %s", rc.call, rc.ret, rc.client, w.opString(rc.o), w.resString(rc.o, rc.r)))
	}
	return l
}
