package p26

import (
	"fmt"
	"testing"

	"verif/internal/chainkit"
	"verif/internal/ev"
	"verif/internal/walletkit"
)

// TestC26Wallet: "failures are reported correctly as insufficient, immature or already reserved" for
// the records a REAL wallet builds from real blocks (the keeper-level groups use records made by the
// harness).  A real wallet follows a real node through block trees with wallet-owned normal, vote and
// coinbase outputs; at every quiescent point each record that is an unspent output of the main chain
// is put to the wallet's own spend action.  An output whose lock, by the reference ledger, has expired
// at the current height (always, for a normal output) must not be refused as immature.  The opposite
// direction (an immature output handed out) is C25's subject and is not judged here.  The driver runs
// this function as an extra run of C26.
type matureOracle struct{}

func (matureOracle) At(p *walletkit.Point) {
	c := p.C
	s := p.S
	net := s.Env.Net
	h := p.Best.Height
	for _, u := range p.Std {
		e := p.Expected[u.OutputID]
		ref := p.Best.Utxo[u.OutputID]
		if e == nil || ref == nil {
			continue // not an unspent output of the main chain: C24's business
		}
		usable, class := p.W.Usable(u.OutputID)
		origin := "attached"
		if s.Restored[u.OutputID] {
			origin = "restored-by-detach"
		}
		c.Eval(1)
		c.Count("wallet_records_checked:"+e.Type.String(), 1)
		mature := net.Spendable(ref, h) // created + lock <= current height; normal outputs: always
		switch {
		case !usable && class == "immature" && mature:
			c.Violation(fmt.Sprintf("wallet:refused-as-immature-although-mature:%s:%s", e.Type, origin),
				"the wallet's spend action refuses an output as immature although its lock has expired at the current height (a normal output has no lock)",
				map[string]interface{}{"output_history": s.Ix.Describe(u.OutputID, p.Best), "record_valid_height": u.ValidHeight, "created_at_height": e.Height,
					"chain_best_height": h, "earliest_spend_height_by_the_reference": net.EarliestSpend(ref), "transition": p.Transition()})
		case usable && mature:
			c.Count("wallet_mature_and_granted:"+e.Type.String(), 1)
		case !usable && class == "immature":
			c.Count("wallet_immature_and_refused:"+e.Type.String(), 1)
		}
		if e.Type == chainkit.UNormal && u.ValidHeight != 0 {
			c.Count("wallet_normal_records_with_valid_height", 1)
		}
	}
	c.Count("wallet_points_checked", 1)
}

func TestC26Wallet(t *testing.T) {
	r := ev.Start(t, "C26")
	defer r.Finish()
	env := walletkit.Setup()
	base := t.TempDir()
	r.Cases("wallet-mini", r.N(8, 80), func(c *ev.Case) {
		walletkit.RunMini(c, env, fmt.Sprintf("%s/m%d", base, c.Index), matureOracle{})
	})
	r.Cases("wallet-tree", r.N(16, 800), func(c *ev.Case) {
		walletkit.RunTree(c, env, fmt.Sprintf("%s/t%d", base, c.Index), matureOracle{})
	})
	r.Floor("wallet_points_checked", 200)
	r.Floor("wallet_mature_and_granted:normal", 300)
	r.Floor("wallet_mature_and_granted:vote", 20)
	r.Floor("wallet_immature_and_refused:vote", 50)
}
