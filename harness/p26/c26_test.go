// C26 — UTXO reservations never overlap and cover the request.
//
// Drives the real account.utxoKeeper (through the verif export) on a GoLevelDB
// wallet store: (a) sequential histories checked exactly against a set model,
// (b) concurrent histories checked for linearizability against the same model
// (the model validates the returned selection, it does not predict it) plus a
// locked snapshot after every return.
package p26

import (
	"io"
	"os"
	"testing"
	"time"

	"github.com/anishathalye/porcupine"
	"github.com/sirupsen/logrus"

	"verif/internal/ev"
)

func TestMain(m *testing.M) {
	logrus.SetLevel(logrus.PanicLevel)
	logrus.SetOutput(io.Discard)
	os.Exit(m.Run())
}

const (
	concGoroutines = 8
	concOpsEach    = 30
	checkerTimeout = 120 * time.Second // firing is INCONCLUSIVE, never a violation
)

func TestC26(t *testing.T) {
	r := ev.Start(t, "C26")
	defer r.Finish()
	r.Rule("wallets of 3..8 outputs over 2 accounts x 2 assets x vote/no-vote (two thirds in one class; some immature; some only in the pool; in half of the wallets some outputs (mature or immature) may be confirmed AND unconfirmed under one id; rarely a contract output), stored in GoLevelDB. " +
		"seq: 6..14 operations Reserve/ReserveParticular/Cancel/expireReservation(t)/Add-RemoveUnconfirmedUtxo/DB set-delete/height change, amounts chosen at the boundaries of the model's free/reserved/immature sums, each operation and the keeper's tables checked exactly against the set model. " +
		"seq-huge: the same with amounts in [2^62,2^63). conc: 8 goroutines x 30 operations (+ a locked snapshot after each) stamped by one atomic counter, linearizability checked with porcupine. " +
		"distinct = (mode, operation, outcome class, selection size / change / pool use / overlap flag)")
	r.Assume("the error classes are the documented ones: insufficient = free+reserved+immature < amount, immature = free+reserved < amount, reserved = free < amount (sums over DISTINCT visible outputs of the requested account, asset and vote key); an output that is both immature and held may be counted either way; for ReserveParticular any true reason (reserved, not found, immature) is accepted")
	r.Assume("expiry is driven through expireReservation(t) with explicit t (never equal to an expiry); the once-per-second worker goroutine is not started")
	r.Assume("a concurrent history changes either the wallet DB or the chain height from outside the keeper, never both (Reserve reads them at two different instants, in production too); goleveldb reads (iterator snapshot, Get) and writes are atomic; porcupine v1.3.0 is a correct linearizability checker")

	st := openStore(t.TempDir())
	defer st.close()
	seen := map[string]bool{}

	seq := func(huge bool) func(c *ev.Case) {
		return func(c *ev.Case) {
			w := genWorld(c.Rand, c.Rand.Bool() && !huge, huge) // overlap wallets: half of the cases, independent of the shard
			out := runSeqCase(c, c.Rand, w, st, realKeeper, seen)
			if c.WantSample() {
				c.Sample(map[string]interface{}{"wallet": out.world, "history": out.history})
			}
		}
	}
	r.Cases("seq", r.N(3000, 60000), seq(false))
	r.Cases("seq-huge", r.N(120, 2000), seq(true))

	r.Cases("conc", r.N(300, 6000), func(c *ev.Case) {
		w := genWorld(c.Rand, c.Rand.Bool(), false)
		c.Journal(map[string]interface{}{"wallet": w.describe(&w.init), "goroutines": concGoroutines, "ops": concOpsEach})
		out := runConcCase(c, c.Rand, w, st, realKeeper, concGoroutines, concOpsEach, checkerTimeout)
		witness := func(detail string) map[string]interface{} {
			l := out.lines(w)
			if len(l) > 600 {
				l = l[:600]
			}
			return map[string]interface{}{"detail": detail, "wallet": w.describe(&w.init), "history([call,return] goroutine op -> result)": l}
		}
		for _, v := range out.direct {
			c.Violation(v.key, v.what, witness(v.detail))
		}
		if !out.checked {
			c.Count("conc_histories_refuted_before_checker", 1)
			return
		}
		c.Max("conc_checker_ms_max", out.checkTime.Milliseconds())
		switch out.linear {
		case porcupine.Ok:
			c.Count("conc_histories_linearizable", 1)
		case porcupine.Unknown:
			c.Count("conc_checker_timeouts", 1)
			c.Inconclusive("porcupine timed out after %v on conc case %d", checkerTimeout, c.Index)
		default:
			key := "concurrent:not-linearizable"
			if out.explainedByDoubleCount {
				key += tagOverlap
			}
			c.Violation(key, "no sequential order of the recorded calls, consistent with their call/return stamps, is accepted by the set model", witness(""))
		}
		if c.WantSample() {
			l := out.lines(w)
			if len(l) > 24 {
				l = l[:24]
			}
			c.Sample(map[string]interface{}{"wallet": w.describe(&w.init), "history_head": l, "linearizable": out.linear == porcupine.Ok})
		}
	})

	// every class the monitor claims to cover must have been observed
	for _, f := range []struct {
		n string
		m int64
	}{
		{"seq_reserve_ok", 300}, {"seq_reserve_insufficient", 100}, {"seq_reserve_immature", 30}, {"seq_reserve_reserved", 100},
		{"seq_reserve_multi_output", 100}, {"seq_reserve_used_pool_output", 50}, {"seq_reserve_partial_selection", 50},
		{"seq_reserve_with_overlap_candidate", 100}, {"seq_reserve_with_wrapping_sums", 5}, {"seq_reserve_amount0_requests", 20},
		{"seq_reserve_ok_vote_outputs", 30}, {"seq_reserve_passed_over_largest", 10}, {"seq_particular_contract_output", 10},
		{"seq_reserveparticular_ok", 100}, {"seq_reserveparticular_reserved", 50}, {"seq_reserveparticular_immature", 20}, {"seq_reserveparticular_nomatch", 50},
		{"seq_cancel_freed_reservations", 100}, {"seq_expire_freed_reservations", 50}, {"seq_outputs_matured", 30},
		{"conc_histories_linearizable", 20}, {"conc_ops_overlapping_in_time", 1000}, {"conc_snapshots_checked", 10000},
		{"conc_Reserve_ok", 500}, {"conc_Reserve_reserved", 100}, {"conc_Reserve_insufficient", 100}, {"conc_Reserve_immature", 50},
		{"conc_Cancel_ok", 1000}, {"conc_Expire_ok", 200}, {"conc_ReserveParticular_nomatch", 100}, {"conc_ReserveParticular_immature", 50}, {"conc_ReserveParticular_ok", 100}, {"conc_ReserveParticular_reserved", 100},
	} {
		r.Floor(f.n, f.m)
	}
}
