// The system under test (real keeper on a GoLevelDB wallet store), the
// universe generator and the translation of keeper results into model terms.
package p26

import (
	"encoding/json"
	"fmt"
	"os"
	"path/filepath"
	"runtime/debug"
	"sync/atomic"
	"time"

	"github.com/bytom/bytom/account"
	dbm "github.com/bytom/bytom/database/leveldb"
	"github.com/bytom/bytom/errors"
	"github.com/bytom/bytom/protocol/bc"

	"verif/internal/ev"
)

// keeper is what the monitor drives: account.VerifKeeper (the real utxoKeeper)
// or, in the self-tests of the oracle, a reference keeper with a seeded bug.
type keeper interface {
	Reserve(accountID string, assetID *bc.AssetID, amount uint64, useUnconfirmed bool, vote []byte, exp time.Time) (*account.VerifReservation, error)
	ReserveParticular(outHash bc.Hash, useUnconfirmed bool, exp time.Time) (*account.VerifReservation, error)
	Cancel(rid uint64)
	ExpireReservation(t time.Time)
	AddUnconfirmedUtxo(utxos []*account.UTXO)
	RemoveUnconfirmedUtxo(hashes []*bc.Hash)
	Snapshot() account.VerifKeeperSnapshot
}

type sys struct {
	k      keeper
	db     dbm.DB
	height *uint64
}

type keeperMaker func(db dbm.DB, height func() uint64) keeper

func realKeeper(db dbm.DB, height func() uint64) keeper {
	return account.VerifNewUtxoKeeper(db, height)
}

// store is the wallet DB of this process: a GoLevelDB that is emptied before
// every history and re-created every few histories (opening a LevelDB costs
// more than a sequential history, while deleted keys slow the keeper's prefix
// scan down until they are compacted away).
type store struct {
	db   dbm.DB
	base string
	dir  string
	gen  int
	uses int
}

const storeReuse = 64

func openStore(base string) *store {
	st := &store{base: base}
	st.fresh()
	return st
}

func (st *store) fresh() {
	st.close()
	st.gen++
	st.dir = filepath.Join(st.base, fmt.Sprintf("walletdb%d", st.gen))
	st.db = dbm.NewDB("wallet", "leveldb", st.dir)
	st.uses = 0
}

func (st *store) close() {
	if st.db != nil {
		st.db.Close()
		os.RemoveAll(st.dir)
		st.db = nil
	}
}

// prepare hands out an empty store.
func (st *store) prepare(forceFresh bool) {
	if st.uses > 0 && (forceFresh || st.uses >= storeReuse) {
		st.fresh()
	}
	st.uses++
	var keys [][]byte
	it := st.db.Iterator()
	for it.Next() {
		keys = append(keys, append([]byte{}, it.Key()...))
	}
	it.Release()
	for _, k := range keys {
		st.db.Delete(k)
	}
}

// newSys empties the wallet store, stores the initial confirmed outputs and
// pool entries of the world, and builds a fresh keeper on it.
func newSys(w *world, st *store, mk keeperMaker, forceFresh bool) *sys {
	st.prepare(forceFresh)
	sy := &sys{db: st.db, height: new(uint64)}
	*sy.height = w.init.height
	h := sy.height
	sy.k = mk(sy.db, func() uint64 { return atomic.LoadUint64(h) })
	for i := range w.specs {
		if bit(w.init.db, i) {
			sy.confirm(w, i)
		}
		if bit(w.init.unc, i) {
			u := w.specs[i].utxo
			sy.k.AddUnconfirmedUtxo([]*account.UTXO{&u})
		}
	}
	return sy
}

func (sy *sys) close() {}

func (w *world) dbKey(i int) []byte {
	if w.specs[i].contract {
		return account.ContractUTXOKey(w.specs[i].id)
	}
	return account.StandardUTXOKey(w.specs[i].id)
}

// confirm stores output i as the wallet does when a block is attached.
func (sy *sys) confirm(w *world, i int) {
	data, err := json.Marshal(&w.specs[i].utxo)
	if err != nil {
		panic(err)
	}
	sy.db.Set(w.dbKey(i), data)
}

var timeBase = time.Date(2100, 1, 1, 0, 0, 0, 0, time.UTC)

func tick(k int64) time.Time { return timeBase.Add(time.Duration(k) * time.Second) }
func untick(t time.Time) int64 {
	return int64(t.Sub(timeBase) / time.Second)
}

func errClass(err error) string {
	switch errors.Root(err) {
	case nil:
		return ""
	case account.ErrInsufficient:
		return "insufficient"
	case account.ErrImmature:
		return "immature"
	case account.ErrReserved:
		return "reserved"
	case account.ErrMatchUTXO:
		return "nomatch"
	}
	return "other"
}

// exec runs one operation against the real code.  A panic of the code under
// test is caught and reported as outcome "panic" (the keeper's lock is
// released by its deferred Unlock).
func (sy *sys) exec(w *world, o *op) (r *result) {
	r = &result{}
	defer func() {
		if p := recover(); p != nil {
			r.err, r.errMsg, r.panicSite = "panic", fmt.Sprint(p), ev.PanicSite(string(debug.Stack()))
		}
	}()
	fill := func(res *account.VerifReservation, err error) {
		if err != nil {
			r.err, r.errMsg = errClass(err), err.Error()
			return
		}
		if res == nil {
			r.err, r.errMsg = "other", "nil reservation without error"
			return
		}
		r.rid, r.change, r.expiry, r.utxos = res.ID, res.Change, res.Expiry, res.UTXOs
		for _, u := range res.UTXOs {
			i, ok := w.byID[u.OutputID]
			if !ok {
				i = -1
			}
			r.outs = append(r.outs, i)
		}
	}
	switch o.kind {
	case opReserve:
		asset := w.assets[o.asset]
		fill(sy.k.Reserve(w.accs[o.acc], &asset, o.amount, o.useUnc, w.votes[o.vote], tick(o.exp)))
	case opParticular:
		id := w.ghost
		if o.out < len(w.specs) {
			id = w.specs[o.out].id
		}
		fill(sy.k.ReserveParticular(id, o.useUnc, tick(o.exp)))
	case opCancel:
		sy.k.Cancel(o.rid)
	case opExpire:
		sy.k.ExpireReservation(tick(o.t))
	case opAddUnc:
		u := w.specs[o.out].utxo
		sy.k.AddUnconfirmedUtxo([]*account.UTXO{&u})
	case opRemUnc:
		id := w.ghost
		if o.out < len(w.specs) {
			id = w.specs[o.out].id
		}
		sy.k.RemoveUnconfirmedUtxo([]*bc.Hash{&id})
	case opConfirm:
		sy.confirm(w, o.out)
	case opSpend:
		sy.db.Delete(w.dbKey(o.out))
	case opHeight:
		atomic.StoreUint64(sy.height, o.height)
	case opSnapshot:
		r.snap = w.view(sy.k.Snapshot())
	}
	return r
}

// view translates a locked snapshot and checks its structural invariants:
// no output in two live reservations (the property), and `reserved` being
// exactly the index of `reservations`.
func (w *world) view(sn account.VerifKeeperSnapshot) *snapView {
	v := &snapView{rids: map[uint64]int64{}}
	prob := func(format string, a ...interface{}) { v.problems = append(v.problems, fmt.Sprintf(format, a...)) }
	holder := map[bc.Hash]uint64{}
	for rid, res := range sn.Reservations {
		if res.ID != rid {
			prob("reservation-id-mismatch: table key %d id %d", rid, res.ID)
		}
		v.rids[rid] = untick(res.Expiry)
		for _, u := range res.UTXOs {
			if other, ok := holder[u.OutputID]; ok && other != rid {
				prob("output-in-two-reservations: %s held by %d and %d", u.OutputID.String(), other, rid)
				continue
			}
			holder[u.OutputID] = rid
			i, ok := w.byID[u.OutputID]
			if !ok {
				prob("unknown-output: %s in reservation %d", u.OutputID.String(), rid)
				continue
			}
			v.held[i], v.exp[i] = rid, untick(res.Expiry)
		}
	}
	for id, rid := range sn.Reserved {
		if holder[id] != rid {
			prob("reserved-map-mismatch: reserved[%s]=%d but it is held by %d", id.String(), rid, holder[id])
		}
	}
	for id, rid := range holder {
		if got, ok := sn.Reserved[id]; !ok || got != rid {
			prob("reserved-map-mismatch: %s held by reservation %d but reserved[] says %d (present=%v)", id.String(), rid, got, ok)
		}
	}
	for id := range sn.Unconfirmed {
		i, ok := w.byID[id]
		if !ok {
			prob("unknown-output: %s in unconfirmed", id.String())
			continue
		}
		v.unc |= 1 << uint(i)
	}
	return v
}

// problemKey: the stable part of a view problem ("output-in-two-reservations").
func problemKey(p string) string {
	for i := 0; i < len(p); i++ {
		if p[i] == ':' {
			return p[:i]
		}
	}
	return p
}

// ---- universe

func rand32(rng *ev.Rand) (b [32]byte) {
	copy(b[:], rng.Bytes(32))
	return b
}

const baseHeight = 100

// genWorld: 3..8 outputs over 2 accounts x 2 assets x vote/no vote, two thirds
// of them in one "main" class so that selections combine several outputs.
// Some are immature (validHeight above the height), one may be a contract
// output.  In overlap worlds some outputs (mature or immature) may be confirmed and
// unconfirmed at the same time (same output id, identical attributes: the state
// between the wallet attaching a block and processing the pool removal).  In
// the other worlds every output is either a DB output or a pool output, never
// both.
func genWorld(rng *ev.Rand, overlap, huge bool) *world {
	w := &world{overlap: overlap, huge: huge, byID: map[bc.Hash]int{}}
	w.accs = [2]string{"acc0", "acc1"}
	w.assets[0], w.assets[1] = bc.NewAssetID(rand32(rng)), bc.NewAssetID(rand32(rng))
	w.votes[1] = rng.Bytes(64)
	w.ghost = bc.NewHash(rand32(rng))
	w.init.height = baseHeight
	n := rng.Range(3, 8)
	mAcc, mAsset, mVote := rng.Intn(2), rng.Intn(2), 0
	if !overlap && rng.Chance(1, 3) {
		mVote = 1
	}
	var last uint64
	for i := 0; i < n; i++ {
		sp := spec{acc: mAcc, asset: mAsset, vote: mVote}
		if i > 0 && rng.Chance(1, 3) {
			sp.acc, sp.asset, sp.vote = rng.Intn(2), rng.Intn(2), rng.Intn(2)
		}
		switch {
		case huge:
			sp.amount = 1<<62 + rng.Uint64()>>2 // [2^62, 2^63)
			if rng.Chance(1, 3) {
				sp.amount = 1<<63 - 1
			}
		case last != 0 && rng.Chance(1, 4):
			sp.amount = last // ties
		default:
			sp.amount = uint64(rng.Range(1, 9))
		}
		last = sp.amount
		if rng.Chance(1, 5) {
			sp.validHeight = baseHeight + uint64(rng.Range(1, 3))
		}
		switch {
		case i > 1 && rng.Chance(1, 12):
			sp.contract, sp.acc, sp.canDB = true, -1, true
		case overlap && (i == 0 || rng.Chance(2, 3)): // mature or immature, vote or not: it is one output wherever it is stored
			sp.canDB, sp.canPool = true, true
		case rng.Chance(3, 5):
			sp.canDB = true
		default:
			sp.canPool = true
		}
		sp.id = bc.NewHash(rand32(rng))
		u := account.UTXO{OutputID: sp.id, SourceID: bc.NewHash(rand32(rng)), AssetID: w.assets[sp.asset], Amount: sp.amount,
			SourcePos: uint64(i), ControlProgram: append([]byte{0x00, 0x14}, rng.Bytes(20)...), ValidHeight: sp.validHeight,
			ControlProgramIndex: uint64(i + 1)}
		if sp.acc >= 0 {
			u.AccountID = w.accs[sp.acc]
			u.Address = fmt.Sprintf("addr%d", i)
		}
		if sp.vote == 1 {
			u.Vote = append([]byte{}, w.votes[1]...)
		}
		sp.utxo = u
		if sp.canDB && rng.Chance(3, 4) {
			w.init.db |= 1 << uint(i)
		}
		if sp.canPool && rng.Chance(2, 3) {
			w.init.unc |= 1 << uint(i)
		}
		w.byID[sp.id] = i
		w.specs = append(w.specs, sp)
	}
	return w
}

// sink is where a driver reports (an *ev.Case, or a collector in self-tests).
type sink interface {
	Violation(key, what string, witness interface{})
	Count(name string, n int64)
	Max(name string, v int64)
	Distinct(format string, a ...interface{})
	Inconclusive(format string, a ...interface{})
}
