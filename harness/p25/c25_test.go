// C25 — the wallet never reports an output as usable that consensus does not
// let be spent in the next block.
//
// Same histories as C24 (a real wallet following a real node through block trees
// and vote-driven rollbacks).  At every quiescent point of the updater, for every
// UTXO record of the wallet that is unspent on the main chain, the wallet itself
// is asked whether it hands the output out for spending (the real spend-UTXO
// build action: utxoKeeper.ReserveParticular with its maturity test against the
// chain's best height h).  If it does, the reference ledger must allow the spend
// at height h+1: coinbase created + 10 <= h+1, vote created + lock <= h+1.  At the
// end of a history probe blocks spending usable outputs are given to the real node.
package p25

import (
	"fmt"
	"sort"
	"testing"

	"github.com/bytom/bytom/account"
	"github.com/bytom/bytom/consensus"
	"github.com/bytom/bytom/protocol/bc/types"

	"verif/internal/chainkit"
	"verif/internal/ev"
	"verif/internal/walletkit"
)

type cand struct {
	u         *account.UTXO
	typ       chainkit.UType
	created   uint64
	restored  bool
	spendable bool
}

type oracle struct {
	final []cand
	last  *walletkit.Point
}

func originOf(restored bool) string {
	if restored {
		return "restored-by-detach"
	}
	return "attached"
}

func keyOf(typ chainkit.UType, restored bool) string {
	why := "locked"
	if typ == chainkit.UCoinbase {
		why = "immature"
	}
	return fmt.Sprintf("usable-but-%s:%s:%s", why, typ, originOf(restored))
}

func (o *oracle) At(p *walletkit.Point) {
	c := p.C
	s := p.S
	net := s.Env.Net
	h := p.Best.Height
	o.last = p
	o.final = o.final[:0]
	for _, u := range p.Std {
		e := p.Expected[u.OutputID]
		if e == nil {
			// not an unspent output of the main chain at all: that is C24's finding, not a maturity question
			c.Count("records_not_on_main_chain_skipped(C24)", 1)
			continue
		}
		ref := p.Best.Utxo[u.OutputID]
		restored := s.Restored[u.OutputID]
		usable, class := p.W.Usable(u.OutputID)
		spendable := net.Spendable(ref, h+1)
		tag := e.Type.String() + ":" + originOf(restored)
		c.Count("checked:"+tag, 1)
		if (u.ValidHeight <= h) != usable && (class == "" || class == "immature") {
			c.Count("usable_answer_differs_from_ValidHeight<=height", 1)
		}
		if restored && e.Type != chainkit.UNormal && u.ValidHeight == 0 {
			c.Count("restored_records_with_ValidHeight_0:"+e.Type.String(), 1)
		}
		switch {
		case usable && spendable:
			c.Count("usable_and_spendable:"+tag, 1)
		case usable && !spendable:
			c.Count("usable_but_not_spendable:"+tag, 1)
			earliest := net.EarliestSpend(ref)
			c.Violation(keyOf(e.Type, restored), "the wallet hands out an output for spending at the current height although consensus does not let it be spent in the next block",
				map[string]interface{}{"output_history": s.Ix.Describe(u.OutputID, p.Best), "record_valid_height": u.ValidHeight, "created_at_height": e.Height,
					"chain_best_height": h, "earliest_height_consensus_allows_the_spend": earliest, "wallet_answer": "ReserveParticular succeeded", "transition": p.Transition()})
		case !usable && class == "immature":
			c.Count("refused_immature:"+e.Type.String(), 1)
			if spendable {
				// allowed by the property: the wallet is stricter by one block (ValidHeight <= h vs created+lock <= h+1)
				c.Count("refused_though_spendable_next_block:"+e.Type.String(), 1)
			}
		default:
			c.Count("refused_other:"+class, 1)
		}
		if p.Final && usable {
			o.final = append(o.final, cand{u, e.Type, e.Height, restored, spendable})
		}
		// The wallet's mempool loop lags: the transaction that created this output is still in the wallet's
		// unconfirmed set although its block is attached, so the output is known twice (stored record with the
		// lock of the block, pool record made when the transaction was only pending).  It is one output: with
		// use_unconfirmed the answer must still respect the lock of the chain.
		if p.PoolHeld[u.OutputID] {
			c.Count("pool_held_records_checked:"+e.Type.String(), 1)
			if !spendable {
				c.Count("pool_held_records_locked_by_the_chain:"+e.Type.String(), 1)
			}
			if usableU, _ := p.W.UsableWith(u.OutputID, true); usableU && !spendable {
				c.Violation(keyOf(e.Type, restored)+":use-unconfirmed:creating-transaction-still-in-the-wallets-pool",
					"with use_unconfirmed the wallet hands out an output although consensus does not let it be spent in the next block: the record made while its transaction was pending (lock counted from height 0) is preferred to the stored record of the confirmed output",
					map[string]interface{}{"output_history": s.Ix.Describe(u.OutputID, p.Best), "stored_record_valid_height": u.ValidHeight, "created_at_height": e.Height,
						"chain_best_height": h, "earliest_height_consensus_allows_the_spend": net.EarliestSpend(ref), "wallet_answer": "ReserveParticular(use_unconfirmed) succeeded",
						"wallet_answer_without_use_unconfirmed": map[string]interface{}{"usable": usable, "class": class}, "transition": p.Transition()})
			}
			if e.Type == chainkit.UVote && len(u.Vote) > 0 {
				ids, cl := p.W.VetoSelects(u.AccountID, u.Vote, u.Amount, true)
				c.Count("pool_held_account_level_vetoes:"+map[bool]string{true: "built", false: "refused-" + cl}[cl == ""], 1)
				for _, id := range ids {
					r2 := p.Best.Utxo[id]
					if r2 == nil {
						c.Count("pool_held_veto_selected_output_not_on_main_chain(not_judged)", 1)
						continue
					}
					if !net.Spendable(r2, h+1) {
						c.Violation("veto-selects-locked-vote-output:use-unconfirmed:creating-transaction-still-in-the-wallets-pool",
							"an account-level veto with use_unconfirmed selects a vote output that consensus does not let be spent in the next block",
							map[string]interface{}{"selected_output_history": s.Ix.Describe(id, p.Best), "chain_best_height": h, "earliest_height_consensus_allows_the_spend": net.EarliestSpend(r2),
								"requested_amount": u.Amount, "transition": p.Transition()})
						break
					}
				}
			}
		}
	}
	c.Count("points_checked", 1)
}

// Finish gives the real node probe blocks: spends of outputs the wallet called
// usable.  Those the reference allows must be accepted; one that the reference
// forbids (a violation found above) must be rejected by the node as well.
func (o *oracle) Finish(s *walletkit.Session) {
	c := s.C
	net := s.Env.Net
	p := o.last
	if p == nil || !p.Final {
		return
	}
	rank := func(x cand) int {
		r := 0
		if x.restored {
			r -= 4
		}
		if x.typ != chainkit.UNormal {
			r -= 2
		}
		return r
	}
	sort.SliceStable(o.final, func(i, j int) bool { return rank(o.final[i]) < rank(o.final[j]) })
	cur := p.Best
	used := map[string]bool{}
	probe := func(x cand, expectValid bool) (accepted bool, errs string, ok bool) {
		ref := cur.Utxo[x.u.OutputID]
		if ref == nil {
			return false, "", false
		}
		fd := s.FundAt(cur)
		if fd == nil {
			return false, "", false
		}
		ins := []*chainkit.UTXO{ref.U, fd}
		outs := []chainkit.Out{}
		if ref.U.Asset != chainkit.BTM {
			outs = append(outs, chainkit.Out{Asset: ref.U.Asset, Amount: ref.U.Amount, Program: chainkit.TrueProg})
			outs = append(outs, chainkit.Out{Asset: chainkit.BTM, Amount: fd.Amount - walletkit.Fee, Program: chainkit.RandProg(c.Rand)})
		} else {
			outs = append(outs, chainkit.Out{Asset: chainkit.BTM, Amount: fd.Amount + ref.U.Amount - walletkit.Fee, Program: chainkit.RandProg(c.Rand)})
		}
		tx := s.W.SignedTx(ins, outs)
		pb, err := s.Tree.Build(cur, []*types.Tx{tx}, chainkit.BlockOpt{NoRefCheck: !expectValid})
		if err != nil {
			c.Inconclusive("harness: probe block: %v", err)
			return false, "", false
		}
		_, perr := s.Node.Chain.ProcessBlock(chainkit.CloneBlock(pb.B))
		accepted = perr == nil && s.Node.Best() == pb.Hash
		if accepted {
			cur = pb
		}
		return accepted, fmt.Sprint(perr), true
	}
	// a history that produced a usable-but-unspendable output gets only the expected-invalid
	// probe: accepted probe blocks would raise the height and unlock the output
	hasInvalid := false
	for _, x := range o.final {
		if !x.spendable {
			hasInvalid = true
		}
	}
	n := 0
	for _, x := range o.final {
		if hasInvalid || !x.spendable || n >= 3 || used[x.u.OutputID.String()] {
			continue
		}
		ref := cur.Utxo[x.u.OutputID]
		if ref == nil || !net.Spendable(ref, cur.Height+1) {
			continue
		}
		used[x.u.OutputID.String()] = true
		acc, errs, ok := probe(x, true)
		if !ok {
			return
		}
		n++
		c.Count("probe_blocks_spending_usable_output:"+x.typ.String()+":"+originOf(x.restored), 1)
		c.Count("probe_blocks_spending_usable_output", 1)
		if !acc {
			c.Violation("probe:usable-output-spend-rejected-by-node:"+x.typ.String(), "the node rejects a block spending an output the wallet calls usable and the reference ledger calls spendable",
				map[string]interface{}{"output_history": s.Ix.Describe(x.u.OutputID, cur), "error": errs, "block_height": cur.Height + 1, "history": s.Kind})
			return
		}
	}
	// at most one expected-invalid probe, last (a refused block stays in the node's tree)
	for _, x := range o.final {
		if x.spendable {
			continue
		}
		ref := cur.Utxo[x.u.OutputID]
		if ref == nil || net.Spendable(ref, cur.Height+1) {
			continue
		}
		acc, errs, ok := probe(x, false)
		if !ok {
			return
		}
		c.Count("probe_blocks_spending_usable_but_locked_output", 1)
		if acc {
			c.Violation("probe:reference-forbids-but-node-accepts:"+x.typ.String(), "DOUBT: the reference ledger forbids the spend of an output the wallet called usable, yet the real node accepts the block (reference model or node wrong)",
				map[string]interface{}{"output_history": s.Ix.Describe(x.u.OutputID, cur), "block_height": cur.Height + 1, "history": s.Kind})
		} else {
			c.Count("probe_locked_spend_rejected_by_node:"+x.typ.String(), 1)
			c.Count("node_error:"+errClass(errs), 1)
		}
		break
	}
	s.Ix.Update(s.Tree)
}

func errClass(s string) string {
	for _, k := range []string{"voting lock", "not ready for use", "fail to find utxo", "has been spent"} {
		if contains(s, k) {
			return k
		}
	}
	if len(s) > 40 {
		s = s[:40]
	}
	return s
}

func contains(s, sub string) bool {
	for i := 0; i+len(sub) <= len(s); i++ {
		if s[i:i+len(sub)] == sub {
			return true
		}
	}
	return false
}

func TestC25(t *testing.T) {
	r := ev.Start(t, "C25")
	defer r.Finish()
	env := walletkit.Setup()
	base := t.TempDir()
	r.Rule("a real wallet follows a real node; history class 'tree': random block trees (26-44 blocks) with wallet-owned normal / vote / coinbase-reward outputs, spends at the maturity / lock boundary, forks that roll spends back, four delivery orders; history class 'mini-fork': a 4-block common chain, one block with a chosen wallet content (vote receipt / spend / veto / chained spend) overtaken by a 2-block branch and brought back; history class 'rollback-restart': a wallet vote output / coinbase reward is spent at its earliest height on branch A, the federation justifies a shorter branch B forking below the spend, and the restarted wallet walks the rollback. At every quiescent point each wallet record that is unspent on the main chain is put to the wallet's own spend-UTXO action; usable => spendable at the next height per the reference ledger; probe blocks on the real node at the end. distinct = (history class, tree shape, delivery order)")
	r.Assume(fmt.Sprintf("'reported usable at the current height' = the wallet's spend-UTXO build action reserves the output (utxoKeeper.ReserveParticular: ValidHeight <= chain best height); 'spendable at the next height' = reference ledger (coinbase: created+%d <= h+1, vote: created+%d <= h+1), cross-checked by probe blocks on the real node; records that are not unspent outputs of the main chain are C24's business and skipped; points where the updater has not been woken are not judged", consensus.CoinbasePendingBlockNumber, env.Net.P.VotePending))
	r.Cases("mini-fork", r.N(8, 80), func(c *ev.Case) {
		walletkit.RunMini(c, env, fmt.Sprintf("%s/m%d", base, c.Index), &oracle{})
	})
	r.Cases("tree", r.N(24, 1000), func(c *ev.Case) {
		walletkit.RunTree(c, env, fmt.Sprintf("%s/t%d", base, c.Index), &oracle{})
	})
	r.Cases("rollback-restart", r.N(16, 250), func(c *ev.Case) {
		walletkit.RunRollback(c, env, fmt.Sprintf("%s/r%d", base, c.Index), &oracle{})
	})
	r.Floor("points_checked", 300)
	r.Floor("checked:vote:attached", 100)
	r.Floor("checked:coinbase:attached", 50)
	r.Floor("checked:vote:restored-by-detach", 4)
	r.Floor("checked:coinbase:restored-by-detach", 2)
	r.Floor("checked:normal:restored-by-detach", 5)
	r.Floor("refused_immature:vote", 50)
	r.Floor("refused_immature:coinbase", 50)
	r.Floor("usable_and_spendable:vote:attached", 20)
	r.Floor("usable_and_spendable:coinbase:attached", 5)
	r.Floor("reorganisation_walks", 30)
	r.Floor("reorganisation_walks_by_restarted_wallet", 8)
	r.Floor("probe_blocks_spending_usable_output", 30)
}
