package p23

import (
	"fmt"

	"github.com/bytom/bytom/consensus"
	"github.com/bytom/bytom/protocol/bc"

	"verif/internal/chainkit"
	"verif/internal/ev"
)

// Scripted histories: the canonical shapes of the property, each with seeded
// variation (fresh transaction ids, number of back-and-forth rounds, whether a
// transaction is submitted before it is confirmed).  They make the quick tier
// independent of what the random generator happens to produce.

func scriptUniverse(r *ev.Rand, g *chainkit.Genesis) *universe {
	u := &universe{ByID: map[bc.Hash]*utx{}}
	one := func(i int) []*chainkit.UTXO { return []*chainkit.UTXO{g.Funds[i]} }
	r0 := u.add("R0", "root", pay(r, one(0), 2, 0, nil), nil, false)
	u.add("R0x", "conflict", pay(r, one(0), 1, 0, nil), nil, false)
	r1 := u.add("R1", "root", pay(r, one(1), 2, 0, nil), nil, false)
	c := u.add("C", "child", pay(r, btmOuts(r0.Tx)[:1], 1, 0, nil), []int{r0.Idx}, false)
	u.add("Cx", "child-conflict", pay(r, btmOuts(r0.Tx)[:1], 2, 0, nil), []int{r0.Idx}, false)
	u.add("G", "grandchild", pay(r, btmOuts(c.Tx)[:1], 1, 0, nil), []int{c.Idx}, false)
	u.add("J", "join", pay(r, []*chainkit.UTXO{btmOuts(r0.Tx)[1], btmOuts(r1.Tx)[1]}, 1, 0, nil), []int{r0.Idx, r1.Idx}, false)
	u.add("T", "time-range", pay(r, one(2), 1, 1, nil), nil, false)
	reg := chainkit.Out{Asset: chainkit.BTM, Amount: consensus.BCRPRequiredBTMAmount, Program: chainkit.RegisterProg([]byte{0x51, byte(0x51 + r.Intn(8)), 0x87})}
	u.add("D", "dust-bcrp", pay(r, one(3), 1, 0, []chainkit.Out{reg}), nil, true)
	u.add("R4", "root", pay(r, one(4), 1, 0, nil), nil, false)
	return u
}

func (u *universe) get(name string) *utx {
	for _, x := range u.Txs {
		if x.Name == name {
			return x
		}
	}
	panic("script: no transaction " + name)
}

// grow builds one block on tip confirming txs and delivers it; nil = stop.
func (h *history) grow(tip *chainkit.Blk, txs ...*utx) *chainkit.Blk {
	if h.stopped || tip == nil {
		return nil
	}
	b := h.build(tip, txs...)
	if b == nil || !h.deliver(b) {
		return nil
	}
	return b
}

// overtake extends tip with empty blocks until the node's best block is on it.
func (h *history) overtake(tip *chainkit.Blk) *chainkit.Blk {
	for i := 0; i < 8 && tip != nil; i++ {
		if h.nd.Best() == tip.Hash {
			return tip
		}
		tip = h.grow(tip)
	}
	if tip != nil && h.nd.Best() != tip.Hash {
		h.c.Inconclusive("case %d: script could not make branch %s win", h.c.Index, blkName(tip))
		h.stopped = true
		return nil
	}
	return tip
}

// pingpong alternates the best chain between two tips for n rounds.
func (h *history) pingpong(a, b *chainkit.Blk, n int) (*chainkit.Blk, *chainkit.Blk) {
	for i := 0; i < n; i++ {
		if a == nil || b == nil || h.stopped {
			return nil, nil
		}
		if h.nd.Best() == a.Hash {
			b = h.overtake(b)
		} else {
			a = h.overtake(a)
		}
	}
	if a == nil || b == nil || h.stopped {
		return nil, nil
	}
	return a, b
}

type scenario struct {
	name string
	run  func(h *history, r *ev.Rand, u *universe) string // returns the variation class
}

func maybeSend(h *history, r *ev.Rand, xs ...*utx) string {
	cl := ""
	for _, x := range xs {
		if r.Bool() {
			h.send(x)
			cl += "s"
		} else {
			cl += "-"
		}
	}
	return cl
}

var scenarios = []scenario{
	{"confirm-pooled", func(h *history, r *ev.Rand, u *universe) string {
		h.send(u.get("R0"))
		h.send(u.get("R1"))
		h.send(u.get("C"))
		a := h.grow(h.tr.Root, u.get("R0"))
		a = h.grow(a, u.get("R1"), u.get("C"))
		h.grow(a, u.get("J"))
		return ""
	}},
	{"side-branch-overtakes", func(h *history, r *ev.Rand, u *universe) string {
		cl := maybeSend(h, r, u.get("R1"))
		h.send(u.get("R0"))
		a := h.grow(h.tr.Root)
		b := h.grow(h.tr.Root, u.get("R0"), u.get("R1"))
		b = h.overtake(b)
		h.pingpong(a, b, r.Range(1, 3))
		return cl
	}},
	{"pingpong-restore", func(h *history, r *ev.Rand, u *universe) string {
		cl := maybeSend(h, r, u.get("R0"), u.get("R1"))
		a := h.grow(h.tr.Root, u.get("R0"), u.get("R1"))
		b := h.grow(h.tr.Root)
		n := r.Range(2, 5)
		a, b = h.pingpong(a, b, n)
		if a != nil {
			// the branch without the transactions finally confirms one of them
			b = h.overtake(b)
			h.grow(b, u.get("R1"))
		}
		return fmt.Sprintf("%s n%d", cl, n)
	}},
	{"pingpong-conflict", func(h *history, r *ev.Rand, u *universe) string {
		cl := maybeSend(h, r, u.get("R0"), u.get("R0x"), u.get("C"))
		a := h.grow(h.tr.Root, u.get("R0"))
		b := h.grow(h.tr.Root, u.get("R0x"))
		n := r.Range(2, 5)
		a, b = h.pingpong(a, b, n)
		if a != nil {
			h.send(u.get("R0"))
			h.send(u.get("R0x"))
			h.pingpong(a, b, 2)
		}
		return fmt.Sprintf("%s n%d", cl, n)
	}},
	{"pingpong-chain", func(h *history, r *ev.Rand, u *universe) string {
		cl := maybeSend(h, r, u.get("R0"), u.get("C"), u.get("G"))
		a := h.grow(h.tr.Root, u.get("R0"), u.get("C"))
		a = h.grow(a, u.get("G"), u.get("R1"))
		a = h.grow(a, u.get("J"))
		b := h.grow(h.tr.Root)
		n := r.Range(2, 4)
		a, b = h.pingpong(a, b, n)
		if a != nil {
			b = h.overtake(b)
			b = h.grow(b, u.get("R0"), u.get("Cx")) // the other branch confirms the parent and a conflicting child
			h.pingpong(a, b, 2)
		}
		return fmt.Sprintf("%s n%d", cl, n)
	}},
	{"same-tx-on-both-branches", func(h *history, r *ev.Rand, u *universe) string {
		cl := maybeSend(h, r, u.get("R0"), u.get("C"))
		a := h.grow(h.tr.Root, u.get("R0"))
		b := h.grow(h.tr.Root, u.get("R0"), u.get("C"))
		h.send(u.get("C"))
		n := r.Range(2, 4)
		h.pingpong(a, b, n)
		return fmt.Sprintf("%s n%d", cl, n)
	}},
	{"orphan-resubmitted-parent-restored", func(h *history, r *ev.Rand, u *universe) string {
		h.send(u.get("C")) // parked as orphan: R0 is unknown
		a := h.grow(h.tr.Root, u.get("R0"))
		a = h.overtake(a)
		h.send(u.get("C")) // R0 is confirmed now: C enters the pool
		b := h.grow(h.tr.Root)
		n := r.Range(1, 3)
		a, b = h.pingpong(a, b, n) // R0 un-confirmed and restored
		if a != nil {
			best := h.tr.ByHash[h.nd.Best()]
			h.grow(best, pickScript(u, best, "R0", "C")...)
		}
		return fmt.Sprintf("n%d", n)
	}},
	{"submitted-after-confirmation", func(h *history, r *ev.Rand, u *universe) string {
		a := h.grow(h.tr.Root, u.get("R0"), u.get("C"))
		h.send(u.get("R0"))
		h.send(u.get("C"))
		b := h.grow(h.tr.Root)
		n := r.Range(2, 4)
		a, b = h.pingpong(a, b, n)
		if a != nil {
			h.send(u.get("R0"))
			h.send(u.get("C"))
			h.pingpong(a, b, 2)
		}
		return fmt.Sprintf("n%d", n)
	}},
	{"time-range-and-dust-not-restored", func(h *history, r *ev.Rand, u *universe) string {
		cl := maybeSend(h, r, u.get("T"), u.get("D"))
		a := h.grow(h.tr.Root, u.get("T"), u.get("D"), u.get("R4"))
		b := h.grow(h.tr.Root)
		n := r.Range(2, 4)
		a, b = h.pingpong(a, b, n)
		if a != nil {
			h.send(u.get("T"))
			h.send(u.get("D"))
			h.pingpong(a, b, 1)
		}
		return fmt.Sprintf("%s n%d", cl, n)
	}},
	{"vote-moves-best-to-shorter-branch", func(h *history, r *ev.Rand, u *universe) string {
		cl := maybeSend(h, r, u.get("R0"), u.get("R0x"), u.get("R1"), u.get("R4"))
		a := h.grow(h.tr.Root, u.get("R0"))
		a = h.grow(a, u.get("C"))
		a = h.grow(a)
		a = h.grow(a) // height 4: checkpoint
		cp := a
		b := h.grow(h.tr.Root, u.get("R0x"))
		b = h.grow(b, u.get("R1"))
		b = h.overtake(b)
		b = h.grow(b, u.get("R4"))
		if a == nil || b == nil || cp == nil {
			return cl
		}
		for _, k := range r.Perm(4)[:3] {
			h.vote(k, cp)
		}
		// the justified branch stays best however long the other one grows
		b = h.grow(b)
		h.grow(cp, pickScript(u, h.tr.ByHash[h.nd.Best()], "R1", "R4")...)
		return cl
	}},
	{"orphan-blocks-connect-in-bulk", func(h *history, r *ev.Rand, u *universe) string {
		cl := maybeSend(h, r, u.get("R0"), u.get("R1"), u.get("C"))
		a := h.grow(h.tr.Root, u.get("R0"))
		// branch b arrives children first
		b1 := h.build(h.tr.Root, u.get("R1"))
		b2 := h.build(b1, u.get("R0"), u.get("C"))
		b3 := h.build(b2, u.get("J"))
		for _, b := range []*chainkit.Blk{b3, b2, b1} {
			if !h.deliver(b) {
				return cl
			}
		}
		h.pingpong(a, b3, r.Range(1, 3))
		return cl
	}},
}

// pickScript returns the named transactions that are ledger-valid on top of best, in the given order.
func pickScript(u *universe, best *chainkit.Blk, names ...string) []*utx {
	var res []*utx
	spent := map[bc.Hash]bool{}
	made := map[bc.Hash]bool{}
	for _, n := range names {
		x := u.get(n)
		ok := true
		for _, id := range x.Tx.SpentOutputIDs {
			if _, in := best.Utxo[id]; spent[id] || (!in && !made[id]) {
				ok = false
			}
		}
		if !ok {
			continue
		}
		for _, id := range x.Tx.SpentOutputIDs {
			spent[id] = true
		}
		for _, o := range chainkit.Outputs(x.Tx) {
			made[o.ID] = true
		}
		res = append(res, x)
	}
	return res
}

func runScript(c *ev.Case, net *chainkit.Net, g *chainkit.Genesis, base string) {
	sc := scenarios[c.Index%len(scenarios)]
	rng := c.Rand
	u := scriptUniverse(rng, g)
	tr := net.NewTree(g)
	c.Journal(map[string]interface{}{"scenario": sc.name, "transactions": u.legend()})
	h := open(c, net, g, base, tr, u)
	if h == nil {
		return
	}
	defer h.close()
	class := sc.run(h, rng, u)
	c.Distinct("script %s %s | %s", sc.name, class, tr.Shape())
	if h.stopped {
		return
	}
	c.Count("scripted_histories_completed", 1)
	c.Count("script:"+sc.name, 1)
	if c.WantSample() {
		c.Sample(map[string]interface{}{"scenario": sc.name, "class": class, "transactions": u.legend(), "history": h.trail})
	}
}
