// C23 — confirmed transactions leave the mempool.
//
// A real node (GoLevelDB store, chain, casper, TxPool, event dispatcher) receives a
// block tree whose branches confirm different subsets of one universe of harness
// transactions (independent spends of genesis funds, conflicting spends of one
// output, chains, two-parent joins, a time-ranged transaction, a BCRP registration
// the pool refuses as dust).  Transactions are submitted through Chain.ValidateTx,
// as the node does, before / after / between / never relative to their confirmation;
// blocks arrive so that the best chain goes back and forth between the branches
// (overtaking branches, hash ties, bulk connection of orphans, verification
// messages that justify a checkpoint of a shorter branch).
//
// After EVERY step, once every pool notification posted so far has been recorded
// (sentinel through the same dispatcher), the oracle demands
//  1. no transaction returned by TxPool.GetTransactions is contained in a block
//     that is an ancestor of the node's best block (harness tree; cross-checked
//     with Chain.InMainChain);
//  2. per transaction id the TxMsgEvent stream is (New Remove)* [New]: a Remove
//     is preceded by a New that no other Remove matched, and an id is not
//     announced as added twice without a Remove in between.
//
// What happens to un-confirmed transactions after a reorganisation (restored /
// lost and why) is counted, not demanded.
package p23

import (
	"fmt"
	"os"
	"path/filepath"
	"sort"
	"strings"
	"testing"

	"github.com/bytom/bytom/protocol"
	"github.com/bytom/bytom/protocol/bc"
	"github.com/bytom/bytom/protocol/bc/types"

	"verif/internal/chainkit"
	"verif/internal/ev"
)

func TestMain(m *testing.M) {
	chainkit.Quiet()
	os.Exit(m.Run())
}

// history is the state of one case.
type history struct {
	c   *ev.Case
	net *chainkit.Net
	tr  *chainkit.Tree
	u   *universe
	nd  *chainkit.Node
	rc  *recorder
	pr  *pairing

	blocksOf  map[bc.Hash][]*chainkit.Blk // tx id -> blocks of the tree that contain it
	delivered map[bc.Hash]bool
	stored    map[bc.Hash]bool
	everMain  map[bc.Hash]bool // tx was confirmed on the main chain at some point
	leftMain  map[bc.Hash]bool // block was on the main chain and got detached
	prevPool  map[bc.Hash]bool
	prevBest  *chainkit.Blk
	evSeen    int
	trail     []string
	stopped   bool
	bad       map[bc.Hash]bool // pooled and confirmed at the previous check (reported once, at the step that caused it)
	mismatch  bool             // pool / notification-stream mismatch already reported for this case
}

func (h *history) name(id bc.Hash) string {
	if x := h.u.ByID[id]; x != nil {
		return x.Name
	}
	return "?" + chainkit.HashShort(id)
}

func (h *history) txHex(id bc.Hash) string {
	if x := h.u.ByID[id]; x != nil {
		if b, err := x.Tx.MarshalText(); err == nil {
			return string(b)
		}
	}
	return ""
}

func (h *history) names(m map[bc.Hash]bool) string {
	var l []string
	for id := range m {
		l = append(l, h.name(id))
	}
	sort.Strings(l)
	return strings.Join(l, " ")
}

func (h *history) witness(extra map[string]interface{}) map[string]interface{} {
	w := map[string]interface{}{
		"transactions": h.u.legend(),
		"tree":         treeDesc(h.tr, h.u),
		"history":      append([]string{}, h.trail...),
	}
	for k, v := range extra {
		w[k] = v
	}
	return w
}

// mainBlock returns the stored block on the path genesis..best that contains id.
func (h *history) mainBlock(id bc.Hash, best *chainkit.Blk) *chainkit.Blk {
	for _, b := range h.blocksOf[id] {
		if h.stored[b.Hash] && b.IsAncestorOf(best) {
			return b
		}
	}
	return nil
}

func (h *history) register(b *chainkit.Blk) {
	for _, tx := range b.B.Transactions[1:] {
		h.blocksOf[tx.ID] = append(h.blocksOf[tx.ID], b)
	}
}

func (h *history) markStored() {
	for changed := true; changed; {
		changed = false
		for _, b := range h.tr.All {
			if h.delivered[b.Hash] && !h.stored[b.Hash] && b.Parent != nil && h.stored[b.Parent.Hash] {
				h.stored[b.Hash] = true
				changed = true
			}
		}
	}
}

func classifyErr(err error) string {
	if err == nil {
		return "nil"
	}
	s := err.Error()
	switch {
	case strings.Contains(s, "dust"):
		return "dust"
	case strings.Contains(s, "time range"):
		return "bad-time-range"
	case strings.Contains(s, "pool reach the max"):
		return "pool-full"
	}
	if len(s) > 40 {
		s = s[:40]
	}
	return "other(" + s + ")"
}

// available: every input of tx is unspent in the reference ledger of best or is an output of a pooled transaction.
func (h *history) available(x *utx, best *chainkit.Blk, pool map[bc.Hash]bool) bool {
	for _, id := range x.Tx.SpentOutputIDs {
		if _, ok := best.Utxo[id]; ok {
			continue
		}
		made := false
		for _, p := range x.Parents {
			if pool[h.u.Txs[p].ID] {
				for _, o := range chainkit.Outputs(h.u.Txs[p].Tx) {
					if o.ID == id {
						made = true
					}
				}
			}
		}
		if !made {
			return false
		}
	}
	return true
}

// submit sends a transaction through Chain.ValidateTx, as the node's sync layer and RPC do.
func (h *history) submit(x *utx) {
	c := h.c
	best := h.tr.ByHash[h.nd.Best()]
	state := "never-in-a-stored-block"
	switch {
	case best != nil && h.mainBlock(x.ID, best) != nil:
		state = "confirmed-on-main-chain"
	case h.everMain[x.ID]:
		state = "un-confirmed-by-reorg"
	default:
		for _, b := range h.blocksOf[x.ID] {
			if h.stored[b.Hash] {
				state = "only-in-side-branch-block"
			}
		}
	}
	wasPooled := h.nd.Pool.IsTransactionInPool(&x.ID)
	wasCached := h.nd.Pool.IsTransactionInErrCache(&x.ID)
	isOrphan, err := h.nd.Chain.ValidateTx(cloneTx(x.Tx))
	res := ""
	switch {
	case wasPooled:
		res = "already-pooled"
	case wasCached:
		res = "error-cached"
	case err != nil:
		res = "refused:" + classifyErr(err)
	case isOrphan:
		res = "orphan"
	case h.nd.Pool.IsTransactionInPool(&x.ID):
		res = "pooled"
	default:
		res = "dropped-silently"
	}
	c.Count("submit:"+state+":"+res, 1)
	c.Count("submissions", 1)
	if state == "confirmed-on-main-chain" {
		c.Count("submissions_after_confirmation", 1)
	} else {
		c.Count("submissions_while_unconfirmed", 1)
	}
	h.trail = append(h.trail, fmt.Sprintf("submit %s (%s) -> %s", x.Name, state, res))
}

func cloneTx(tx *types.Tx) *types.Tx {
	return chainkit.Finish(&tx.TxData)
}

// after runs the oracle after a step.  kind names the step class for violation keys.
func (h *history) after(kind string, desc string) {
	c := h.c
	if !h.rc.barrier() {
		c.Inconclusive("case %d: the pool notifications did not drain after %q (watchdog)", c.Index, desc)
		h.stopped = true
		return
	}
	bestHash := h.nd.Best()
	best := h.tr.ByHash[bestHash]
	if best == nil || !h.stored[bestHash] {
		c.Inconclusive("case %d: the node's best block %s is not a block the model considers stored", c.Index, chainkit.HashShort(bestHash))
		h.stopped = true
		return
	}
	reorg := false
	var detached, attached []*chainkit.Blk
	if best.Hash != h.prevBest.Hash {
		fork := best
		for !fork.IsAncestorOf(h.prevBest) {
			attached = append(attached, fork)
			fork = fork.Parent
		}
		for x := h.prevBest; x.Hash != fork.Hash; x = x.Parent {
			detached = append(detached, x)
		}
		reorg = len(detached) > 0
		switch {
		case !reorg:
			kind += "-extending-main-chain"
			c.Count("main_chain_extensions", 1)
		default:
			kind += "-reorganising"
			c.Count("reorganisations", 1)
			c.Count("blocks_detached", int64(len(detached)))
			c.Max("max_detached_blocks", int64(len(detached)))
			if best.Height < h.prevBest.Height {
				c.Count("reorganisations_to_shorter_chain", 1)
			}
			if best.Height == h.prevBest.Height {
				c.Count("reorganisations_on_hash_tie", 1)
			}
			if strings.HasPrefix(kind, "vote") {
				c.Count("reorganisations_caused_by_vote", 1)
			}
			if h.everReturned(best) {
				c.Count("reorganisations_back_to_earlier_branch", 1)
			}
		}
		if len(attached) > 1 {
			c.Count("multi_block_attach", 1)
		}
	}
	h.trail = append(h.trail, fmt.Sprintf("  => best %s", blkName(best)))

	// ---- (2) notification pairing
	evs := h.rc.take(h.evSeen)
	h.evSeen += len(evs)
	for _, e := range evs {
		if key := h.pr.feed(e, fmt.Sprintf("step%d(%s)", len(h.trail), desc)); key != "" {
			c.Violation(key, "the TxMsgEvent stream does not pair additions and removals of one transaction id",
				h.witness(map[string]interface{}{"tx": h.name(e.ID), "tx_id": e.ID.String(), "tx_hex": h.txHex(e.ID), "after": desc,
					"expected": "per transaction id the notifications read (New Remove)* [New]", "observed_events_of_tx": h.pr.log[e.ID]}))
		}
		if e.Type == protocol.MsgNewTx {
			c.Count("events_new", 1)
		} else {
			c.Count("events_remove", 1)
		}
	}

	// ---- (1) pool vs main chain
	pool := map[bc.Hash]bool{}
	var ids []bc.Hash
	for _, d := range h.nd.Pool.GetTransactions() {
		pool[d.Tx.ID] = true
		ids = append(ids, d.Tx.ID)
	}
	c.Count("pooled_tx_checked", int64(len(ids)))
	bad := confirmedPooled(ids, func(id bc.Hash) string {
		if b := h.mainBlock(id, best); b != nil {
			return blkName(b)
		}
		return ""
	})
	for id, b := range bad {
		if h.bad[id] {
			continue // still there: already reported at the step that caused it
		}
		c.Violation("pool-contains-confirmed-tx:after-"+kind, "a transaction of the pool is contained in a main-chain block",
			h.witness(map[string]interface{}{"tx": h.name(id), "tx_id": id.String(), "tx_hex": h.txHex(id), "confirmed_in": b, "best": blkName(best),
				"expected":      "no transaction returned by TxPool.GetTransactions is contained in an ancestor of the best block",
				"observed_pool": h.names(pool), "events_of_tx": h.pr.log[id], "after": desc}))
	}
	h.bad = map[bc.Hash]bool{}
	for id := range bad {
		h.bad[id] = true
	}
	// cross-check the tree walk with Chain.InMainChain for the blocks that contain pooled transactions
	for _, id := range ids {
		for _, b := range h.blocksOf[id] {
			if !h.stored[b.Hash] {
				continue
			}
			in := h.nd.Chain.InMainChain(b.Hash)
			if in != b.IsAncestorOf(best) {
				c.Inconclusive("case %d: Chain.InMainChain(%s)=%v but the block is%s an ancestor of the best block %s (C11's business; C23 cannot decide)",
					c.Index, blkName(b), in, map[bool]string{false: " not"}[b.IsAncestorOf(best)], blkName(best))
				h.stopped = true
				return
			}
			if !in {
				c.Count("pooled_tx_in_side_branch_block", 1)
			}
		}
	}
	// the recorded stream must describe the pool, otherwise it cannot be trusted for (2).  The history
	// goes on: an id that entered the pool unannounced yields remove-without-new when it leaves.
	if !sameSet(pool, h.pr.open) && !h.mismatch {
		h.mismatch = true
		c.Inconclusive("case %d: after %q the ids announced as added and not removed [%s] differ from the pool [%s]: notifications were lost or never posted",
			c.Index, desc, h.names(h.pr.open), h.names(pool))
	}

	// ---- observations about the step
	for _, b := range attached {
		for _, tx := range b.B.Transactions[1:] {
			h.everMain[tx.ID] = true
			if h.prevPool[tx.ID] && !pool[tx.ID] {
				c.Count("removed_from_pool_on_confirmation", 1)
				if reorg {
					c.Count("removed_from_pool_on_confirmation_by_reorg", 1)
				}
			}
			if !h.prevPool[tx.ID] {
				c.Count("confirmed_without_being_pooled", 1)
			}
		}
	}
	if reorg {
		inAttached := map[bc.Hash]bool{}
		for _, b := range attached {
			for _, tx := range b.B.Transactions[1:] {
				inAttached[tx.ID] = true
			}
		}
		for _, b := range detached {
			for _, tx := range b.B.Transactions[1:] {
				x := h.u.ByID[tx.ID]
				if x == nil {
					continue
				}
				if inAttached[tx.ID] {
					c.Count("confirmed_on_both_branches", 1)
					continue
				}
				c.Count("unconfirmed_by_reorg", 1)
				switch {
				case pool[tx.ID]:
					c.Count("restored_to_pool", 1)
					if len(x.Parents) > 0 {
						c.Count("restored_to_pool_chained", 1)
					}
				case x.Dust:
					c.Count("not_restored:dust", 1)
				case x.TimeRange != 0 && x.TimeRange < best.Height:
					c.Count("not_restored:time-range-expired", 1)
				case !h.available(x, best, pool):
					c.Count("not_restored:conflicts-with-new-main-chain", 1)
				case h.nd.Pool.IsTransactionInErrCache(&x.ID):
					c.Count("not_restored:error-cached", 1)
				default:
					c.Count("not_restored:valid-but-absent", 1)
				}
			}
		}
	}
	for _, b := range detached {
		h.leftMain[b.Hash] = true
	}
	for id := range pool {
		if x := h.u.ByID[id]; x != nil && !h.available(x, best, pool) {
			c.Count("pooled_tx_conflicting_with_main_chain", 1)
		}
	}
	h.prevPool = pool
	h.prevBest = best
	c.Count("states_checked", 1)
}

// everReturned: best is on a branch that was the main chain before, left, and is now back.
func (h *history) everReturned(best *chainkit.Blk) bool {
	for _, b := range best.Path() {
		if h.leftMain[b.Hash] {
			return true
		}
	}
	return false
}

func sameSet(a, b map[bc.Hash]bool) bool {
	if len(a) != len(b) {
		return false
	}
	for k := range a {
		if !b[k] {
			return false
		}
	}
	return true
}

// open starts the node of a case, subscribes BEFORE anything is submitted, and returns the history driver.
func open(c *ev.Case, net *chainkit.Net, g *chainkit.Genesis, base string, tr *chainkit.Tree, u *universe) *history {
	nd, err := net.NewNode(filepath.Join(base, fmt.Sprintf("%s%d", c.Group, c.Index)), g)
	if err != nil {
		c.Inconclusive("case %d: node: %v", c.Index, err)
		return nil
	}
	rc, err := newRecorder(nd.Disp)
	if err != nil {
		nd.Destroy()
		c.Inconclusive("case %d: subscribe: %v", c.Index, err)
		return nil
	}
	h := &history{c: c, net: net, tr: tr, u: u, nd: nd, rc: rc, pr: newPairing(),
		blocksOf: map[bc.Hash][]*chainkit.Blk{}, delivered: map[bc.Hash]bool{tr.Root.Hash: true}, stored: map[bc.Hash]bool{tr.Root.Hash: true},
		everMain: map[bc.Hash]bool{}, prevPool: map[bc.Hash]bool{}, prevBest: tr.Root, leftMain: map[bc.Hash]bool{}, bad: map[bc.Hash]bool{}}
	for _, b := range tr.All[1:] {
		h.register(b)
	}
	return h
}

func (h *history) close() {
	h.rc.close()
	h.nd.Destroy()
}

// deliver gives a block to Chain.ProcessBlock and runs the oracle.  false = the history cannot continue.
func (h *history) deliver(b *chainkit.Blk) bool {
	c := h.c
	if b == nil || h.stopped {
		return false
	}
	if _, err := h.nd.Chain.ProcessBlock(chainkit.CloneBlock(b.B)); err != nil {
		c.Inconclusive("case %d: the node refused the valid block %s: %v (not C23's business; the history cannot continue)", c.Index, blkName(b), err)
		h.stopped = true
		return false
	}
	h.delivered[b.Hash] = true
	h.markStored()
	c.Count("blocks_delivered", 1)
	if !h.stored[b.Hash] {
		c.Count("blocks_delivered_as_orphan", 1)
	}
	h.trail = append(h.trail, "block "+blkName(b)+" on "+blkName(b.Parent)+" ["+txNames(h.u, b)+"]")
	h.after("block", "block "+blkName(b))
	return !h.stopped
}

// build adds a block to the tree (registered for the oracle) without delivering it.
func (h *history) build(parent *chainkit.Blk, txs ...*utx) *chainkit.Blk {
	if parent == nil || h.stopped {
		return nil
	}
	var l []*types.Tx
	for _, x := range txs {
		l = append(l, x.Tx)
	}
	b, err := h.tr.Build(parent, l, chainkit.BlockOpt{})
	if err != nil {
		h.c.Inconclusive("case %d: block builder: %v", h.c.Index, err)
		h.stopped = true
		return nil
	}
	h.register(b)
	return b
}

func (h *history) send(x *utx) bool {
	if h.stopped {
		return false
	}
	h.submit(x)
	h.after("submit", "submit "+x.Name)
	return !h.stopped
}

func (h *history) vote(key int, cp *chainkit.Blk) bool {
	c := h.c
	if cp == nil || h.stopped {
		return false
	}
	if !h.stored[cp.Hash] {
		c.Count("votes_skipped_target_not_stored", 1)
		return true
	}
	err := h.nd.Chain.ProcessBlockVerification(h.net.VoteMsg(key, h.tr.Root.Hash, cp.Hash))
	c.Count("votes:"+classifyErr(err), 1)
	d := fmt.Sprintf("vote k%d genesis->%s", key, blkName(cp))
	h.trail = append(h.trail, d)
	h.after("vote", d)
	return !h.stopped
}

func runHistory(c *ev.Case, net *chainkit.Net, g *chainkit.Genesis, base string) {
	rng := c.Rand
	u := genUniverse(rng, net, g)
	tr := net.NewTree(g)
	nBlocks := rng.Range(8, 18)
	pct := rng.Range(25, 60)
	if err := growTree(rng, tr, u, nBlocks, pct); err != nil {
		c.Inconclusive("case %d: tree generator failed: %v", c.Index, err)
		return
	}
	orderKind := 0
	switch k := c.Index % 10; {
	case k == 3 || k == 7:
		orderKind = 1
	case k == 9:
		orderKind = 2
	}
	votes := c.Index%4 == 1
	steps, class := genSchedule(rng, tr, u, orderKind, votes)
	var desc []string
	for _, s := range steps {
		desc = append(desc, s.String())
	}
	c.Journal(map[string]interface{}{"transactions": u.legend(), "tree": treeDesc(tr, u), "steps": desc})
	c.Distinct("%s | %s", tr.Shape(), class)

	h := open(c, net, g, base, tr, u)
	if h == nil {
		return
	}
	defer h.close()
	for _, s := range steps {
		ok := true
		switch s.Kind {
		case stBlock:
			ok = h.deliver(s.Blk)
		case stSubmit:
			ok = h.send(s.Tx)
		case stVote:
			ok = h.vote(s.Key, s.Blk)
		}
		if !ok {
			return
		}
	}
	// final block connections on whatever is best now: a miner confirming pooled (and other) transactions
	for i := 0; i < 2; i++ {
		best := tr.ByHash[h.nd.Best()]
		fb, err := tr.Build(best, pickTxs(rng, u, best, 70), chainkit.BlockOpt{})
		if err != nil {
			c.Inconclusive("case %d: final block: %v", c.Index, err)
			return
		}
		h.register(fb)
		if !h.deliver(fb) {
			return
		}
	}
	c.Count("histories_completed", 1)
	if len(h.pr.open) > 0 {
		c.Count("transactions_left_in_pool_at_end", int64(len(h.pr.open)))
	}
	if c.WantSample() {
		c.Sample(map[string]interface{}{"class": class, "transactions": u.legend(), "tree": treeDesc(tr, u), "history": h.trail})
	}
}

func txNames(u *universe, b *chainkit.Blk) string {
	var l []string
	for _, tx := range b.B.Transactions[1:] {
		if x := u.ByID[tx.ID]; x != nil {
			l = append(l, x.Name)
		}
	}
	return strings.Join(l, " ")
}

func TestC23(t *testing.T) {
	r := ev.Start(t, "C23")
	defer r.Finish()
	net := chainkit.Configure(chainkit.Params{Epoch: 4, Fed: 4, Local: -1, VotePending: 3, NKeys: 4})
	g := net.NewGenesis(10, 0)
	base := t.TempDir()
	r.Rule("per history: a universe of 6-16 harness transactions over genesis funds (independent, conflicting, chained, two-parent, time-ranged, BCRP dust); a tree of 10-20 blocks grown so that the best chain alternates between branches, each block confirming a random ledger-valid subset; blocks delivered in creation / locally swapped / random order, interleaved with ValidateTx submissions (never, before all blocks, in between, twice, after all blocks) and in a quarter of the histories 2-4 verification messages justifying a height-4 checkpoint; two final blocks on the best tip. The oracle runs after every step. distinct = (tree shape, delivery order kind, histogram of submission plans, vote class)")
	r.Assume("the harness tree and the set of delivered blocks define the main chain (path genesis..Chain.BestBlockHash); Chain.InMainChain is cross-checked and a disagreement is inconclusive (C11 decides it)")
	r.Assume("transactions enter the pool only through Chain.ValidateTx (directly or by the restore loop of reorganizeChain), as in the node")
	r.Assume("the recorded notification stream is complete when a sentinel posted through the same dispatcher after the call returned has been read; pool and stream are compared after every step and a difference is inconclusive")

	r.Cases("scripted", r.N(3, 40)*len(scenarios), func(c *ev.Case) { runScript(c, net, g, base) })
	r.Cases("histories", r.N(160, 6000), func(c *ev.Case) { runHistory(c, net, g, base) })
	nRace := r.N(80, 3000)
	r.Cases("racing", nRace, func(c *ev.Case) { runRacing(c, net, g, base) })
	racingFloors(r, nRace)

	r.Floor("histories_completed", int64(r.N(150, 5800)))
	r.Floor("scripted_histories_completed", int64(r.N(30, 420)))
	r.Floor("states_checked", 3000)
	r.Floor("reorganisations", 300)
	r.Floor("reorganisations_back_to_earlier_branch", 60)
	r.Floor("reorganisations_on_hash_tie", 20)
	r.Floor("reorganisations_caused_by_vote", 3)
	r.Floor("reorganisations_to_shorter_chain", 3)
	r.Floor("multi_block_attach", 100)
	r.Floor("removed_from_pool_on_confirmation", 200)
	r.Floor("removed_from_pool_on_confirmation_by_reorg", 50)
	r.Floor("restored_to_pool", 100)
	r.Floor("restored_to_pool_chained", 10)
	r.Floor("not_restored:conflicts-with-new-main-chain", 10)
	r.Floor("not_restored:dust", 3)
	r.Floor("not_restored:time-range-expired", 3)
	r.Floor("confirmed_on_both_branches", 50)
	r.Floor("events_new", 500)
	r.Floor("events_remove", 300)
	r.Floor("submissions_after_confirmation", 100)
	r.Floor("submissions_while_unconfirmed", 500)
	r.Floor("pooled_tx_in_side_branch_block", 100)
}
