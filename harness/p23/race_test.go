package p23

import (
	"bytes"
	"fmt"
	"runtime"
	"strconv"
	"strings"
	"sync"
	"sync/atomic"
	"testing"
	"time"

	"github.com/bytom/bytom/verifhook"

	"verif/internal/chainkit"
	"verif/internal/ev"
)

// Racing histories: every block connection runs concurrently with ValidateTx submissions
// (the node's sync layer and RPC run on their own goroutines) of the transactions the block
// confirms.  The schedule is steered at the node's yield points (build tag verif):
//
//	submit-held:  a submission is held just before it takes the pool lock until the block is connected
//	block-held:   the block is held before setState (or before reorganising) until the submissions returned
//	jitter:       short pseudo-random pauses at every yield point
//
// The oracle is the one of the sequential histories, run at the quiescent point after the
// block connection and all submissions have returned.
var raceModes = []string{"submit-held-until-block-connected", "block-held-before-setState", "block-held-before-reorganize", "jitter", "free"}

func gid() int64 {
	var buf [64]byte
	b := buf[:runtime.Stack(buf[:], false)]
	b = bytes.TrimPrefix(b, []byte("goroutine "))
	if i := bytes.IndexByte(b, ' '); i > 0 {
		n, _ := strconv.ParseInt(string(b[:i]), 10, 64)
		return n
	}
	return -1
}

// gateWait is a watchdog only: a gate that times out releases the goroutine (less interleaving, same oracle).
const gateWait = 3 * time.Second

func (h *history) race(b *chainkit.Blk, mode string, plans [][]*utx) bool {
	c := h.c
	if h.stopped {
		return false
	}
	var (
		subs      sync.Map // goroutine id -> true
		blockDone = make(chan struct{})
		subsDone  = make(chan struct{})
		held      int64
		timeouts  int64
		jit       uint64
		seed      = c.Rand.Uint64()
	)
	wait := func(ch chan struct{}) {
		atomic.AddInt64(&held, 1)
		select {
		case <-ch:
		case <-time.After(gateWait):
			atomic.AddInt64(&timeouts, 1)
		}
	}
	verifhook.SetYield(func(name string) {
		_, isSub := subs.Load(gid())
		switch mode {
		case "submit-held-until-block-connected":
			if isSub && name == "txpool.processTransaction:before-lock" {
				wait(blockDone)
			}
		case "block-held-before-setState":
			if !isSub && name == "chain.reorganizeChain:before-setState" {
				wait(subsDone)
			}
		case "block-held-before-reorganize":
			if !isSub && name == "chain.processBlock:saved-before-reorganize" {
				wait(subsDone)
			}
		case "jitter":
			x := (atomic.AddUint64(&jit, 1) + seed) * 0x9e3779b97f4a7c15
			time.Sleep(time.Duration(x>>56) * time.Microsecond)
		}
	})
	defer verifhook.SetYield(nil)

	var wg sync.WaitGroup
	results := make([][]string, len(plans))
	ready := make(chan struct{})
	for i, plan := range plans {
		wg.Add(1)
		go func(i int, plan []*utx) {
			defer wg.Done()
			subs.Store(gid(), true)
			<-ready
			for _, x := range plan {
				isOrphan, err := h.nd.Chain.ValidateTx(cloneTx(x.Tx))
				res := "accepted"
				switch {
				case err != nil:
					res = "refused:" + classifyErr(err)
				case isOrphan:
					res = "orphan"
				}
				results[i] = append(results[i], x.Name+"->"+res)
			}
		}(i, plan)
	}
	var perr error
	bwg := sync.WaitGroup{}
	bwg.Add(1)
	go func() {
		defer bwg.Done()
		<-ready
		_, perr = h.nd.Chain.ProcessBlock(chainkit.CloneBlock(b.B))
		close(blockDone)
	}()
	close(ready)
	wg.Wait()
	close(subsDone)
	bwg.Wait()
	verifhook.SetYield(nil)

	if perr != nil {
		c.Inconclusive("case %d: the node refused the valid block %s: %v (not C23's business; the history cannot continue)", c.Index, blkName(b), perr)
		h.stopped = true
		return false
	}
	h.delivered[b.Hash] = true
	h.markStored()
	c.Count("blocks_delivered", 1)
	c.Count("races", 1)
	c.Count("races:"+mode, 1)
	if held > 0 {
		c.Count("race_gate_held:"+mode, held)
	}
	if timeouts > 0 {
		c.Count("race_gate_timeouts", timeouts)
	}
	n := 0
	var rs []string
	for _, r := range results {
		for _, s := range r {
			n++
			c.Count("race_submit:"+s[strings.Index(s, "->")+2:], 1)
		}
		rs = append(rs, strings.Join(r, " "))
	}
	c.Count("race_submissions", int64(n))
	c.Count("submissions", int64(n))
	d := fmt.Sprintf("block %s on %s [%s] racing (%s) with submissions {%s}", blkName(b), blkName(b.Parent), txNames(h.u, b), mode, strings.Join(rs, " | "))
	h.trail = append(h.trail, d)
	h.after("race-"+mode, d)
	return !h.stopped
}

func runRacing(c *ev.Case, net *chainkit.Net, g *chainkit.Genesis, base string) {
	rng := c.Rand
	u := genUniverse(rng, net, g)
	tr := net.NewTree(g)
	if err := growTree(rng, tr, u, rng.Range(8, 14), rng.Range(40, 75)); err != nil {
		c.Inconclusive("case %d: tree generator failed: %v", c.Index, err)
		return
	}
	c.Journal(map[string]interface{}{"transactions": u.legend(), "tree": treeDesc(tr, u)})
	h := open(c, net, g, base, tr, u)
	if h == nil {
		return
	}
	defer h.close()
	modes := map[string]bool{}
	for _, b := range tr.All[1:] {
		mode := raceModes[rng.Intn(len(raceModes))]
		// the submissions: the transactions the block confirms (in one or two goroutines), sometimes others too
		var mine, other []*utx
		for _, tx := range b.B.Transactions[1:] {
			if x := u.ByID[tx.ID]; x != nil {
				mine = append(mine, x)
			}
		}
		for _, x := range u.Txs {
			if rng.Chance(1, 6) {
				other = append(other, x)
			}
		}
		var plans [][]*utx
		switch {
		case len(mine) == 0 && len(other) == 0:
			if !h.deliver(b) {
				return
			}
			continue
		case len(mine) >= 2 && rng.Chance(1, 2):
			plans = append(plans, mine[:len(mine)/2], mine[len(mine)/2:])
		case len(mine) > 0:
			plans = append(plans, mine)
		}
		if len(mine) > 0 && rng.Chance(1, 3) {
			plans = append(plans, mine) // the same transactions from a second peer
		}
		if len(other) > 0 {
			plans = append(plans, other)
		}
		modes[mode] = true
		if !h.race(b, mode, plans) {
			return
		}
	}
	// a block on the best tip confirming what the pool holds
	best := tr.ByHash[h.nd.Best()]
	if fb, err := tr.Build(best, pickTxs(rng, u, best, 80), chainkit.BlockOpt{}); err == nil {
		h.register(fb)
		if !h.deliver(fb) {
			return
		}
	}
	var ms []string
	for _, m := range raceModes {
		if modes[m] {
			ms = append(ms, strings.SplitN(m, "-", 3)[0]+m[len(m)-2:])
		}
	}
	c.Distinct("racing %s | %s", tr.Shape(), strings.Join(ms, ","))
	c.Count("racing_histories_completed", 1)
	if c.WantSample() {
		c.Sample(map[string]interface{}{"class": "racing", "transactions": u.legend(), "tree": treeDesc(tr, u), "history": h.trail})
	}
}

func racingFloors(r *ev.Run, cases int) {
	r.Floor("racing_histories_completed", int64(cases*9/10))
	r.Floor("races", int64(cases*4))
	r.Floor("race_gate_held:submit-held-until-block-connected", int64(cases/2))
	r.Floor("race_gate_held:block-held-before-setState", int64(cases/2))
	r.Floor("race_submit:accepted", int64(cases))
}

// TestC23Racing is the racing group alone; the driver runs it in a race-detector build as an extra run of C23.
func TestC23Racing(t *testing.T) {
	r := ev.Start(t, "C23")
	defer r.Finish()
	net := chainkit.Configure(chainkit.Params{Epoch: 4, Fed: 4, Local: -1, VotePending: 3, NKeys: 4})
	g := net.NewGenesis(10, 0)
	base := t.TempDir()
	n := r.N(24, 600)
	r.Cases("racing-rd", n, func(c *ev.Case) {
		runRacing(c, net, g, base)
		c.Count("racing_histories_under_race_detector", 1)
	})
	r.Floor("racing_histories_under_race_detector", int64(n*9/10))
}
