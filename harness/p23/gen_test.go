package p23

import (
	"fmt"
	"sort"
	"strings"

	"github.com/bytom/bytom/consensus"
	"github.com/bytom/bytom/protocol/bc"
	"github.com/bytom/bytom/protocol/bc/types"

	"verif/internal/chainkit"
	"verif/internal/ev"
)

// utx is one transaction of the per-history universe.  The same transaction
// (same id) can be confirmed by blocks of several branches, submitted to the
// pool before / after / never, or both.
type utx struct {
	Idx       int
	Name      string
	Kind      string // root, conflict, child, child-conflict, grandchild, join, time-range, dust-bcrp
	Tx        *types.Tx
	ID        bc.Hash
	Parents   []int // universe indices of the transactions whose outputs it spends
	Dust      bool  // refused by the pool (IsDust), valid in a block
	TimeRange uint64
}

type universe struct {
	Txs  []*utx
	ByID map[bc.Hash]*utx
}

func (u *universe) add(name, kind string, tx *types.Tx, parents []int, dust bool) *utx {
	x := &utx{Idx: len(u.Txs), Name: name, Kind: kind, Tx: tx, ID: tx.ID, Parents: parents, Dust: dust, TimeRange: tx.TimeRange}
	u.Txs = append(u.Txs, x)
	u.ByID[x.ID] = x
	return x
}

func (u *universe) legend() []string {
	var l []string
	for _, x := range u.Txs {
		var ps []string
		for _, p := range x.Parents {
			ps = append(ps, u.Txs[p].Name)
		}
		s := fmt.Sprintf("%s=%s %s", x.Name, chainkit.HashShort(x.ID), x.Kind)
		if len(ps) > 0 {
			s += " spends(" + strings.Join(ps, ",") + ")"
		}
		if x.TimeRange != 0 {
			s += fmt.Sprintf(" time_range=%d", x.TimeRange)
		}
		l = append(l, s)
	}
	return l
}

// pay spends ins into nOut BTM outputs with fresh programs (fee = DefaultFee + jitter).
func pay(r *ev.Rand, ins []*chainkit.UTXO, nOut int, timeRange uint64, extra []chainkit.Out) *types.Tx {
	var sum uint64
	for _, in := range ins {
		sum += in.Amount
	}
	left := sum - chainkit.DefaultFee - uint64(r.Intn(1000))
	outs := append([]chainkit.Out{}, extra...)
	for _, o := range extra {
		left -= o.Amount
	}
	for j := 0; j < nOut; j++ {
		v := left / uint64(nOut)
		if j == nOut-1 {
			v = left - (left/uint64(nOut))*uint64(nOut-1)
		}
		outs = append(outs, chainkit.Out{Asset: chainkit.BTM, Amount: v, Program: chainkit.RandProg(r)})
	}
	return chainkit.MakeTx(ins, outs, timeRange)
}

// spendable BTM outputs of a universe transaction (dust-free amounts only).
func btmOuts(tx *types.Tx) []*chainkit.UTXO {
	var res []*chainkit.UTXO
	for _, o := range chainkit.Outputs(tx) {
		if o.Asset == chainkit.BTM && o.Vote == nil && o.Amount > 100*chainkit.DefaultFee {
			if _, reg := chainkit.IsRegister(o.Program); !reg {
				res = append(res, o)
			}
		}
	}
	return res
}

// genUniverse builds 6-16 transactions over the genesis funds: independent spends,
// conflicting spends of one fund, chains (child / grandchild), conflicting children,
// two-parent joins, a transaction with a time range (its restoration fails when the
// new chain is higher), and a BCRP registration (valid in a block, dust for the pool).
func genUniverse(r *ev.Rand, net *chainkit.Net, g *chainkit.Genesis) *universe {
	u := &universe{ByID: map[bc.Hash]*utx{}}
	nRoots := r.Range(3, 5)
	fund := 0
	for i := 0; i < nRoots; i++ {
		f := g.Funds[fund]
		fund++
		root := u.add(fmt.Sprintf("R%d", i), "root", pay(r, []*chainkit.UTXO{f}, 1+r.Intn(2), 0, nil), nil, false)
		if r.Chance(1, 2) {
			u.add(fmt.Sprintf("R%dx", i), "conflict", pay(r, []*chainkit.UTXO{f}, 1+r.Intn(2), 0, nil), nil, false)
		}
		_ = root
	}
	if r.Chance(2, 3) {
		f := g.Funds[fund]
		fund++
		u.add("T", "time-range", pay(r, []*chainkit.UTXO{f}, 1+r.Intn(2), uint64(r.Range(1, 5)), nil), nil, false)
	}
	if r.Chance(1, 2) {
		f := g.Funds[fund]
		fund++
		contract := []byte{0x51, byte(0x51 + r.Intn(4)), 0x87}
		reg := chainkit.Out{Asset: chainkit.BTM, Amount: consensus.BCRPRequiredBTMAmount, Program: chainkit.RegisterProg(contract)}
		u.add("D", "dust-bcrp", pay(r, []*chainkit.UTXO{f}, 1, 0, []chainkit.Out{reg}), nil, true)
	}
	// transactions whose first output is not an ordinary one (a vote, a retirement) followed by an
	// ordinary change output: the pool indexes only the ordinary outputs
	if r.Chance(2, 3) {
		f := g.Funds[fund]
		fund++
		vote := chainkit.Out{Asset: chainkit.BTM, Amount: consensus.MinVoteOutputAmount * uint64(1+r.Intn(3)), Program: chainkit.RandProg(r), Vote: net.VoteKey(r.Intn(net.P.NKeys))}
		u.add("V", "vote-then-change", pay(r, []*chainkit.UTXO{f}, 1+r.Intn(2), 0, []chainkit.Out{vote}), nil, false)
	}
	if r.Chance(1, 2) {
		f := g.Funds[fund]
		fund++
		burn := chainkit.Out{Asset: chainkit.BTM, Amount: uint64(1 + r.Intn(100000)), Program: []byte{0x6a, 0x01, byte(r.Intn(256))}}
		u.add("B", "retire-then-change", pay(r, []*chainkit.UTXO{f}, 1+r.Intn(2), 0, []chainkit.Out{burn}), nil, false)
	}
	// children / conflicting children / grandchildren
	nBase := len(u.Txs)
	for i := 0; i < nBase; i++ {
		p := u.Txs[i]
		outs := btmOuts(p.Tx)
		special := p.Kind == "vote-then-change" || p.Kind == "retire-then-change"
		if len(outs) == 0 || !(r.Chance(1, 2) || (special && r.Chance(1, 2))) {
			continue
		}
		ch := u.add("C("+p.Name+")", "child", pay(r, outs[:1], 1+r.Intn(2), 0, nil), []int{p.Idx}, false)
		if r.Chance(1, 3) {
			u.add("Cx("+p.Name+")", "child-conflict", pay(r, outs[:1], 1, 0, nil), []int{p.Idx}, false)
		}
		if r.Chance(1, 2) {
			u.add("G("+p.Name+")", "grandchild", pay(r, btmOuts(ch.Tx)[:1], 1, 0, nil), []int{ch.Idx}, false)
		}
	}
	// a join of the last outputs of two different transactions (multi-parent orphan / restore)
	if r.Chance(1, 2) {
		var cands []*utx
		for _, x := range u.Txs {
			if x.Kind == "root" && len(btmOuts(x.Tx)) == 2 {
				cands = append(cands, x)
			}
		}
		if len(cands) >= 2 {
			a, b := cands[0], cands[len(cands)-1]
			ins := []*chainkit.UTXO{btmOuts(a.Tx)[1], btmOuts(b.Tx)[1]}
			u.add("J("+a.Name+","+b.Name+")", "join", pay(r, ins, 1, 0, nil), []int{a.Idx, b.Idx}, false)
		}
	}
	return u
}

// pickTxs chooses universe transactions that are ledger-valid in a block on parent p
// (the reference ledger decides), in dependency order.
func pickTxs(r *ev.Rand, u *universe, p *chainkit.Blk, pct int) []*types.Tx {
	h := p.Height + 1
	spent := map[bc.Hash]bool{}
	made := map[bc.Hash]bool{}
	var txs []*types.Tx
	for _, x := range u.Txs { // parents precede children in the universe
		if len(txs) >= 4 {
			break
		}
		if x.TimeRange != 0 && x.TimeRange < h {
			continue
		}
		ok := true
		for _, id := range x.Tx.SpentOutputIDs {
			_, inLedger := p.Utxo[id]
			if spent[id] || (!inLedger && !made[id]) {
				ok = false
			}
		}
		if !ok || r.Intn(100) >= pct {
			continue
		}
		for _, id := range x.Tx.SpentOutputIDs {
			spent[id] = true
		}
		for _, o := range chainkit.Outputs(x.Tx) {
			made[o.ID] = true
		}
		txs = append(txs, x.Tx)
	}
	return txs
}

// modelBest is the tip the fork choice selects when no checkpoint above genesis is
// justified (height, then hash string).  Only used to steer the generator: the oracle
// reads the best block from the node.
func modelBest(tr *chainkit.Tree) *chainkit.Blk {
	best := tr.Root
	for _, b := range tr.All {
		if b.Height > best.Height || (b.Height == best.Height && b.Hash.String() > best.Hash.String()) {
			best = b
		}
	}
	return best
}

// growTree adds n blocks so that, delivered in creation order, the best chain goes
// back and forth: 40% of the blocks extend a rival tip (overtaking the best branch),
// 20% fork off an ancestor of the best tip, the rest extend the best tip.
func growTree(r *ev.Rand, tr *chainkit.Tree, u *universe, n, pct int) error {
	for i := 0; i < n; i++ {
		best := modelBest(tr)
		var rivals []*chainkit.Blk
		for _, b := range tr.Tips() {
			if b.Hash != best.Hash {
				rivals = append(rivals, b)
			}
		}
		sort.SliceStable(rivals, func(a, b int) bool { return rivals[a].Height > rivals[b].Height })
		parent := best
		x := r.Intn(100)
		switch {
		case x < 40 && len(rivals) > 0:
			parent = rivals[0]
			if r.Chance(1, 3) {
				parent = rivals[r.Intn(len(rivals))]
			}
		case x < 60 || (len(rivals) == 0 && x < 80):
			d := uint64(1 + r.Intn(3))
			if d > best.Height {
				d = best.Height
			}
			anc := best.Ancestor(best.Height - d)
			if len(anc.Children) < 3 {
				parent = anc
			}
		}
		if _, err := tr.Build(parent, pickTxs(r, u, parent, pct), chainkit.BlockOpt{}); err != nil {
			return err
		}
	}
	return nil
}

type stepKind int

const (
	stBlock stepKind = iota
	stSubmit
	stVote
)

type step struct {
	Kind stepKind
	Blk  *chainkit.Blk
	Tx   *utx
	Key  int // vote: validator key
}

func blkName(b *chainkit.Blk) string {
	return fmt.Sprintf("h%d:%s", b.Height, chainkit.HashShort(b.Hash))
}

func (s step) String() string {
	switch s.Kind {
	case stBlock:
		return "block " + blkName(s.Blk)
	case stSubmit:
		return "submit " + s.Tx.Name
	}
	return fmt.Sprintf("vote k%d genesis->%s", s.Key, blkName(s.Blk))
}

// plan classes of a transaction's submissions (static, for the distinct key)
const (
	planNever = "n"
	planEarly = "e" // before any block
	planMid   = "m" // somewhere between the blocks
	planTwice = "t" // two submissions at random places
	planLate  = "l" // after every block
)

// genSchedule interleaves block deliveries (creation order, locally swapped, or a random
// permutation: orphans connect in bulk) with submissions and, in some histories, verification
// messages of 3 (or 2 / 4) federation validators justifying a height-4 checkpoint, which moves the
// best chain to that branch even if it is shorter.
func genSchedule(r *ev.Rand, tr *chainkit.Tree, u *universe, orderKind int, votes bool) ([]step, string) {
	nb := len(tr.All) - 1
	order := make([]int, nb)
	for i := range order {
		order[i] = i + 1
	}
	switch orderKind {
	case 1:
		for i := 0; i+1 < nb; i++ {
			if r.Chance(1, 4) {
				order[i], order[i+1] = order[i+1], order[i]
			}
		}
	case 2:
		r.Shuffle(nb, func(i, j int) { order[i], order[j] = order[j], order[i] })
	}
	// slots[i] = extra steps placed before block position i (slot nb = after all blocks)
	slots := make([][]step, nb+1)
	hist := map[string]int{}
	for _, x := range u.Txs {
		var plan string
		switch k := r.Intn(100); {
		case k < 20:
			plan = planNever
		case k < 38:
			plan = planEarly
			slots[0] = append(slots[0], step{Kind: stSubmit, Tx: x})
		case k < 68:
			plan = planMid
			p := r.Intn(nb + 1)
			slots[p] = append(slots[p], step{Kind: stSubmit, Tx: x})
		case k < 88:
			plan = planTwice
			for j := 0; j < 2; j++ {
				p := r.Intn(nb + 1)
				slots[p] = append(slots[p], step{Kind: stSubmit, Tx: x})
			}
		default:
			plan = planLate
			slots[nb] = append(slots[nb], step{Kind: stSubmit, Tx: x})
		}
		hist[plan]++
	}
	for i := range slots {
		s := slots[i]
		r.Shuffle(len(s), func(a, b int) { s[a], s[b] = s[b], s[a] })
	}
	voteClass := "-"
	if votes {
		var cps []*chainkit.Blk
		for _, b := range tr.All {
			if b.Height == tr.Net.P.Epoch {
				cps = append(cps, b)
			}
		}
		if len(cps) > 0 {
			cp := cps[r.Intn(len(cps))]
			pos := 0
			for i, bi := range order {
				if tr.All[bi].Hash == cp.Hash {
					pos = i + 1
				}
			}
			// late in the history, so that the best chain had time to move past this branch
			at := pos + r.Intn(nb-pos+1)
			if r.Chance(2, 3) && at < nb-nb/3 {
				at = nb - nb/3 + r.Intn(nb/3+1)
			}
			nv := 3
			if r.Chance(1, 5) {
				nv = 2 + 2*r.Intn(2)
			}
			keys := r.Perm(4)[:nv]
			for _, k := range keys {
				slots[at] = append(slots[at], step{Kind: stVote, Blk: cp, Key: k})
			}
			voteClass = fmt.Sprintf("v%d", nv)
		}
	}
	var steps []step
	for i := 0; i <= nb; i++ {
		steps = append(steps, slots[i]...)
		if i < nb {
			steps = append(steps, step{Kind: stBlock, Blk: tr.All[order[i]]})
		}
	}
	// a history always ends with a block connection on top of whatever is best then: the final
	// submissions are followed by at least one ProcessBlock (built at run time by the driver)
	var keys []string
	for k := range hist {
		keys = append(keys, k)
	}
	sort.Strings(keys)
	class := ""
	for _, k := range keys {
		class += fmt.Sprintf("%s%d", k, hist[k])
	}
	return steps, fmt.Sprintf("o%d %s %s", orderKind, class, voteClass)
}

// treeDesc lists every block with its parent and the universe transactions it confirms.
func treeDesc(tr *chainkit.Tree, u *universe) []string {
	var l []string
	for _, b := range tr.All[1:] {
		var names []string
		for _, tx := range b.B.Transactions[1:] {
			if x := u.ByID[tx.ID]; x != nil {
				names = append(names, x.Name)
			}
		}
		l = append(l, fmt.Sprintf("%s on %s confirms [%s]", blkName(b), blkName(b.Parent), strings.Join(names, " ")))
	}
	return l
}
