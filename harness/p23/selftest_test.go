package p23

import (
	"testing"

	"github.com/bytom/bytom/protocol"
	"github.com/bytom/bytom/protocol/bc"
)

// The oracle against deliberately wrong streams / pools (run with plain `go test`).
func TestOracleSelf(t *testing.T) {
	a, b := bc.NewHash([32]byte{1}), bc.NewHash([32]byte{2})
	N := func(id bc.Hash) poolEv { return poolEv{Type: protocol.MsgNewTx, ID: id} }
	R := func(id bc.Hash) poolEv { return poolEv{Type: protocol.MsgRemoveTx, ID: id} }
	cases := []struct {
		name string
		evs  []poolEv
		want string // key of the first violation, "" = none
	}{
		{"paired", []poolEv{N(a), N(b), R(a), N(a), R(b), R(a)}, ""},
		{"open at end", []poolEv{N(a), R(a), N(a)}, ""},
		{"remove first", []poolEv{R(a)}, "events:remove-without-new"},
		{"remove twice", []poolEv{N(a), R(a), R(a)}, "events:remove-without-new"},
		{"remove of other id", []poolEv{N(a), R(b)}, "events:remove-without-new"},
		{"new twice", []poolEv{N(a), N(b), N(a)}, "events:new-twice"},
		{"unknown type", []poolEv{{Type: 7, ID: a}}, "events:unknown-message-type"},
	}
	for _, tc := range cases {
		p := newPairing()
		got := ""
		for _, e := range tc.evs {
			if k := p.feed(e, "x"); k != "" && got == "" {
				got = k
			}
		}
		if got != tc.want {
			t.Errorf("%s: got %q want %q", tc.name, got, tc.want)
		}
	}
	// pool vs main chain: only ids contained in a main-chain block are flagged
	main := map[bc.Hash]string{a: "h1"}
	bad := confirmedPooled([]bc.Hash{a, b}, func(id bc.Hash) string { return main[id] })
	if len(bad) != 1 || bad[a] != "h1" {
		t.Errorf("confirmedPooled: %v", bad)
	}
	if bad := confirmedPooled([]bc.Hash{b}, func(id bc.Hash) string { return main[id] }); len(bad) != 0 {
		t.Errorf("confirmedPooled flagged an unconfirmed id: %v", bad)
	}
}
