package p23

import (
	"fmt"
	"sync"
	"time"

	"github.com/bytom/bytom/event"
	"github.com/bytom/bytom/protocol"
	"github.com/bytom/bytom/protocol/bc"
)

// ---------------------------------------------------------------- event pairing

// poolEv is one recorded pool notification.
type poolEv struct {
	Type int // protocol.MsgNewTx / protocol.MsgRemoveTx
	ID   bc.Hash
}

// pairing decides the notification clause per transaction id: every Remove must be
// preceded by a New that no earlier Remove matched; between two News of one id there
// must be a Remove (an id that is in the pool cannot be added again).
type pairing struct {
	open          map[bc.Hash]bool
	log           map[bc.Hash][]string
	News, Removes int
}

func newPairing() *pairing {
	return &pairing{open: map[bc.Hash]bool{}, log: map[bc.Hash][]string{}}
}

// feed returns the violation key of the event, or "".
func (p *pairing) feed(e poolEv, at string) string {
	switch e.Type {
	case protocol.MsgNewTx:
		p.News++
		p.log[e.ID] = append(p.log[e.ID], "New@"+at)
		if p.open[e.ID] {
			return "events:new-twice"
		}
		p.open[e.ID] = true
	case protocol.MsgRemoveTx:
		p.Removes++
		p.log[e.ID] = append(p.log[e.ID], "Remove@"+at)
		if !p.open[e.ID] {
			return "events:remove-without-new"
		}
		delete(p.open, e.ID)
	default:
		p.log[e.ID] = append(p.log[e.ID], fmt.Sprintf("type%d@%s", e.Type, at))
		return "events:unknown-message-type"
	}
	return ""
}

// ---------------------------------------------------------------- pool vs main chain

// confirmedPooled returns the pooled ids that a main-chain block contains.
// mainBlockOf(id) returns a description of a main-chain block containing id, or "".
func confirmedPooled(pool []bc.Hash, mainBlockOf func(bc.Hash) string) map[bc.Hash]string {
	bad := map[bc.Hash]string{}
	for _, id := range pool {
		if b := mainBlockOf(id); b != "" {
			bad[id] = b
		}
	}
	return bad
}

// ---------------------------------------------------------------- recorder

const sentinelBase = 1 << 20

// recorder drains the TxMsgEvent subscription concurrently (the 65536-slot buffer never
// fills) and keeps the events in arrival order.  A barrier posts a sentinel through the
// same dispatcher: when it comes out of the channel every earlier notification is recorded.
type recorder struct {
	mu   sync.Mutex
	evs  []poolEv
	odd  int // events without a transaction
	sent chan int
	done chan struct{}
	sub  *event.Subscription
	disp *event.Dispatcher
	next int
}

func newRecorder(disp *event.Dispatcher) (*recorder, error) {
	sub, err := disp.Subscribe(protocol.TxMsgEvent{})
	if err != nil {
		return nil, err
	}
	rc := &recorder{sent: make(chan int, 1<<16), done: make(chan struct{}), sub: sub, disp: disp}
	go rc.run()
	return rc, nil
}

func (rc *recorder) run() {
	defer close(rc.done)
	for e := range rc.sub.Chan() {
		m, ok := e.Data.(protocol.TxMsgEvent)
		if !ok || m.TxMsg == nil {
			rc.mu.Lock()
			rc.odd++
			rc.mu.Unlock()
			continue
		}
		if m.TxMsg.MsgType >= sentinelBase {
			rc.sent <- m.TxMsg.MsgType - sentinelBase
			continue
		}
		rc.mu.Lock()
		if m.TxMsg.TxDesc == nil || m.TxMsg.Tx == nil {
			rc.odd++
		} else {
			rc.evs = append(rc.evs, poolEv{Type: m.TxMsg.MsgType, ID: m.TxMsg.Tx.ID})
		}
		rc.mu.Unlock()
	}
}

// barrier waits (logical condition; the bound is a watchdog) until every notification
// posted before the call has been recorded.
func (rc *recorder) barrier() bool {
	rc.next++
	k := rc.next
	if err := rc.disp.Post(protocol.TxMsgEvent{TxMsg: &protocol.TxPoolMsg{MsgType: sentinelBase + k}}); err != nil {
		return false
	}
	timer := time.NewTimer(90 * time.Second)
	defer timer.Stop()
	for {
		select {
		case got := <-rc.sent:
			if got == k {
				return true
			}
		case <-timer.C:
			return false
		}
	}
}

// take returns the events recorded since the previous take.
func (rc *recorder) take(from int) []poolEv {
	rc.mu.Lock()
	defer rc.mu.Unlock()
	return append([]poolEv{}, rc.evs[from:]...)
}

func (rc *recorder) close() {
	rc.sub.Unsubscribe()
	<-rc.done
}
