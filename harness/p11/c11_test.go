// C11 — best chain follows the fork-choice rule and the indexes stay consistent.
//
// A real node receives a random block tree (any arrival order) interleaved with
// verification messages that justify checkpoints, including ones on shorter
// branches and ones that arrive before their target.  After every event (at
// quiescence of the engine's cached-vote loop) an independent block-level fork
// choice over the harness's own tree — using the checkpoint statuses the engine
// reports — must select the node's best block; every height up to best must map to
// best's ancestor; InMainChain(b) must hold exactly for ancestors of best.
package p11

import (
	"fmt"
	"os"
	"testing"

	"github.com/bytom/bytom/protocol/bc"
	"github.com/bytom/bytom/protocol/state"

	"verif/internal/chainkit"
	"verif/internal/ev"
)

type known struct {
	stored map[bc.Hash]bool
}

// forkChoice: among stored leaves that descend from the engine's root (last finalized),
// maximise (height of the last justified checkpoint on the path, height, hash string).
func forkChoice(tr *chainkit.Tree, nd *chainkit.Node, stored map[bc.Hash]bool, epoch uint64) (*chainkit.Blk, string, map[string]interface{}) {
	status, nodes := nd.EngineStatus()
	root := tr.ByHash[nodes[0].Hash]
	if root == nil {
		return nil, "", map[string]interface{}{"error": "engine root not in tree"}
	}
	type cand struct {
		b *chainkit.Blk
		j uint64
	}
	var best *cand
	level := ""
	var cands []string
	for _, b := range tr.All {
		if !stored[b.Hash] || !root.IsAncestorOf(b) {
			continue
		}
		leaf := true
		for _, ch := range b.Children {
			if stored[ch.Hash] {
				leaf = false
			}
		}
		if !leaf {
			continue
		}
		j := root.Height
		for x := b; x != nil && x.Height > root.Height; x = x.Parent {
			if x.Height%epoch == 0 && status[x.Hash] == state.Justified && x.Height > j {
				j = x.Height
			}
		}
		c := &cand{b, j}
		cands = append(cands, fmt.Sprintf("h%d %s j%d", b.Height, chainkit.HashShort(b.Hash), j))
		switch {
		case best == nil:
			best = c
		case c.j != best.j:
			if c.j > best.j {
				best = c
			}
			level = "justified"
		case c.b.Height != best.b.Height:
			if c.b.Height > best.b.Height {
				best = c
			}
			if level == "" || level == "hash" {
				level = "height"
			}
		default:
			if c.b.Hash.String() > best.b.Hash.String() {
				best = c
			}
			if level == "" {
				level = "hash"
			}
		}
	}
	if best == nil {
		return nil, "", map[string]interface{}{"error": "no candidate"}
	}
	return best.b, level, map[string]interface{}{"candidates": cands, "root_height": root.Height}
}

func TestC11(t *testing.T) {
	r := ev.Start(t, "C11")
	defer r.Finish()
	net := chainkit.Configure(chainkit.Params{Epoch: 4, Fed: 4, Local: -1, VotePending: 3, NKeys: 6})
	g := net.NewGenesis(14, 4)
	base, _ := os.MkdirTemp("", "c11")
	defer os.RemoveAll(base)
	r.Rule("random valid block trees (12-36 blocks, forks in and across epochs) delivered in creation / random / locally swapped order, interleaved with verification messages of 4 federation validators (direct and skip links, early messages parked by the node, duplicates, garbage signatures); after every event the node's best block, height index and InMainChain answers are checked against an independent block-level fork choice. distinct = (tree shape, schedule hash)")
	r.Assume("checkpoint statuses are taken from the engine (C17 decides whether they are right); stored blocks are exactly the delivered blocks whose ancestors were all delivered")

	r.Cases("histories", r.N(64, 6400), func(c *ev.Case) {
		rng := c.Rand
		tr := net.NewTree(g)
		o := chainkit.DefaultGen(rng.Range(12, 36))
		o.MaxTxs = 1
		o.ForkPct = 35
		if _, err := tr.Grow(rng, o); err != nil {
			c.Violation("harness:grow", "tree generator failed", err.Error())
			return
		}
		so := chainkit.ScheduleOpt{Byzantine: -1, VotePct: 80, SkipLinkPct: 15, EarlyVotePct: 15, GarbagePct: 5, BlockOrder: c.Index % 3, Duplicates: true}
		steps := tr.GenSchedule(rng, so)
		var desc []string
		for _, s := range steps {
			desc = append(desc, s.String())
		}
		c.Journal(map[string]interface{}{"shape": tr.Shape(), "steps": desc})
		c.Distinct("%s|%d|%d", tr.Shape(), so.BlockOrder, len(steps))
		nd, err := net.NewNode(fmt.Sprintf("%s/n%d", base, c.Index), g)
		if err != nil {
			c.Inconclusive("node: %v", err)
			return
		}
		defer func() { nd.Destroy() }()
		delivered := map[bc.Hash]bool{tr.Root.Hash: true}
		stored := map[bc.Hash]bool{tr.Root.Hash: true}
		var parked []*chainkit.VoteSpec
		var maxH uint64
		prevBest := tr.Root
		var trail []string
		for si, s := range steps {
			err := nd.Deliver(net, s, rng)
			if s.Blk != nil {
				if err != nil {
					// a block that does not descend from the last finalized checkpoint can never be
					// connected; refusing it is legitimate (finality), anything else is not
					_, nodes := nd.EngineStatus()
					root := tr.ByHash[nodes[0].Hash]
					if root != nil && root.Height > 0 && !root.IsAncestorOf(s.Blk) {
						c.Count("blocks_refused_off_finalized_branch", 1)
						continue
					}
					c.Violation("valid-block-rejected", "ProcessBlock returned an error for a valid block", map[string]interface{}{"step": si, "event": s.String(), "error": err.Error(), "shape": tr.Shape()})
					return
				}
				delivered[s.Blk.Hash] = true
				if s.Blk.Height > maxH {
					maxH = s.Blk.Height
				}
				// stored = delivered with all ancestors delivered (orphans connect when the parent arrives)
				changed := true
				for changed {
					changed = false
					for _, b := range tr.All {
						if delivered[b.Hash] && !stored[b.Hash] && b.Parent != nil && stored[b.Parent.Hash] {
							stored[b.Hash] = true
							changed = true
						}
					}
				}
				c.Count("blocks_delivered", 1)
			} else {
				if err == nil {
					c.Count("votes_accepted_or_parked", 1)
				} else {
					c.Count("votes_rejected", 1)
				}
				if !stored[s.Vote.Target.Hash] {
					parked = append(parked, s.Vote)
					c.Count("votes_sent_before_target", 1)
				}
			}
			if !nd.Settle(net, tr, parked) {
				if r.Replaying() {
					for _, v := range parked {
						h := v.Target.Hash
						_, herr := nd.Chain.GetHeaderByHash(&h)
						fmt.Printf("parked %s cached=%v storedModel=%v headerErr=%v delivered=%v\n", v.String(), nd.Chain.VerifCasper().VerifVoteCached(h, net.PubHex[v.Key]), stored[h], herr, delivered[h])
					}
					fmt.Println(trail)
				}
				c.Inconclusive("case %d: engine did not settle after step %d (%s) queue=%d", c.Index, si, s.String(), nd.Chain.VerifCasper().VerifEpochQueueLen())
				return
			}
			want, level, info := forkChoice(tr, nd, stored, net.P.Epoch)
			if want == nil {
				c.Violation("harness:fork-choice", "cannot evaluate fork choice", info)
				return
			}
			got := nd.Best()
			trail = append(trail, fmt.Sprintf("%s => best h%d %s, engine best %s", s.String(), tr.ByHash[got].Height, chainkit.HashShort(got), chainkit.HashShort(nd.Chain.VerifCasper().VerifBestChain())))
			ctx := map[string]interface{}{"trail": trail, "step": si, "event": s.String(), "shape": tr.Shape(), "fork_choice": info, "steps": desc[:si+1]}
			if got != want.Hash {
				kind := "after-block"
				if s.Vote != nil {
					kind = "after-vote"
				}
				gb := tr.ByHash[got]
				ctx["best"] = fmt.Sprintf("h%d %s", gb.Height, chainkit.HashShort(got))
				ctx["want"] = fmt.Sprintf("h%d %s", want.Height, chainkit.HashShort(want.Hash))
				orph, oidx := nd.Orphans.VerifOrphanHashes()
				ctx["orphans_in_pool"] = orph
				ctx["orphan_index"] = oidx
				par := map[string]string{}
				for _, b := range tr.All {
					if b.Parent != nil {
						par[fmt.Sprintf("h%d %s", b.Height, chainkit.HashShort(b.Hash))] = chainkit.HashShort(b.Parent.Hash)
					}
				}
				ctx["parents"] = par
				wh := want.Hash
				_, herr := nd.Chain.GetHeaderByHash(&wh)
				ctx["want_block_stored"] = herr == nil
				c.Violation("best!=fork-choice:"+kind, "the node's best block is not the block the fork-choice rule selects", ctx)
				return
			}
			best := want
			if level != "" {
				c.Count("decided_by_"+level, 1)
			}
			if best.Hash != prevBest.Hash && !prevBest.IsAncestorOf(best) {
				c.Count("reorganisations", 1)
				if best.Height < prevBest.Height {
					c.Count("reorganisations_to_shorter_chain", 1)
				}
				if s.Vote != nil {
					c.Count("reorganisations_caused_by_vote", 1)
				}
			}
			prevBest = best
			// height index
			for h := uint64(0); h <= best.Height; h++ {
				hdr, err := nd.Chain.GetHeaderByHeight(h)
				anc := best.Ancestor(h)
				if err != nil || hdr.Hash() != anc.Hash {
					ctx["height"] = h
					ctx["error"] = fmt.Sprint(err)
					c.Violation("height-index:wrong-ancestor", "a height up to the best block does not map to the best block's ancestor", ctx)
					return
				}
			}
			// InMainChain <=> ancestor of best
			for _, b := range tr.All {
				in := nd.Chain.InMainChain(b.Hash)
				wantIn := stored[b.Hash] && b.IsAncestorOf(best)
				if in != wantIn {
					ctx["block"] = fmt.Sprintf("h%d %s", b.Height, chainkit.HashShort(b.Hash))
					ctx["in_main_chain"] = in
					kind := "reports-non-ancestor"
					if b.Height > best.Height {
						kind = "stale-index-above-best"
					}
					if !in {
						kind = "misses-ancestor"
					}
					c.Violation("InMainChain:"+kind, "InMainChain disagrees with 'is an ancestor of the best block'", ctx)
					return
				}
			}
			c.Count("states_checked", 1)
			// a clean restart must not change any of this (the checkpoint tree is rebuilt from the store)
			if c.Index%2 == 1 && rng.Chance(1, 12) {
				nd2, rerr := net.Reopen(nd, g)
				if rerr != nil {
					c.Violation("restart-failed", "the node does not start from its own store after a clean stop", map[string]interface{}{"error": rerr.Error(), "step": si, "shape": tr.Shape()})
					return
				}
				nd = nd2
				c.Count("restarts", 1)
				trail = append(trail, "RESTART (orphan pool and parked votes are lost)")
				// blocks that were only held in the in-memory orphan pool are gone
				for h := range delivered {
					if !stored[h] {
						delete(delivered, h)
					}
				}
				want2, _, info2 := forkChoice(tr, nd, stored, net.P.Epoch)
				if want2 == nil || nd.Best() != want2.Hash {
					ctx["fork_choice_after_restart"] = info2
					ctx["best_after_restart"] = chainkit.HashShort(nd.Best())
					c.Violation("best!=fork-choice:after-restart", "after a clean restart the best block is not the block the fork-choice rule selects", ctx)
					return
				}
				for _, b := range tr.All {
					if in, w := nd.Chain.InMainChain(b.Hash), stored[b.Hash] && b.IsAncestorOf(want2); in != w {
						ctx["block"] = fmt.Sprintf("h%d %s", b.Height, chainkit.HashShort(b.Hash))
						c.Violation("InMainChain:after-restart", "after a clean restart InMainChain disagrees with 'is an ancestor of the best block'", ctx)
						return
					}
				}
			}
		}
		if c.WantSample() {
			c.Sample(map[string]interface{}{"tree_shape": tr.Shape(), "steps": desc})
		}
	})
	// directed: a side branch that is taller than the main chain but has no justified checkpoint, a clean
	// restart, then votes that justify the side branch's checkpoint: the fork choice moves to the tip of the
	// side branch, also for the blocks above its last checkpoint that the restarted engine had to rebuild
	r.Cases("taller-side-branch-restart-vote", r.N(12, 400), func(c *ev.Case) {
		rng := c.Rand
		tr := net.NewTree(g)
		E := int(net.P.Epoch)
		build := func(p *chainkit.Blk, n, skip int) []*chainkit.Blk {
			var l []*chainkit.Blk
			for i := 0; i < n; i++ {
				bo := chainkit.BlockOpt{}
				if i == 0 {
					bo.SkipSlots = skip
				}
				b, err := tr.Build(p, nil, bo)
				if err != nil {
					c.Violation("harness:build", "cannot build", err.Error())
					return nil
				}
				l = append(l, b)
				p = b
			}
			return l
		}
		A := build(tr.Root, E+rng.Range(1, 3), 0)
		B := build(tr.Root, 2*E+rng.Range(1, 3), 1)
		if A == nil || B == nil {
			return
		}
		nd, err := net.NewNode(fmt.Sprintf("%s/d%d", base, c.Index), g)
		if err != nil {
			c.Inconclusive("node: %v", err)
			return
		}
		defer func() { nd.Destroy() }()
		stored := map[bc.Hash]bool{tr.Root.Hash: true}
		var trail []string
		check := func(what string) bool {
			if !nd.Settle(net, tr, nil) {
				c.Inconclusive("case %d: engine did not settle after %s", c.Index, what)
				return false
			}
			want, _, info := forkChoice(tr, nd, stored, net.P.Epoch)
			got := nd.Best()
			trail = append(trail, fmt.Sprintf("%s => best %s", what, chainkit.HashShort(got)))
			if want == nil || got != want.Hash {
				ctx := map[string]interface{}{"trail": trail, "fork_choice": info, "best": chainkit.HashShort(got), "len_A": len(A), "len_B": len(B)}
				if want != nil {
					ctx["want"] = fmt.Sprintf("h%d %s", want.Height, chainkit.HashShort(want.Hash))
				}
				c.Violation("best!=fork-choice:taller-side-branch:"+what, "the node's best block is not the block the fork-choice rule selects", ctx)
				return false
			}
			for _, b := range tr.All {
				if in, w := nd.Chain.InMainChain(b.Hash), stored[b.Hash] && b.IsAncestorOf(want); in != w {
					c.Violation("InMainChain:taller-side-branch:"+what, "InMainChain disagrees with 'is an ancestor of the best block'",
						map[string]interface{}{"trail": trail, "block": fmt.Sprintf("h%d %s", b.Height, chainkit.HashShort(b.Hash)), "in_main_chain": in})
					return false
				}
			}
			c.Count("states_checked", 1)
			return true
		}
		deliver := func(bs []*chainkit.Blk, what string) bool {
			for _, b := range bs {
				if _, err := nd.Chain.ProcessBlock(chainkit.CloneBlock(b.B)); err != nil {
					c.Inconclusive("case %d: block refused: %v", c.Index, err)
					return false
				}
				stored[b.Hash] = true
			}
			return check(what)
		}
		vote := func(src, tgt *chainkit.Blk, what string) bool {
			for k := 0; k < 3; k++ {
				nd.Chain.ProcessBlockVerification(net.VoteMsg(k, src.Hash, tgt.Hash))
			}
			return check(what)
		}
		if !deliver(A, "branch-A") || !vote(tr.Root, A[E-1], "votes-justify-A4") || !deliver(B, "taller-branch-B") {
			return
		}
		if c.Index%3 != 2 { // two thirds with the restart, one third without (control)
			nd2, rerr := net.Reopen(nd, g)
			if rerr != nil {
				c.Violation("restart-failed", "the node does not start from its own store after a clean stop", map[string]interface{}{"error": rerr.Error()})
				return
			}
			nd = nd2
			c.Count("restarts", 1)
			if !check("restart") {
				return
			}
		}
		if !vote(tr.Root, B[2*E-1], "votes-justify-B8") {
			return
		}
		c.Count("taller_side_branch_cases", 1)
		c.Distinct("taller-side-branch A=%d B=%d restart=%v", len(A), len(B), c.Index%3 != 2)
	})
	r.Floor("taller_side_branch_cases", 8)
	r.Floor("states_checked", 500)
	r.Floor("reorganisations", 20)
	r.Floor("reorganisations_caused_by_vote", 3)
	r.Floor("decided_by_justified", 5)
	r.Floor("decided_by_hash", 5)
	r.Floor("restarts", 10)
}
