// Package ev is the verdict / evidence / replay layer shared by all monitors.
//
// A monitor is a Go test: it calls Start, runs groups of deterministic cases
// with Cases, reports what the oracle saw through the Case methods, and calls
// Finish, which writes one result file per shard.  The ./check driver merges
// shard results, matches violations against known_findings.json, prints the
// verdict lines and writes evidence/<id>.json.
package ev

import (
	"encoding/json"
	"fmt"
	"os"
	"path/filepath"
	"runtime/debug"
	"sort"
	"strconv"
	"strings"
	"sync"
	"testing"
	"time"
)

// Violation is one refutation of the property, identified by a canonical key.
type Violation struct {
	Key     string      `json:"key"`
	What    string      `json:"what"`
	Group   string      `json:"group"`
	Case    int         `json:"case"`
	Witness interface{} `json:"witness,omitempty"`
	Count   int         `json:"count"`
}

// Floor says: counter Name must reach Min over the whole run, otherwise the
// run observed too little to support a verdict (inconclusive).
type Floor struct {
	Name string `json:"name"`
	Min  int64  `json:"min"`
}

// Result is what one shard writes.
type Result struct {
	Property     string           `json:"property"`
	Tier         string           `json:"tier"`
	Seed         int64            `json:"seed"`
	Shard        int              `json:"shard"`
	NShards      int              `json:"nshards"`
	Replay       bool             `json:"replay"`
	Evaluations  int64            `json:"evaluations"`
	Distinct     []string         `json:"distinct"`
	Counters     map[string]int64 `json:"counters"`
	Maxima       map[string]int64 `json:"maxima"`
	Samples      []interface{}    `json:"samples"`
	Violations   []*Violation     `json:"violations"`
	Inconclusive []string         `json:"inconclusive"`
	Floors       []Floor          `json:"floors"`
	Rule         string           `json:"rule"`
	Assumptions  []string         `json:"assumptions"`
	Exhaustive   bool             `json:"exhaustive"`
	WallS        float64          `json:"wall_s"`
	Done         bool             `json:"done"`
}

type replaySpec struct {
	Property string `json:"property"`
	Seed     int64  `json:"seed"`
	Tier     string `json:"tier"`
	Group    string `json:"group"`
	Case     int    `json:"case"`
}

// Run is the per-process monitor state.  All methods are safe for concurrent
// use: monitors of concurrent code report from many goroutines.
type Run struct {
	T       *testing.T
	Prop    string
	Tier    string
	Seed    int64
	Shard   int
	NShards int

	replay  *replaySpec
	out     string
	journal string
	start   time.Time

	mu          sync.Mutex
	evals       int64
	distinct    map[string]struct{}
	counters    map[string]int64
	maxima      map[string]int64
	samples     []interface{}
	sampleCount map[string]int
	viol        map[string]*Violation
	violOrder   []string
	inconcl     []string
	floors      []Floor
	rule        string
	assume      []string
	exhaustive  bool
}

const maxSamplesPerGroup = 3
const maxDistinctKeys = 3000000

// Start reads the environment set by ./check.
func Start(t *testing.T, prop string) *Run {
	r := &Run{T: t, Prop: prop, Tier: "quick", Seed: 1, NShards: 1, start: time.Now(),
		distinct: map[string]struct{}{}, counters: map[string]int64{}, maxima: map[string]int64{},
		sampleCount: map[string]int{}, viol: map[string]*Violation{}}
	if v := os.Getenv("VERIF_TIER"); v == "thorough" || v == "quick" {
		r.Tier = v
	}
	if v := os.Getenv("VERIF_SEED"); v != "" {
		if n, err := strconv.ParseInt(v, 10, 64); err == nil {
			r.Seed = n
		}
	}
	if v := os.Getenv("VERIF_SHARD"); v != "" {
		var a, b int
		if _, err := fmt.Sscanf(v, "%d/%d", &a, &b); err == nil && b > 0 && a >= 0 && a < b {
			r.Shard, r.NShards = a, b
		}
	}
	r.out = os.Getenv("VERIF_OUT")
	r.journal = os.Getenv("VERIF_JOURNAL")
	if p := os.Getenv("VERIF_REPLAY"); p != "" {
		b, err := os.ReadFile(p)
		if err != nil {
			t.Fatalf("replay file: %v", err)
		}
		var rs replaySpec
		if err := json.Unmarshal(b, &rs); err != nil {
			t.Fatalf("replay file: %v", err)
		}
		r.replay = &rs
		r.Seed = rs.Seed
		if rs.Tier != "" {
			r.Tier = rs.Tier
		}
		r.Shard, r.NShards = 0, 1
	}
	return r
}

// Thorough reports whether the thorough tier runs.
func (r *Run) Thorough() bool { return r.Tier == "thorough" }

// Replaying reports whether a single recorded case is being re-run.
func (r *Run) Replaying() bool { return r.replay != nil }

// N picks the case count of the tier.  Counts, never time budgets.
func (r *Run) N(quick, thorough int) int {
	if r.Thorough() {
		return thorough
	}
	return quick
}

// Rule records how cases are generated and what "distinct non-trivial" counts.
func (r *Run) Rule(s string) { r.mu.Lock(); r.rule = s; r.mu.Unlock() }

// Assume records an assumption / trusted-base item for the evidence file.
func (r *Run) Assume(s string) { r.mu.Lock(); r.assume = append(r.assume, s); r.mu.Unlock() }

// Exhaustive marks that a finite space was enumerated completely.
func (r *Run) Exhaustive(b bool) { r.mu.Lock(); r.exhaustive = b; r.mu.Unlock() }

// Floor: the run is inconclusive unless counter name reaches min (summed over shards).
func (r *Run) Floor(name string, min int64) {
	r.mu.Lock()
	r.floors = append(r.floors, Floor{name, min})
	r.mu.Unlock()
}

// Inconclusive records a reason why no verdict can be given.
func (r *Run) Inconclusive(format string, a ...interface{}) {
	r.mu.Lock()
	if len(r.inconcl) < 20 {
		r.inconcl = append(r.inconcl, fmt.Sprintf(format, a...))
	}
	r.mu.Unlock()
}

// Count adds n to a named counter.
func (r *Run) Count(name string, n int64) { r.mu.Lock(); r.counters[name] += n; r.mu.Unlock() }

// Max keeps the maximum of a named gauge.
func (r *Run) Max(name string, v int64) {
	r.mu.Lock()
	if cur, ok := r.maxima[name]; !ok || v > cur {
		r.maxima[name] = v
	}
	r.mu.Unlock()
}

// Eval adds n executed evaluations.
func (r *Run) Eval(n int64) { r.mu.Lock(); r.evals += n; r.mu.Unlock() }

// Distinct records a key of the distinct-nontrivial rule.
func (r *Run) Distinct(format string, a ...interface{}) {
	k := format
	if len(a) > 0 {
		k = fmt.Sprintf(format, a...)
	}
	r.mu.Lock()
	if len(r.distinct) < maxDistinctKeys {
		r.distinct[k] = struct{}{}
	}
	r.mu.Unlock()
}

// Case is one deterministic case of a group.
type Case struct {
	*Run
	Group string
	Index int
	Rand  *Rand
}

// Cases runs fn for the cases of this shard: index i belongs to shard i mod
// NShards.  The PRNG of a case depends only on (seed, property, group, i), so a
// case is the same in every tier and shard layout and can be replayed alone.
// A panic escaping fn is a violation (the code under test is called in-process).
func (r *Run) Cases(group string, n int, fn func(c *Case)) {
	for i := 0; i < n; i++ {
		if r.replay != nil {
			if r.replay.Group != group || r.replay.Case != i {
				continue
			}
		} else if i%r.NShards != r.Shard {
			continue
		}
		c := &Case{Run: r, Group: group, Index: i, Rand: NewRand(r.Seed, r.Prop, group, i)}
		r.Eval(1)
		r.runCase(c, fn)
	}
}

func (r *Run) runCase(c *Case, fn func(c *Case)) {
	defer func() {
		if p := recover(); p != nil {
			st := string(debug.Stack())
			c.Violation("panic:"+PanicSite(st), fmt.Sprintf("panic during case: %v", p), map[string]interface{}{"panic": fmt.Sprint(p), "stack": trimStack(st)})
		}
	}()
	fn(c)
}

// PanicSite extracts the first frame below the panic that is not runtime or
// testing or this package: a stable key for a crash.
func PanicSite(stack string) string {
	lines := strings.Split(stack, "\n")
	seenPanic := false
	for _, l := range lines {
		if strings.HasPrefix(l, "panic(") {
			seenPanic = true
			continue
		}
		if !seenPanic || strings.HasPrefix(l, "\t") || l == "" {
			continue
		}
		if strings.HasPrefix(l, "runtime.") || strings.HasPrefix(l, "runtime/") || strings.HasPrefix(l, "testing.") || strings.Contains(l, "internal/ev.") {
			continue
		}
		if i := strings.LastIndex(l, "("); i > 0 {
			l = l[:i]
		}
		return l
	}
	return "unknown"
}

func trimStack(s string) string {
	if len(s) > 4000 {
		return s[:4000]
	}
	return s
}

// Journal writes the descriptor of what is about to run, so that if the process
// dies (fatal error, panic in a background goroutine, watchdog) the driver can
// turn it into a replayable witness.
func (c *Case) Journal(desc interface{}) {
	if c.journal == "" {
		return
	}
	b, _ := json.Marshal(map[string]interface{}{"property": c.Prop, "seed": c.Seed, "tier": c.Tier,
		"group": c.Group, "case": c.Index, "desc": desc})
	_ = os.WriteFile(c.journal, b, 0o644)
}

// Sample keeps a few concrete cases per group for the evidence file.
func (c *Case) Sample(v interface{}) {
	c.mu.Lock()
	if c.sampleCount[c.Group] < maxSamplesPerGroup {
		c.sampleCount[c.Group]++
		c.samples = append(c.samples, map[string]interface{}{"group": c.Group, "case": c.Index, "sample": v})
	}
	c.mu.Unlock()
}

// WantSample reports whether Sample would still keep a value (to avoid
// building expensive descriptions).
func (c *Case) WantSample() bool {
	c.mu.Lock()
	defer c.mu.Unlock()
	return c.sampleCount[c.Group] < maxSamplesPerGroup
}

// Violation records a refutation.  key must identify the failing input, call
// site or history class precisely: known_findings.json is matched on it.
func (c *Case) Violation(key, what string, witness interface{}) {
	c.mu.Lock()
	defer c.mu.Unlock()
	if v, ok := c.viol[key]; ok {
		v.Count++
		return
	}
	if len(c.viol) >= 200 {
		c.counters["violations_dropped"]++
		return
	}
	c.viol[key] = &Violation{Key: key, What: what, Group: c.Group, Case: c.Index, Witness: witness, Count: 1}
	c.violOrder = append(c.violOrder, key)
}

// Check is shorthand: if !ok, record a violation.
func (c *Case) Check(ok bool, key, what string, witness interface{}) bool {
	if !ok {
		c.Violation(key, what, witness)
	}
	return ok
}

// Finish writes the shard result.
func (r *Run) Finish() {
	r.mu.Lock()
	defer r.mu.Unlock()
	res := Result{Property: r.Prop, Tier: r.Tier, Seed: r.Seed, Shard: r.Shard, NShards: r.NShards,
		Replay: r.replay != nil, Evaluations: r.evals, Counters: r.counters, Maxima: r.maxima, Samples: r.samples,
		Inconclusive: r.inconcl, Floors: r.floors, Rule: r.rule, Assumptions: r.assume, Exhaustive: r.exhaustive,
		WallS: time.Since(r.start).Seconds(), Done: true}
	for k := range r.distinct {
		res.Distinct = append(res.Distinct, k)
	}
	sort.Strings(res.Distinct)
	for _, k := range r.violOrder {
		res.Violations = append(res.Violations, r.viol[k])
	}
	b, err := json.Marshal(res)
	if err != nil {
		// a witness that cannot be marshalled must not hide the verdict
		for _, v := range res.Violations {
			v.Witness = fmt.Sprintf("%+v", v.Witness)
		}
		res.Samples = nil
		b, _ = json.Marshal(res)
	}
	if r.out != "" {
		_ = os.MkdirAll(filepath.Dir(r.out), 0o755)
		tmp := r.out + ".tmp"
		if err := os.WriteFile(tmp, b, 0o644); err == nil {
			_ = os.Rename(tmp, r.out)
		}
	} else {
		// stand-alone `go test`: print a summary and fail on violations
		fmt.Printf("%s tier=%s seed=%d evaluations=%d distinct=%d violations=%d inconclusive=%v\n",
			r.Prop, r.Tier, r.Seed, r.evals, len(r.distinct), len(r.viol), r.inconcl)
		keys := make([]string, 0, len(r.counters))
		for k := range r.counters {
			keys = append(keys, k)
		}
		sort.Strings(keys)
		for _, k := range keys {
			fmt.Printf("  %s=%d\n", k, r.counters[k])
		}
		for _, k := range r.violOrder {
			v := r.viol[k]
			w, _ := json.Marshal(v.Witness)
			if len(w) > 1500 {
				w = w[:1500]
			}
			fmt.Printf("  VIOLATION key=%q x%d what=%s witness=%s\n", v.Key, v.Count, v.What, w)
		}
	}
}
