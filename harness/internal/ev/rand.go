package ev

import (
	"hash/fnv"
	"math/bits"
)

// Rand is a small deterministic PRNG (splitmix64 seeded xoshiro256**), cheap
// enough to create one per case.
type Rand struct{ s [4]uint64 }

func splitmix(x *uint64) uint64 {
	*x += 0x9e3779b97f4a7c15
	z := *x
	z = (z ^ (z >> 30)) * 0xbf58476d1ce4e5b9
	z = (z ^ (z >> 27)) * 0x94d049bb133111eb
	return z ^ (z >> 31)
}

// NewRand derives a generator from (seed, property, group, case index).
func NewRand(seed int64, prop, group string, i int) *Rand {
	h := fnv.New64a()
	h.Write([]byte(prop))
	h.Write([]byte{0})
	h.Write([]byte(group))
	x := h.Sum64() ^ uint64(seed)*0x9e3779b97f4a7c15 ^ uint64(i)*0xd1342543de82ef95
	r := &Rand{}
	for k := range r.s {
		r.s[k] = splitmix(&x)
	}
	return r
}

// Fork derives an independent generator (for goroutines of one case).
func (r *Rand) Fork() *Rand {
	x := r.Uint64()
	n := &Rand{}
	for k := range n.s {
		n.s[k] = splitmix(&x)
	}
	return n
}

func (r *Rand) Uint64() uint64 {
	s := &r.s
	res := bits.RotateLeft64(s[1]*5, 7) * 9
	t := s[1] << 17
	s[2] ^= s[0]
	s[3] ^= s[1]
	s[1] ^= s[2]
	s[0] ^= s[3]
	s[2] ^= t
	s[3] = bits.RotateLeft64(s[3], 45)
	return res
}

func (r *Rand) Int63() int64   { return int64(r.Uint64() >> 1) }
func (r *Rand) Uint32() uint32 { return uint32(r.Uint64() >> 32) }

// Intn returns a value in [0,n); n <= 0 returns 0.
func (r *Rand) Intn(n int) int {
	if n <= 0 {
		return 0
	}
	return int(r.Uint64() % uint64(n))
}

// Range returns a value in [lo,hi].
func (r *Rand) Range(lo, hi int) int {
	if hi <= lo {
		return lo
	}
	return lo + r.Intn(hi-lo+1)
}

func (r *Rand) Bool() bool { return r.Uint64()&1 == 1 }

// Chance is true with probability num/den.
func (r *Rand) Chance(num, den int) bool { return r.Intn(den) < num }

func (r *Rand) Float64() float64 { return float64(r.Uint64()>>11) / (1 << 53) }

// Bytes returns n random bytes (n = 0 returns an empty, non-nil slice).
func (r *Rand) Bytes(n int) []byte {
	b := make([]byte, n)
	for i := 0; i < n; i += 8 {
		v := r.Uint64()
		for j := 0; j < 8 && i+j < n; j++ {
			b[i+j] = byte(v >> (8 * j))
		}
	}
	return b
}

// Read implements io.Reader.
func (r *Rand) Read(p []byte) (int, error) {
	copy(p, r.Bytes(len(p)))
	return len(p), nil
}

// Perm returns a random permutation of [0,n).
func (r *Rand) Perm(n int) []int {
	p := make([]int, n)
	for i := range p {
		p[i] = i
	}
	for i := n - 1; i > 0; i-- {
		j := r.Intn(i + 1)
		p[i], p[j] = p[j], p[i]
	}
	return p
}

// Shuffle permutes n elements in place through swap.
func (r *Rand) Shuffle(n int, swap func(i, j int)) {
	for i := n - 1; i > 0; i-- {
		swap(i, r.Intn(i+1))
	}
}

// Pick returns a random element index weighted by w.
func (r *Rand) Pick(w []int) int {
	t := 0
	for _, x := range w {
		t += x
	}
	v := r.Intn(t)
	for i, x := range w {
		if v < x {
			return i
		}
		v -= x
	}
	return len(w) - 1
}

// U64Boundary returns a uint64 biased to overflow-adjacent values.
func (r *Rand) U64Boundary() uint64 {
	pool := []uint64{0, 1, 2, 1 << 31, 1<<31 - 1, 1 << 32, 1<<32 - 1, 1 << 62, 1<<63 - 1, 1 << 63, 1<<63 + 1, 1<<64 - 1, 1<<64 - 2}
	switch r.Intn(4) {
	case 0:
		return pool[r.Intn(len(pool))]
	case 1:
		return pool[r.Intn(len(pool))] + uint64(r.Intn(5)) - 2
	case 2:
		return uint64(r.Intn(1000))
	default:
		return r.Uint64() >> uint(r.Intn(64))
	}
}
