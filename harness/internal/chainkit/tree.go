package chainkit

import (
	"encoding/hex"
	"fmt"
	"sort"

	"golang.org/x/crypto/sha3"

	"github.com/bytom/bytom/protocol/bc"
	"github.com/bytom/bytom/protocol/bc/types"
	"github.com/bytom/bytom/protocol/casper"
)

// Genesis is the harness's own genesis block and its funding outputs.
type Genesis struct {
	Block *types.Block
	Blk   *Blk
	Funds []*UTXO // BTM, anyone-can-spend
	Other []*UTXO // non-BTM assets, anyone-can-spend
}

// FundAmount is the BTM amount of each funding output.
const FundAmount = uint64(50000000000000)

// NewGenesis builds a genesis block with a coinbase and an input-less funding
// transaction (ordinary outputs: spendable from height 1).
func (n *Net) NewGenesis(nFunds, nOther int) *Genesis {
	cb := Finish(&types.TxData{Version: 1, Inputs: []*types.TxInput{types.NewCoinbaseInput([]byte("verif genesis"))},
		Outputs: []*types.TxOutput{types.NewOriginalTxOutput(BTM, 0, TrueProg, [][]byte{})}})
	fd := &types.TxData{Version: 1}
	for i := 0; i < nFunds; i++ {
		fd.Outputs = append(fd.Outputs, types.NewOriginalTxOutput(BTM, FundAmount, []byte{0x01, byte(i), 0x75, 0x51}, [][]byte{}))
	}
	for i := 0; i < nOther; i++ {
		fd.Outputs = append(fd.Outputs, types.NewOriginalTxOutput(AssetN(i%3), 1000000+uint64(i), TrueProg, [][]byte{}))
	}
	fund := Finish(fd)
	b := &types.Block{BlockHeader: types.BlockHeader{Version: 1, Height: 0, Timestamp: GenesisTime}, Transactions: []*types.Tx{cb, fund}}
	root, err := types.TxMerkleRoot([]*bc.Tx{cb.Tx, fund.Tx})
	if err != nil {
		panic(err)
	}
	b.TransactionsMerkleRoot = root
	g := &Genesis{Block: b}
	blk := &Blk{B: b, Hash: b.Hash(), Height: 0, Proposer: -1, Utxo: map[bc.Hash]*RefUtxo{}, Contracts: map[[32]byte][]byte{}, Votes: map[string]uint64{}, Rewards: map[string]uint64{}}
	for _, u := range Outputs(fund) {
		blk.Utxo[u.ID] = &RefUtxo{U: u, Type: UNormal, Height: 0}
		if u.Asset == BTM {
			g.Funds = append(g.Funds, u)
		} else {
			g.Other = append(g.Other, u)
		}
	}
	g.Blk = blk
	return g
}

// Tree is the harness's own view of all blocks it ever built.
type Tree struct {
	Net    *Net
	G      *Genesis
	Root   *Blk // genesis node of this tree
	All    []*Blk
	ByHash map[bc.Hash]*Blk
	nonce  int
}

// NewTree starts a tree at the genesis.
func (n *Net) NewTree(g *Genesis) *Tree {
	// every tree gets its own root node: Children is per tree
	root := *g.Blk
	root.Children = nil
	t := &Tree{Net: n, G: g, Root: &root, ByHash: map[bc.Hash]*Blk{}}
	t.All = append(t.All, &root)
	t.ByHash[root.Hash] = &root
	return t
}

// BlockOpt tunes block construction.
type BlockOpt struct {
	SkipSlots   int                // extra empty time slots before this block
	NoSign      bool               // leave the witness empty
	SignWith    *int               // sign with this key index instead of the scheduled proposer
	Coinbase    *types.Tx          // use this coinbase instead of the computed one
	Rewards     map[string]uint64  // override the reward payments
	Timestamp   uint64             // explicit timestamp (0 = parent + interval*(1+SkipSlots))
	SupLinks    types.SupLinks     // header supLinks
	NoRefCheck  bool               // do not fail if the reference ledger rejects the block (mutants)
	Mutate      func(*types.Block) // applied before the merkle root / signature are computed
	MutateRoot  func(*types.Block) // applied after the merkle root is set, before signing (validly signed wrong commitments)
	MutateAfter func(*types.Block) // applied after signing (breaks what it touches)
}

// CoinbaseTx builds the coinbase the reference model requires for the block after p proposed by key idx.
func (n *Net) CoinbaseTx(p *Blk, idx int, nonce int, rewards map[string]uint64) *types.Tx {
	own := ValidatorProg(idx)
	ownHex := hex.EncodeToString(own)
	d := &types.TxData{Version: 1, Inputs: []*types.TxInput{types.NewCoinbaseInput([]byte(fmt.Sprintf("\x00%d/%d", p.Height+1, nonce)))}}
	d.Outputs = append(d.Outputs, types.NewOriginalTxOutput(BTM, rewards[ownHex], own, [][]byte{}))
	var progs []string
	for k := range rewards {
		if k != ownHex {
			progs = append(progs, k)
		}
	}
	sort.Strings(progs)
	for _, k := range progs {
		pb, _ := hex.DecodeString(k)
		d.Outputs = append(d.Outputs, types.NewOriginalTxOutput(BTM, rewards[k], pb, [][]byte{}))
	}
	return Finish(d)
}

// Build constructs (and registers in the tree) a block on parent p with the given
// transactions.  The proposer and the coinbase come from the reference model.
func (t *Tree) Build(p *Blk, txs []*types.Tx, o BlockOpt) (*Blk, error) {
	n := t.Net
	ts := o.Timestamp
	if ts == 0 {
		ts = p.B.Timestamp + Interval*uint64(1+o.SkipSlots)
	}
	v := n.ProposerAt(p, ts)
	idx := n.KeyIndex(v.PubHex)
	if idx < 0 {
		return nil, fmt.Errorf("scheduled proposer %s is not a harness key", v.PubHex[:8])
	}
	t.nonce++
	rewards := o.Rewards
	if rewards == nil {
		rewards = n.ExpectedCoinbase(p)
	}
	cb := o.Coinbase
	if cb == nil {
		cb = n.CoinbaseTx(p, idx, t.nonce, rewards)
	}
	b := &types.Block{BlockHeader: types.BlockHeader{Version: 1, Height: p.Height + 1, PreviousBlockHash: p.Hash, Timestamp: ts},
		Transactions: append([]*types.Tx{cb}, txs...)}
	b.SupLinks = o.SupLinks
	if o.Mutate != nil {
		o.Mutate(b)
	}
	var bts []*bc.Tx
	for _, tx := range b.Transactions {
		bts = append(bts, tx.Tx)
	}
	root, err := types.TxMerkleRoot(bts)
	if err != nil {
		return nil, err
	}
	b.TransactionsMerkleRoot = root
	if o.MutateRoot != nil {
		o.MutateRoot(b)
	}
	if !o.NoSign {
		k := idx
		if o.SignWith != nil {
			k = *o.SignWith
		}
		b.BlockWitness = n.Prv[k].Sign(b.Hash().Bytes())
	}
	if o.MutateAfter != nil {
		o.MutateAfter(b)
	}
	nb, err := n.Apply(p, b)
	if err != nil {
		if !o.NoRefCheck {
			return nil, err
		}
		nb = &Blk{B: b, Hash: b.Hash(), Parent: p, Height: b.Height, Utxo: p.Utxo, Contracts: p.Contracts, Votes: p.Votes, Rewards: p.Rewards}
	}
	nb.Proposer = idx
	nb.Seq = len(t.All)
	if old, ok := t.ByHash[nb.Hash]; ok {
		return old, nil
	}
	t.All = append(t.All, nb)
	t.ByHash[nb.Hash] = nb
	p.Children = append(p.Children, nb)
	return nb, nil
}

// Tips returns the leaves of the tree.
func (t *Tree) Tips() []*Blk {
	var r []*Blk
	for _, b := range t.All {
		if len(b.Children) == 0 {
			r = append(r, b)
		}
	}
	return r
}

// VoteMsg signs a casper verification source -> target with key i.
func (n *Net) VoteMsg(i int, source, target bc.Hash) *casper.ValidCasperSignMsg {
	return &casper.ValidCasperSignMsg{SourceHash: source, TargetHash: target, Signature: n.SignVote(n.Prv[i], source, target), PubKey: n.PubHex[i]}
}

// SignVote signs sha3-256(source || target), the verification message.
func (n *Net) SignVote(prv interface{ Sign([]byte) []byte }, source, target bc.Hash) []byte {
	msg := sha3.Sum256(append(append([]byte{}, source.Bytes()...), target.Bytes()...))
	return prv.Sign(msg[:])
}
