package chainkit

import (
	"testing"
	"time"

	"github.com/bytom/bytom/protocol/bc/types"
)

// probe: a vote that changes the best chain
func TestProbeVoteReorg(t *testing.T) {
	n := Configure(Params{Epoch: 4, Fed: 4, Local: -1, VotePending: 3, NKeys: 6})
	g := n.NewGenesis(10, 4)
	tr := n.NewTree(g)
	nd, err := n.NewNode(t.TempDir(), g)
	if err != nil {
		t.Fatal(err)
	}
	defer nd.Destroy()
	// branch A: 6 blocks; branch B: 4 blocks (skip a slot to differ)
	p := tr.Root
	var a, b []*Blk
	for i := 0; i < 6; i++ {
		x, err := tr.Build(p, []*types.Tx{}, BlockOpt{})
		if err != nil {
			t.Fatal(err)
		}
		a = append(a, x)
		p = x
	}
	p = tr.Root
	for i := 0; i < 4; i++ {
		o := BlockOpt{}
		if i == 0 {
			o.SkipSlots = 1
		}
		x, err := tr.Build(p, []*types.Tx{}, o)
		if err != nil {
			t.Fatal(err)
		}
		b = append(b, x)
		p = x
	}
	if err := nd.Feed(a...); err != nil {
		t.Fatal(err)
	}
	if err := nd.Feed(b...); err != nil {
		t.Fatal(err)
	}
	if nd.Best() != a[5].Hash {
		t.Fatalf("best should be A tip")
	}
	done := make(chan error, 1)
	go func() {
		for i := 0; i < 3; i++ {
			if err := nd.Chain.ProcessBlockVerification(n.VoteMsg(i, g.Blk.Hash, b[3].Hash)); err != nil {
				done <- err
				return
			}
		}
		done <- nil
	}()
	select {
	case err := <-done:
		t.Logf("votes returned: %v; best is B tip: %v", err, nd.Best() == b[3].Hash)
	case <-time.After(5 * time.Second):
		t.Fatalf("DEADLOCK: votes did not return")
	}
}
