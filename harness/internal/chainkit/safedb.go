package chainkit

import (
	"sync"

	dbm "github.com/bytom/bytom/database/leveldb"
)

// lateDB wraps the real backend only to make *closing* safe: a bytom chain
// cannot be stopped, and its background goroutine (casper's cached-vote loop)
// may still read the store when the harness disposes of a node.  While open,
// every call goes straight to the backend; after Close, reads return nothing and
// writes are dropped instead of panicking inside a goroutine of a dead node.
type lateDB struct {
	dbm.DB
	mu     sync.RWMutex
	closed bool
}

func (d *lateDB) Get(k []byte) []byte {
	d.mu.RLock()
	defer d.mu.RUnlock()
	if d.closed {
		return nil
	}
	return d.DB.Get(k)
}

func (d *lateDB) Set(k, v []byte) {
	d.mu.RLock()
	defer d.mu.RUnlock()
	if !d.closed {
		d.DB.Set(k, v)
	}
}

func (d *lateDB) SetSync(k, v []byte) {
	d.mu.RLock()
	defer d.mu.RUnlock()
	if !d.closed {
		d.DB.SetSync(k, v)
	}
}

func (d *lateDB) Delete(k []byte) {
	d.mu.RLock()
	defer d.mu.RUnlock()
	if !d.closed {
		d.DB.Delete(k)
	}
}

func (d *lateDB) DeleteSync(k []byte) {
	d.mu.RLock()
	defer d.mu.RUnlock()
	if !d.closed {
		d.DB.DeleteSync(k)
	}
}

func (d *lateDB) Close() {
	d.mu.Lock()
	defer d.mu.Unlock()
	if !d.closed {
		d.closed = true
		d.DB.Close()
	}
}

type lateBatch struct {
	dbm.Batch
	d *lateDB
}

func (b *lateBatch) Write() {
	b.d.mu.RLock()
	defer b.d.mu.RUnlock()
	if !b.d.closed {
		b.Batch.Write()
	}
}

func (d *lateDB) NewBatch() dbm.Batch {
	d.mu.RLock()
	defer d.mu.RUnlock()
	if d.closed {
		return &nopBatch{}
	}
	return &lateBatch{Batch: d.DB.NewBatch(), d: d}
}

type nopBatch struct{}

func (*nopBatch) Set(k, v []byte) {}
func (*nopBatch) Delete(k []byte) {}
func (*nopBatch) Write()          {}

type nopIter struct{}

func (nopIter) Next() bool       { return false }
func (nopIter) Key() []byte      { return nil }
func (nopIter) Value() []byte    { return nil }
func (nopIter) Seek([]byte) bool { return false }
func (nopIter) Release()         {}
func (nopIter) Error() error     { return nil }

func (d *lateDB) Iterator() dbm.Iterator {
	d.mu.RLock()
	defer d.mu.RUnlock()
	if d.closed {
		return nopIter{}
	}
	return d.DB.Iterator()
}

func (d *lateDB) IteratorPrefix(p []byte) dbm.Iterator {
	d.mu.RLock()
	defer d.mu.RUnlock()
	if d.closed {
		return nopIter{}
	}
	return d.DB.IteratorPrefix(p)
}

func (d *lateDB) IteratorPrefixWithStart(p, s []byte, rev bool) dbm.Iterator {
	d.mu.RLock()
	defer d.mu.RUnlock()
	if d.closed {
		return nopIter{}
	}
	return d.DB.IteratorPrefixWithStart(p, s, rev)
}
