package chainkit

import (
	"crypto/sha256"
	"encoding/hex"
	"fmt"
	"sort"

	"golang.org/x/crypto/sha3"

	"github.com/bytom/bytom/consensus"
	"github.com/bytom/bytom/protocol/bc"
	"github.com/bytom/bytom/protocol/bc/types"
)

// RefUtxo is an unspent output of the reference ledger.
type RefUtxo struct {
	U      *UTXO
	Type   UType
	Height uint64 // creation height
}

// Blk is a block of the harness's own block tree together with the reference
// ledger state *after* it on its branch.  The reference ledger is written from
// the property statements (C10, C13–C15), not from protocol/state.
type Blk struct {
	B        *types.Block
	Hash     bc.Hash
	Parent   *Blk
	Children []*Blk
	Height   uint64
	Seq      int // creation order in the tree

	Utxo      map[bc.Hash]*RefUtxo // unspent outputs
	Contracts map[[32]byte][]byte  // contract hash -> registering tx id || contract
	Votes     map[string]uint64    // pubkey hex -> tally along the branch
	Rewards   map[string]uint64    // program hex -> reward accumulated in the current epoch
	Minted    uint64               // Σ coinbase outputs along the branch
	Fees      uint64               // Σ fees along the branch
	Retired   uint64               // Σ BTM retired along the branch
	Proposer  int                  // key index of the proposer (-1 genesis)
}

// ContractHash is the table key of a contract.
func ContractHash(contract []byte) [32]byte {
	return sha3.Sum256(contract)
}

// ContractFails reports whether a sample contract fails when run without arguments.
func ContractFails(contract []byte) bool { return len(contract) == 1 && contract[0] == 0x00 }

// CP returns the checkpoint block that fixes the validators of the block *following* b:
// the last block at an epoch boundary at or below b.
func (b *Blk) CP(epoch uint64) *Blk {
	x := b
	for x.Height%epoch != 0 {
		x = x.Parent
	}
	return x
}

// Ancestor returns the ancestor at height h (nil if above b).
func (b *Blk) Ancestor(h uint64) *Blk {
	if h > b.Height {
		return nil
	}
	x := b
	for x.Height > h {
		x = x.Parent
	}
	return x
}

// IsAncestorOf reports whether b is an ancestor of (or equal to) d.
func (b *Blk) IsAncestorOf(d *Blk) bool {
	a := d.Ancestor(b.Height)
	return a != nil && a.Hash == b.Hash
}

// Path returns genesis..b.
func (b *Blk) Path() []*Blk {
	var p []*Blk
	for x := b; x != nil; x = x.Parent {
		p = append(p, x)
	}
	for i, j := 0, len(p)-1; i < j; i, j = i+1, j-1 {
		p[i], p[j] = p[j], p[i]
	}
	return p
}

// RefValidator is one effective validator of the reference model.
type RefValidator struct {
	PubHex string
	Votes  uint64
	Order  int
}

// Validators is the reference validator set fixed by checkpoint block cp: the at most
// ten keys whose tally meets the minimum, by votes then key (descending); else the federation.
func (n *Net) Validators(cp *Blk) []RefValidator {
	var vs []RefValidator
	for k, v := range cp.Votes {
		if v >= n.P.MinVote {
			vs = append(vs, RefValidator{PubHex: k, Votes: v})
		}
	}
	sort.Slice(vs, func(i, j int) bool {
		if vs[i].Votes != vs[j].Votes {
			return vs[i].Votes > vs[j].Votes
		}
		return vs[i].PubHex > vs[j].PubHex
	})
	if len(vs) > consensus.MaxNumOfValidators {
		vs = vs[:consensus.MaxNumOfValidators]
	}
	if len(vs) == 0 {
		for i := 0; i < n.P.Fed; i++ {
			vs = append(vs, RefValidator{PubHex: n.PubHex[i]})
		}
	}
	for i := range vs {
		vs[i].Order = i
	}
	return vs
}

// ProposerAt is the reference schedule: the validator whose slot contains ts, for a block whose parent is p.
func (n *Net) ProposerAt(p *Blk, ts uint64) RefValidator {
	cp := p.CP(n.P.Epoch)
	vs := n.Validators(cp)
	start := cp.B.Timestamp + Interval
	slot := (ts - start) / Interval
	return vs[int(slot%uint64(len(vs)))]
}

// subsidy is the per-block validator reward given the branch tallies after the block.
func subsidy(height uint64, votes map[string]uint64) uint64 {
	var total uint64
	for _, v := range votes {
		total += v
	}
	supply := height*consensus.BlockReward/2 + consensus.InitBTMSupply
	rate := float64(total) / float64(supply)
	if rate <= consensus.RewardThreshold {
		return uint64((rate + consensus.RewardThreshold) * float64(consensus.BlockReward))
	}
	return consensus.BlockReward
}

// LedgerError classifies why the reference ledger rejects a block.
type LedgerError struct{ Class, Detail string }

func (e *LedgerError) Error() string { return e.Class + ": " + e.Detail }

func copyU(m map[bc.Hash]*RefUtxo) map[bc.Hash]*RefUtxo {
	o := make(map[bc.Hash]*RefUtxo, len(m)+8)
	for k, v := range m {
		o[k] = v
	}
	return o
}

// Apply computes the reference state after block b on parent p.  It enforces the
// ledger rules (missing / spent / immature coinbase / locked vote outputs); header
// and transaction-internal rules are not its business.
func (n *Net) Apply(p *Blk, b *types.Block) (*Blk, error) {
	epoch := n.P.Epoch
	nb := &Blk{B: b, Hash: b.Hash(), Parent: p, Height: b.Height, Proposer: -1,
		Utxo: copyU(p.Utxo), Contracts: make(map[[32]byte][]byte, len(p.Contracts)+1), Votes: map[string]uint64{}, Rewards: map[string]uint64{},
		Minted: p.Minted, Fees: p.Fees, Retired: p.Retired}
	for k, v := range p.Contracts {
		nb.Contracts[k] = v
	}
	for k, v := range p.Votes {
		if v != 0 {
			nb.Votes[k] = v
		}
	}
	if b.Height%epoch != 1 { // same epoch: keep accumulating
		for k, v := range p.Rewards {
			nb.Rewards[k] = v
		}
	}
	var fees uint64
	for ti, tx := range b.Transactions {
		for _, id := range tx.SpentOutputIDs {
			u, ok := nb.Utxo[id]
			if !ok {
				return nil, &LedgerError{"missing-or-spent", fmt.Sprintf("tx %d spends %s", ti, HashShort(id))}
			}
			// an output locked by a contract call runs the contract registered on this branch by an
			// EARLIER block (the table a block is validated against is the one before it); while the
			// contract is not registered the call program itself runs (two pushes: anyone can spend)
			if h, ok := IsCall(u.U.Program); ok {
				if v, reg := p.Contracts[h]; reg && ContractFails(v[32:]) {
					return nil, &LedgerError{"registered-contract-fails", fmt.Sprintf("tx %d calls %x", ti, h[:4])}
				}
			}
			switch u.Type {
			case UCoinbase:
				if u.Height+consensus.CoinbasePendingBlockNumber > b.Height {
					return nil, &LedgerError{"immature-coinbase", fmt.Sprintf("created %d spent %d", u.Height, b.Height)}
				}
			case UVote:
				if u.Height+n.P.VotePending > b.Height {
					return nil, &LedgerError{"locked-vote", fmt.Sprintf("created %d spent %d", u.Height, b.Height)}
				}
			}
			delete(nb.Utxo, id)
		}
		for _, in := range tx.Inputs {
			if v, ok := in.TypedInput.(*types.VetoInput); ok {
				k := hex.EncodeToString(v.Vote)
				if nb.Votes[k] > v.Amount {
					nb.Votes[k] -= v.Amount
				} else {
					delete(nb.Votes, k)
				}
			}
		}
		for _, u := range Outputs(tx) {
			if u.Vote != nil {
				nb.Votes[hex.EncodeToString(u.Vote)] += u.Amount
			}
			if u.Amount == 0 {
				continue
			}
			typ := UNormal
			if u.Vote != nil {
				typ = UVote
			}
			if ti == 0 {
				typ = UCoinbase
				nb.Minted += u.Amount
			}
			nb.Utxo[u.ID] = &RefUtxo{U: u, Type: typ, Height: b.Height}
		}
		for _, o := range tx.Outputs {
			if c, ok := IsRegister(o.ControlProgram); ok {
				h := ContractHash(c)
				if _, dup := nb.Contracts[h]; !dup {
					nb.Contracts[h] = append(append([]byte{}, tx.ID.Bytes()...), c...)
				}
			}
			if o.OutputType() == types.OriginalOutputType && len(o.ControlProgram) > 0 && o.ControlProgram[0] == 0x6a && *o.AssetId == BTM {
				nb.Retired += o.Amount
			}
		}
		fees += tx.Fee()
	}
	nb.Fees += fees
	if len(b.Transactions) > 0 && len(b.Transactions[0].Outputs) > 0 {
		prog := hex.EncodeToString(b.Transactions[0].Outputs[0].ControlProgram)
		nb.Rewards[prog] += fees + subsidy(b.Height, nb.Votes)
	}
	return nb, nil
}

// ExpectedCoinbase returns the reward payments the block following p must make
// (empty unless it opens an epoch), as the property C14 states them: the reward
// table accumulated during the previous epoch.
func (n *Net) ExpectedCoinbase(p *Blk) map[string]uint64 {
	if (p.Height+1)%n.P.Epoch != 1 || p.Height == 0 {
		return map[string]uint64{}
	}
	out := map[string]uint64{}
	for k, v := range p.Rewards {
		out[k] = v
	}
	return out
}

// Digest is a canonical digest of the reference ledger state (unspent ids with type and height, contracts).
func (b *Blk) Digest() string {
	var ks []string
	for id, u := range b.Utxo {
		ks = append(ks, fmt.Sprintf("%x/%d/%d", id.Bytes(), u.Type, u.Height))
	}
	for h, v := range b.Contracts {
		ks = append(ks, fmt.Sprintf("c%x/%x", h[:], v[:8]))
	}
	sort.Strings(ks)
	s := sha256.New()
	for _, k := range ks {
		s.Write([]byte(k))
	}
	return hex.EncodeToString(s.Sum(nil)[:8])
}
