package chainkit

// Additions for the reward (C14) and validator-schedule (C15) monitors.  Nothing
// here changes the behaviour of the existing helpers.

import (
	"fmt"

	"github.com/bytom/bytom/protocol/bc"
	"github.com/bytom/bytom/protocol/bc/types"
)

// GenesisVote is a vote output that exists from height 0.  The genesis checkpoint
// carries no tally (exactly like Chain.initChainStatus), so such an output is the
// only way to produce a veto that exceeds the tally of its key along the branch.
type GenesisVote struct {
	Key    int
	Amount uint64
}

// NewGenesisWith is NewGenesis with explicit BTM funding amounts (the genesis is
// written straight into the store and is never validated, so amounts are free;
// callers keep the total at or below consensus.InitBTMSupply to stay realistic)
// and optional vote outputs.
func (n *Net) NewGenesisWith(amounts []uint64, nOther int, votes []GenesisVote) *Genesis {
	cb := Finish(&types.TxData{Version: 1, Inputs: []*types.TxInput{types.NewCoinbaseInput([]byte("verif genesis"))},
		Outputs: []*types.TxOutput{types.NewOriginalTxOutput(BTM, 0, TrueProg, [][]byte{})}})
	fd := &types.TxData{Version: 1}
	for i, a := range amounts {
		fd.Outputs = append(fd.Outputs, types.NewOriginalTxOutput(BTM, a, []byte{0x02, byte(i), byte(i >> 8), 0x75, 0x51}, [][]byte{}))
	}
	for i := 0; i < nOther; i++ {
		fd.Outputs = append(fd.Outputs, types.NewOriginalTxOutput(AssetN(i%3), 1000000+uint64(i), TrueProg, [][]byte{}))
	}
	for i, v := range votes {
		fd.Outputs = append(fd.Outputs, types.NewVoteOutput(BTM, v.Amount, []byte{0x02, byte(i), 0xee, 0x75, 0x51}, n.VoteKey(v.Key), [][]byte{}))
	}
	fund := Finish(fd)
	b := &types.Block{BlockHeader: types.BlockHeader{Version: 1, Height: 0, Timestamp: GenesisTime}, Transactions: []*types.Tx{cb, fund}}
	root, err := types.TxMerkleRoot([]*bc.Tx{cb.Tx, fund.Tx})
	if err != nil {
		panic(err)
	}
	b.TransactionsMerkleRoot = root
	g := &Genesis{Block: b}
	blk := &Blk{B: b, Hash: b.Hash(), Height: 0, Proposer: -1, Utxo: map[bc.Hash]*RefUtxo{}, Contracts: map[[32]byte][]byte{}, Votes: map[string]uint64{}, Rewards: map[string]uint64{}}
	for _, u := range Outputs(fund) {
		typ := UNormal
		if u.Vote != nil {
			typ = UVote
		}
		blk.Utxo[u.ID] = &RefUtxo{U: u, Type: typ, Height: 0}
		switch {
		case u.Vote != nil:
		case u.Asset == BTM:
			g.Funds = append(g.Funds, u)
		default:
			g.Other = append(g.Other, u)
		}
	}
	g.Blk = blk
	return g
}

// GenesisBTM is the BTM held by the outputs of the genesis block (funds and vote outputs).
func (g *Genesis) GenesisBTM() uint64 {
	var s uint64
	for _, u := range g.Blk.Utxo {
		if u.U.Asset == BTM {
			s += u.U.Amount
		}
	}
	return s
}

// RawBlock builds and signs a block on parent p without registering it in any tree
// and without consulting the reference ledger: the caller decides timestamp,
// coinbase and signer (mutants).
func (n *Net) RawBlock(p *Blk, ts uint64, cb *types.Tx, txs []*types.Tx, signer int) (*types.Block, error) {
	b := &types.Block{BlockHeader: types.BlockHeader{Version: 1, Height: p.Height + 1, PreviousBlockHash: p.Hash, Timestamp: ts},
		Transactions: append([]*types.Tx{cb}, txs...)}
	var bts []*bc.Tx
	for _, tx := range b.Transactions {
		bts = append(bts, tx.Tx)
	}
	root, err := types.TxMerkleRoot(bts)
	if err != nil {
		return nil, err
	}
	b.TransactionsMerkleRoot = root
	if signer >= 0 {
		b.BlockWitness = n.Prv[signer].Sign(b.Hash().Bytes())
	}
	return b, nil
}

// Adopt registers a block produced elsewhere (for example by proposal.NewBlockTemplate)
// as a child of p, provided the reference ledger accepts it.
func (t *Tree) Adopt(p *Blk, b *types.Block) (*Blk, error) {
	if b.PreviousBlockHash != p.Hash || b.Height != p.Height+1 {
		return nil, fmt.Errorf("block %d does not extend %d %s", b.Height, p.Height, HashShort(p.Hash))
	}
	nb, err := t.Net.Apply(p, b)
	if err != nil {
		return nil, err
	}
	nb.Proposer = t.Net.KeyIndex(t.Net.ProposerAt(p, b.Timestamp).PubHex)
	if old, ok := t.ByHash[nb.Hash]; ok {
		return old, nil
	}
	nb.Seq = len(t.All)
	t.All = append(t.All, nb)
	t.ByHash[nb.Hash] = nb
	p.Children = append(p.Children, nb)
	return nb, nil
}
