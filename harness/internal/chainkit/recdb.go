package chainkit

import (
	"bytes"
	"sort"
	"sync"

	dbm "github.com/bytom/bytom/database/leveldb"
)

// WriteOp is one key mutation.
type WriteOp struct {
	Key   string
	Value []byte
	Del   bool
}

// Write is one storage write boundary: a single Set/Delete(/Sync) or one atomic batch commit.
type Write struct {
	Kind string // set, delete, batch
	Ops  []WriteOp
}

// RecDB is the harness's own dbm.DB (sorted map, snapshot iterators, atomic batches —
// the contract GoLevelDB gives the store; the C20 monitor compares the backends) that
// records every write boundary, so that a store can be rebuilt from any prefix of them.
type RecDB struct {
	mu   sync.RWMutex
	data map[string][]byte
	Log  []Write
	// FailAfter >= 0: writes beyond this many boundaries are dropped (the process "crashed")
	recording bool
}

// NewRecDB returns an empty recording DB.
func NewRecDB() *RecDB { return &RecDB{data: map[string][]byte{}, recording: true} }

// FromPrefix rebuilds a DB holding exactly the first k writes of log.
func FromPrefix(log []Write, k int) *RecDB {
	d := &RecDB{data: map[string][]byte{}, recording: true}
	for i := 0; i < k && i < len(log); i++ {
		d.apply(log[i])
	}
	return d
}

func (d *RecDB) apply(w Write) {
	for _, o := range w.Ops {
		if o.Del {
			delete(d.data, o.Key)
		} else {
			d.data[o.Key] = append([]byte{}, o.Value...)
		}
	}
}

func (d *RecDB) commit(w Write) {
	d.mu.Lock()
	defer d.mu.Unlock()
	d.apply(w)
	if d.recording {
		d.Log = append(d.Log, w)
	}
}

// Writes returns the number of write boundaries recorded so far.
func (d *RecDB) Writes() int {
	d.mu.RLock()
	defer d.mu.RUnlock()
	return len(d.Log)
}

func (d *RecDB) Get(k []byte) []byte {
	d.mu.RLock()
	defer d.mu.RUnlock()
	v, ok := d.data[string(k)]
	if !ok {
		return nil
	}
	return append([]byte{}, v...)
}

func (d *RecDB) Set(k, v []byte) {
	d.commit(Write{"set", []WriteOp{{Key: string(k), Value: append([]byte{}, v...)}}})
}
func (d *RecDB) SetSync(k, v []byte) { d.Set(k, v) }
func (d *RecDB) Delete(k []byte)     { d.commit(Write{"delete", []WriteOp{{Key: string(k), Del: true}}}) }
func (d *RecDB) DeleteSync(k []byte) { d.Delete(k) }
func (d *RecDB) Close()              {}
func (d *RecDB) Print()              {}
func (d *RecDB) Stats() map[string]string {
	return map[string]string{}
}

type recBatch struct {
	d   *RecDB
	ops []WriteOp
}

func (b *recBatch) Set(k, v []byte) {
	b.ops = append(b.ops, WriteOp{Key: string(k), Value: append([]byte{}, v...)})
}
func (b *recBatch) Delete(k []byte) { b.ops = append(b.ops, WriteOp{Key: string(k), Del: true}) }
func (b *recBatch) Write() {
	b.d.commit(Write{"batch", b.ops})
	b.ops = nil
}

func (d *RecDB) NewBatch() dbm.Batch { return &recBatch{d: d} }

type recIter struct {
	keys []string
	vals [][]byte
	pos  int // index of the current entry; -1 before the first
}

func (it *recIter) Next() bool {
	if it.pos < len(it.keys) {
		it.pos++
	}
	return it.pos < len(it.keys)
}
func (it *recIter) valid() bool { return it.pos >= 0 && it.pos < len(it.keys) }
func (it *recIter) Key() []byte {
	if !it.valid() {
		return []byte{}
	}
	return []byte(it.keys[it.pos])
}
func (it *recIter) Value() []byte {
	if !it.valid() {
		return []byte{}
	}
	return append([]byte{}, it.vals[it.pos]...)
}
func (it *recIter) Seek(p []byte) bool {
	it.pos = sort.Search(len(it.keys), func(i int) bool { return it.keys[i] >= string(p) })
	return it.pos < len(it.keys)
}
func (it *recIter) Release()     {}
func (it *recIter) Error() error { return nil }

func (d *RecDB) iter(prefix []byte) *recIter {
	d.mu.RLock()
	defer d.mu.RUnlock()
	it := &recIter{pos: -1}
	for k := range d.data {
		if bytes.HasPrefix([]byte(k), prefix) {
			it.keys = append(it.keys, k)
		}
	}
	sort.Strings(it.keys)
	for _, k := range it.keys {
		it.vals = append(it.vals, append([]byte{}, d.data[k]...))
	}
	return it
}

func (d *RecDB) Iterator() dbm.Iterator               { return d.iter(nil) }
func (d *RecDB) IteratorPrefix(p []byte) dbm.Iterator { return d.iter(p) }
func (d *RecDB) IteratorPrefixWithStart(p, start []byte, rev bool) dbm.Iterator {
	it := d.iter(p)
	if rev {
		// reverse iteration is not used by the chain store; give the goleveldb positions anyway
		for i, j := 0, len(it.keys)-1; i < j; i, j = i+1, j-1 {
			it.keys[i], it.keys[j] = it.keys[j], it.keys[i]
			it.vals[i], it.vals[j] = it.vals[j], it.vals[i]
		}
		if start != nil {
			it.pos = sort.Search(len(it.keys), func(i int) bool { return it.keys[i] <= string(start) })
		}
		return it
	}
	if start != nil {
		it.Seek(start)
	}
	return it
}
