package chainkit

import (
	"bytes"
	"sort"

	"github.com/bytom/bytom/consensus"
	"github.com/bytom/bytom/protocol/bc"
	"github.com/bytom/bytom/protocol/bc/types"

	"verif/internal/ev"
)

// GenOpt controls the random block-tree generator.
type GenOpt struct {
	Blocks     int // blocks to add
	MaxBranch  int // max children per block
	ForkPct    int // percent chance that a block forks off a non-tip block
	MaxTxs     int // max non-coinbase transactions per block
	Votes      bool
	Vetoes     bool
	Contracts  bool
	Calls      bool // outputs locked by contract calls, spent once the contract is registered on the branch
	CoinbaseSp bool // spend matured coinbase rewards
	Chained    bool // transactions spending outputs created in the same block
	SkipSlots  bool // sometimes leave empty time slots
	DeepForks  bool // forks may start far below the tips
}

// DefaultGen is a mix that drives every attach/detach path.
func DefaultGen(blocks int) GenOpt {
	return GenOpt{Blocks: blocks, MaxBranch: 3, ForkPct: 30, MaxTxs: 3, Votes: true, Vetoes: true, Contracts: true, CoinbaseSp: true, Chained: true, SkipSlots: true, DeepForks: true}
}

// SortedUtxos returns the unspent outputs of b in a deterministic order.
func (b *Blk) SortedUtxos() []*RefUtxo {
	us := make([]*RefUtxo, 0, len(b.Utxo))
	for _, u := range b.Utxo {
		us = append(us, u)
	}
	sort.Slice(us, func(i, j int) bool { return bytes.Compare(us[i].U.ID.Bytes(), us[j].U.ID.Bytes()) < 0 })
	return us
}

// Spendable reports whether the reference ledger lets u be spent at height h.
func (n *Net) Spendable(u *RefUtxo, h uint64) bool {
	switch u.Type {
	case UCoinbase:
		return u.Height+consensus.CoinbasePendingBlockNumber <= h
	case UVote:
		return u.Height+n.P.VotePending <= h
	}
	return true
}

// EarliestSpend is the first height at which the reference ledger lets u be spent.
func (n *Net) EarliestSpend(u *RefUtxo) uint64 {
	switch u.Type {
	case UCoinbase:
		return u.Height + consensus.CoinbasePendingBlockNumber
	case UVote:
		return u.Height + n.P.VotePending
	}
	return u.Height + 1
}

// sample contracts: tiny programs that succeed.
var sampleContracts = [][]byte{{0x51}, {0x51, 0x51, 0x87}, {0x52, 0x52, 0x87}, {0x01, 0x07, 0x75, 0x51}, {0x00}}

// GenTxs builds ledger-valid transactions for a block on parent p (the reference ledger decides spendability).
func (t *Tree) GenTxs(r *ev.Rand, p *Blk, o GenOpt) []*types.Tx {
	n := t.Net
	h := p.Height + 1
	us := p.SortedUtxos()
	var btm, other, votes, cbs, calls []*RefUtxo
	for _, u := range us {
		if !n.Spendable(u, h) {
			continue
		}
		switch {
		case u.Type == UVote:
			votes = append(votes, u)
		case u.Type == UCoinbase:
			cbs = append(cbs, u)
		case u.U.Asset == BTM:
			if h, ok := IsCall(u.U.Program); ok {
				// spendable unless a failing contract is registered on this branch
				if v, reg := p.Contracts[h]; o.Calls && !(reg && ContractFails(v[32:])) {
					calls = append(calls, u)
				}
				continue
			}
			if u.U.Amount > 10*DefaultFee {
				btm = append(btm, u)
			}
		default:
			other = append(other, u)
		}
	}
	used := map[bc.Hash]bool{}
	take := func(pool []*RefUtxo) *RefUtxo {
		// prefer outputs that just became spendable (boundary of maturity / lock)
		var fresh []*RefUtxo
		for _, u := range pool {
			if !used[u.U.ID] && n.EarliestSpend(u) == h && u.Type != UNormal {
				fresh = append(fresh, u)
			}
		}
		if len(fresh) > 0 && r.Chance(2, 3) {
			u := fresh[r.Intn(len(fresh))]
			used[u.U.ID] = true
			return u
		}
		for tries := 0; tries < 8 && len(pool) > 0; tries++ {
			u := pool[r.Intn(len(pool))]
			if !used[u.U.ID] {
				used[u.U.ID] = true
				return u
			}
		}
		return nil
	}
	var txs []*types.Tx
	var fresh []*UTXO // outputs created in this block
	ntx := 0
	if o.MaxTxs > 0 {
		ntx = r.Intn(o.MaxTxs + 1)
	}
	for i := 0; i < ntx; i++ {
		var ins []*UTXO
		kind := r.Intn(10)
		if o.Chained && len(fresh) > 0 && r.Chance(1, 3) {
			k := r.Intn(len(fresh))
			ins = append(ins, fresh[k])
			fresh = append(fresh[:k], fresh[k+1:]...)
		}
		hasBTM := false
		for _, u := range ins {
			if u.Asset == BTM && u.Amount > 10*DefaultFee {
				hasBTM = true
			}
		}
		if !hasBTM {
			u := take(btm)
			if u == nil {
				break
			}
			ins = append(ins, u.U)
		}
		if o.CoinbaseSp && len(cbs) > 0 && r.Chance(1, 2) {
			if u := take(cbs); u != nil {
				ins = append(ins, u.U)
			}
		}
		if o.Vetoes && len(votes) > 0 && r.Chance(1, 2) {
			if u := take(votes); u != nil {
				ins = append(ins, u.U)
			}
		}
		if len(calls) > 0 && r.Chance(2, 3) {
			if u := take(calls); u != nil {
				ins = append(ins, u.U)
			}
		}
		if len(other) > 0 && r.Chance(1, 4) {
			if u := take(other); u != nil {
				ins = append(ins, u.U)
			}
		}
		sums := map[bc.AssetID]uint64{}
		var order []bc.AssetID
		for _, u := range ins {
			if _, ok := sums[u.Asset]; !ok {
				order = append(order, u.Asset)
			}
			sums[u.Asset] += u.Amount
		}
		var outs []Out
		for _, a := range order {
			if a != BTM {
				outs = append(outs, Out{Asset: a, Amount: sums[a], Program: RandProg(r)})
			}
		}
		left := sums[BTM] - DefaultFee - uint64(r.Intn(1000))
		switch {
		case o.Votes && kind < 3 && left > 3*consensus.MinVoteOutputAmount:
			amt := consensus.MinVoteOutputAmount * uint64(1+r.Intn(3))
			outs = append(outs, Out{Asset: BTM, Amount: amt, Program: RandProg(r), Vote: n.VoteKey(r.Intn(n.P.NKeys))})
			left -= amt
		case o.Contracts && kind == 3 && left > 2*consensus.BCRPRequiredBTMAmount:
			c := sampleContracts[r.Intn(len(sampleContracts))]
			if o.Calls && r.Chance(1, 2) {
				c = sampleContracts[len(sampleContracts)-1]
			}
			outs = append(outs, Out{Asset: BTM, Amount: consensus.BCRPRequiredBTMAmount, Program: RegisterProg(c)})
			left -= consensus.BCRPRequiredBTMAmount
		case o.Calls && kind == 4 && left > 4*DefaultFee:
			// an output that can only be spent by running a (maybe not yet, maybe never registered) contract
			c := sampleContracts[r.Intn(len(sampleContracts))]
			if r.Chance(1, 2) {
				c = sampleContracts[len(sampleContracts)-1] // the failing contract: validity depends on the table
			}
			outs = append(outs, Out{Asset: BTM, Amount: 2 * DefaultFee, Program: CallProg(c)})
			left -= 2 * DefaultFee
		}
		k := 1 + r.Intn(2)
		for j := 0; j < k; j++ {
			v := left / uint64(k)
			if j == k-1 {
				v = left - (left/uint64(k))*uint64(k-1)
			}
			outs = append(outs, Out{Asset: BTM, Amount: v, Program: RandProg(r)})
		}
		tx := MakeTx(ins, outs, 0)
		txs = append(txs, tx)
		for _, u := range Outputs(tx) {
			if _, call := IsCall(u.Program); u.Vote == nil && !call {
				fresh = append(fresh, u)
			}
		}
	}
	return txs
}

// PickParent chooses where the next block goes.
func (t *Tree) PickParent(r *ev.Rand, o GenOpt) *Blk {
	var best *Blk
	for _, b := range t.All {
		if best == nil || b.Height > best.Height {
			best = b
		}
	}
	if r.Intn(100) >= o.ForkPct {
		// extend one of the highest tips
		var tips []*Blk
		for _, b := range t.Tips() {
			if b.Height+2 >= best.Height {
				tips = append(tips, b)
			}
		}
		return tips[r.Intn(len(tips))]
	}
	var cands []*Blk
	for _, b := range t.All {
		if len(b.Children) >= o.MaxBranch {
			continue
		}
		if !o.DeepForks && b.Height+6 < best.Height {
			continue
		}
		cands = append(cands, b)
	}
	if len(cands) == 0 {
		return best
	}
	return cands[r.Intn(len(cands))]
}

// Grow adds o.Blocks random valid blocks to the tree and returns them in creation order.
func (t *Tree) Grow(r *ev.Rand, o GenOpt) ([]*Blk, error) {
	var added []*Blk
	for i := 0; i < o.Blocks; i++ {
		p := t.PickParent(r, o)
		bo := BlockOpt{}
		if o.SkipSlots && r.Chance(1, 5) {
			bo.SkipSlots = 1 + r.Intn(3)
		}
		// a sibling needs a different slot or content; the coinbase nonce already differs
		b, err := t.Build(p, t.GenTxs(r, p, o), bo)
		if err != nil {
			return added, err
		}
		added = append(added, b)
	}
	return added, nil
}

// Shape is a canonical string of the tree shape (parent index per block in creation order).
func (t *Tree) Shape() string {
	idx := map[bc.Hash]int{}
	var buf bytes.Buffer
	for i, b := range t.All {
		idx[b.Hash] = i
		if b.Parent != nil {
			buf.WriteByte(byte('a' + idx[b.Parent.Hash]%26))
			buf.WriteByte(byte('0' + idx[b.Parent.Hash]/26))
		}
	}
	return buf.String()
}
