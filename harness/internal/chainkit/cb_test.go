package chainkit

import (
	"testing"

	"github.com/bytom/bytom/protocol/bc/types"
)

func TestCoinbaseSpendBoundary(t *testing.T) {
	n := Configure(Params{Epoch: 4, Fed: 3, Local: -1, VotePending: 3, NKeys: 6})
	g := n.NewGenesis(10, 4)
	tr := n.NewTree(g)
	nd, err := n.NewNode(t.TempDir(), g)
	if err != nil {
		t.Fatal(err)
	}
	defer nd.Destroy()
	p := tr.Root
	for i := 0; i < 14; i++ {
		b, err := tr.Build(p, []*types.Tx{}, BlockOpt{})
		if err != nil {
			t.Fatal(err)
		}
		if err := nd.Feed(b); err != nil {
			t.Fatal(err)
		}
		p = b
	}
	// coinbase outputs created at height 5 -> spendable at 15
	var cb *RefUtxo
	for _, u := range p.SortedUtxos() {
		if u.Type == UCoinbase && u.Height == 5 {
			cb = u
		}
	}
	if cb == nil {
		t.Fatal("no coinbase utxo at 5")
	}
	tx := PayTx([]*UTXO{g.Funds[0], cb.U}, TrueProg, 1, DefaultFee)
	b, err := tr.Build(p, []*types.Tx{tx}, BlockOpt{})
	if err != nil {
		t.Fatal(err)
	}
	t.Logf("block height %d spends coinbase created at %d: %v", b.Height, cb.Height, nd.Feed(b))
}
