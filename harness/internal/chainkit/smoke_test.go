package chainkit

import (
	"testing"

	"github.com/bytom/bytom/protocol/bc/types"
)

func TestSmoke(t *testing.T) {
	n := Configure(Params{Epoch: 4, Fed: 3, Local: -1, VotePending: 3, NKeys: 6})
	g := n.NewGenesis(10, 4)
	tr := n.NewTree(g)
	nd, err := n.NewNode(t.TempDir(), g)
	if err != nil {
		t.Fatal(err)
	}
	defer nd.Destroy()
	p := tr.Root
	var prevOut []*UTXO
	for i := 0; i < 14; i++ {
		var ins []*UTXO
		if i < len(g.Funds) {
			ins = append(ins, g.Funds[i])
		}
		if len(prevOut) > 0 {
			ins = append(ins, prevOut[0])
		}
		tx := PayTx(ins, TrueProg, 2, DefaultFee)
		prevOut = Outputs(tx)
		b, err := tr.Build(p, []*types.Tx{tx}, BlockOpt{})
		if err != nil {
			t.Fatal(err)
		}
		if err := nd.Feed(b); err != nil {
			t.Fatalf("feed %d: %v", i, err)
		}
		if nd.Best() != b.Hash {
			t.Fatalf("best != built at %d", i)
		}
		p = b
	}
	for _, v := range nd.Chain.VerifCasper().VerifTree() {
		t.Logf("cp h=%d st=%d depth=%d rewards=%v", v.Height, v.Status, v.Depth, v.Rewards)
	}
	t.Logf("ref rewards %v", p.Rewards)
}
