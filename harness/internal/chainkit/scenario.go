package chainkit

import (
	"fmt"
	"sort"
	"time"

	"github.com/bytom/bytom/protocol/bc"
	"github.com/bytom/bytom/protocol/casper"
	"github.com/bytom/bytom/protocol/state"

	"verif/internal/ev"
)

// VoteSpec is one verification message of the schedule.
type VoteSpec struct {
	Key     int // validator key index
	Source  *Blk
	Target  *Blk
	Garbage bool // signature is random bytes
	Byz     bool // sent by the Byzantine validator (may break a commandment)
}

func (v *VoteSpec) String() string {
	return fmt.Sprintf("vote k%d %d->%d(%s)%s", v.Key, v.Source.Height, v.Target.Height, HashShort(v.Target.Hash), map[bool]string{true: " garbage"}[v.Garbage])
}

// Step is one event delivered to the node.
type Step struct {
	Blk  *Blk
	Vote *VoteSpec
}

func (s Step) String() string {
	if s.Blk != nil {
		return fmt.Sprintf("block h%d %s", s.Blk.Height, HashShort(s.Blk.Hash))
	}
	return s.Vote.String()
}

// Checkpoints returns the epoch-boundary blocks of the tree above genesis, by height then creation.
func (t *Tree) Checkpoints() []*Blk {
	var cps []*Blk
	for _, b := range t.All {
		if b.Height > 0 && b.Height%t.Net.P.Epoch == 0 {
			cps = append(cps, b)
		}
	}
	sort.SliceStable(cps, func(i, j int) bool { return cps[i].Height < cps[j].Height })
	return cps
}

// PrevCP is the checkpoint block strictly below cp on its branch.
func (t *Tree) PrevCP(cp *Blk) *Blk {
	return cp.Ancestor(cp.Height - t.Net.P.Epoch)
}

type ownVote struct{ sh, th uint64; target bc.Hash }

// violates reports whether adding (sh,th,target) to a validator's history breaks a commandment.
func violates(hist []ownVote, sh, th uint64, target bc.Hash) bool {
	for _, v := range hist {
		if v.th == th && v.target != target {
			return true
		}
		if (v.sh < sh && th < v.th) || (sh < v.sh && v.th < th) {
			return true
		}
	}
	return false
}

// ScheduleOpt controls vote generation.
type ScheduleOpt struct {
	Byzantine    int  // key index of the Byzantine validator, -1 none
	VotePct      int  // percent of (validator, checkpoint) pairs that vote
	SkipLinkPct  int  // percent of votes that use an older ancestor checkpoint as source
	EarlyVotePct int  // percent of votes delivered before their target block (parked by the node)
	GarbagePct   int  // percent of extra messages with garbage signatures
	BlockOrder   int  // 0 creation order, 1 random permutation, 2 locally swapped
	Duplicates   bool // re-deliver some votes
}

// GenSchedule interleaves the delivery of every block of the tree with verification
// messages.  Honest validators never break a commandment w.r.t. their own history and
// vote source = a checkpoint ancestor of the target (usually the previous one); the
// Byzantine validator votes on every branch.
func (t *Tree) GenSchedule(r *ev.Rand, o ScheduleOpt) []Step {
	n := t.Net
	nb := len(t.All) - 1
	order := make([]int, nb)
	for i := range order {
		order[i] = i + 1
	}
	switch o.BlockOrder {
	case 1:
		r.Shuffle(nb, func(i, j int) { order[i], order[j] = order[j], order[i] })
	case 2:
		for i := 0; i+1 < nb; i++ {
			if r.Chance(1, 3) {
				order[i], order[i+1] = order[i+1], order[i]
			}
		}
	}
	pos := map[bc.Hash]int{}
	for i, bi := range order {
		pos[t.All[bi].Hash] = i
	}
	type placed struct {
		after int // deliver after the block at this position (-1 = before everything)
		v     *VoteSpec
	}
	var votes []placed
	hist := map[int][]ownVote{}
	for _, cp := range t.Checkpoints() {
		vs := n.Validators(t.PrevCP(cp))
		for _, val := range vs {
			k := n.KeyIndex(val.PubHex)
			if k < 0 || r.Intn(100) >= o.VotePct {
				continue
			}
			src := t.PrevCP(cp)
			if r.Intn(100) < o.SkipLinkPct && src.Height > 0 {
				src = src.Ancestor(uint64(r.Intn(int(src.Height/n.P.Epoch))) * n.P.Epoch)
			}
			byz := k == o.Byzantine
			if !byz {
				if violates(hist[k], src.Height, cp.Height, cp.Hash) {
					continue
				}
				hist[k] = append(hist[k], ownVote{src.Height, cp.Height, cp.Hash})
			}
			at := pos[cp.Hash] + r.Intn(nb-pos[cp.Hash]+1)
			// the vote is meaningful once target (and usually its successors) arrived; sometimes send it early
			if at < pos[cp.Hash] {
				at = pos[cp.Hash]
			}
			if r.Intn(100) < o.EarlyVotePct {
				at = r.Intn(pos[cp.Hash]+1) - 1
			}
			votes = append(votes, placed{at, &VoteSpec{Key: k, Source: src, Target: cp, Byz: byz}})
			if o.Duplicates && r.Chance(1, 6) {
				votes = append(votes, placed{at + r.Intn(nb-at), &VoteSpec{Key: k, Source: src, Target: cp, Byz: byz}})
			}
			if r.Intn(100) < o.GarbagePct {
				votes = append(votes, placed{at, &VoteSpec{Key: r.Intn(n.P.NKeys), Source: src, Target: cp, Garbage: true}})
			}
		}
	}
	sort.SliceStable(votes, func(i, j int) bool { return votes[i].after < votes[j].after })
	var steps []Step
	vi := 0
	for vi < len(votes) && votes[vi].after < 0 {
		steps = append(steps, Step{Vote: votes[vi].v})
		vi++
	}
	for i, bi := range order {
		steps = append(steps, Step{Blk: t.All[bi]})
		for vi < len(votes) && votes[vi].after <= i {
			steps = append(steps, Step{Vote: votes[vi].v})
			vi++
		}
	}
	for ; vi < len(votes); vi++ {
		steps = append(steps, Step{Vote: votes[vi].v})
	}
	return steps
}

// Msg builds the verification message of a vote.
func (n *Net) Msg(v *VoteSpec, r *ev.Rand) *casper.ValidCasperSignMsg {
	m := n.VoteMsg(v.Key, v.Source.Hash, v.Target.Hash)
	if v.Garbage {
		m.Signature = r.Bytes(64)
	}
	return m
}

// Deliver sends one step to the node and returns the error the node reported.
func (nd *Node) Deliver(n *Net, s Step, r *ev.Rand) error {
	if s.Blk != nil {
		_, err := nd.Chain.ProcessBlock(CloneBlock(s.Blk.B))
		return err
	}
	return nd.Chain.ProcessBlockVerification(n.Msg(s.Vote, r))
}

// Settle waits (logical condition, generous bound) until the engine's cached-vote loop
// has completely processed every epoch notification sent so far (exact accounting through
// the verif hook).  It returns false if the bound expired (the caller reports
// inconclusive, never a violation).  The parked argument is kept for documentation.
func (nd *Node) Settle(n *Net, t *Tree, parked []*VoteSpec) bool {
	cs := nd.Chain.VerifCasper()
	deadline := time.Now().Add(30 * time.Second)
	for !cs.VerifEpochLoopIdle() {
		if time.Now().After(deadline) {
			return false
		}
		time.Sleep(100 * time.Microsecond)
	}
	return true
}

func (nd *Node) epochStarted(cp *Blk) bool {
	for _, c := range cp.Children {
		h := c.Hash
		if _, err := nd.Chain.GetHeaderByHash(&h); err == nil {
			return true
		}
	}
	return false
}

func (n *Net) isValidatorFor(t *Tree, v *VoteSpec) bool {
	for _, val := range n.Validators(t.PrevCP(v.Target)) {
		if val.PubHex == n.PubHex[v.Key] {
			return true
		}
	}
	return false
}

// EngineStatus returns the status the engine reports for every checkpoint node of its tree, by hash.
func (nd *Node) EngineStatus() (map[bc.Hash]state.CheckpointStatus, []casper.VerifNode) {
	nodes := nd.Chain.VerifCasper().VerifTree()
	m := map[bc.Hash]state.CheckpointStatus{}
	for _, x := range nodes {
		m[x.Hash] = x.Status
	}
	return m, nodes
}
