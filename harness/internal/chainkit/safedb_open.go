package chainkit

import (
	dbm "github.com/bytom/bytom/database/leveldb"
)

// OpenSafeDB opens a GoLevelDB under dir whose handle stays safe after Close
// (see lateDB): components that cannot be stopped (a wallet's updater and
// mempool loops) may still touch their store when the harness disposes of it.
func OpenSafeDB(name, dir string) dbm.DB {
	return &lateDB{DB: dbm.NewDB(name, "leveldb", dir)}
}
