// Package chainkit is the hostile node driver shared by the chain-level
// monitors: verification network parameters, keys, an own genesis, transaction
// and block builders, block trees with an independent reference ledger, casper
// votes, and real nodes (store + chain + pool) on GoLevelDB.
package chainkit

import (
	"encoding/hex"
	"io"
	"math"
	"os"

	"github.com/sirupsen/logrus"

	"github.com/bytom/bytom/config"
	"github.com/bytom/bytom/consensus"
	"github.com/bytom/bytom/crypto/ed25519/chainkd"
	"github.com/bytom/bytom/protocol/bc"
	"github.com/bytom/bytom/protocol/vm"

	"verif/internal/ev"
)

// Interval is the block time interval of the verification network (ms).
const Interval = 1000

// GenesisTime is years in the past so that the "too far in the future" rule never depends on scheduling.
const GenesisTime = uint64(1600000000000)

// Params of a verification network.  They are process-global in bytom
// (consensus.ActiveNetParams, config.CommonConfig): one configuration per process.
type Params struct {
	Epoch       uint64 // BlocksOfEpoch
	Fed         int    // federation size (validators until votes qualify others)
	Local       int    // index of the key the node signs with; -1 = a stranger (never a validator)
	VotePending uint64 // vote lock in blocks
	MinVote     uint64 // MinValidatorVoteNum
	NKeys       int    // keys owned by the harness (>= Fed)
}

// Net holds the keys and parameters.
type Net struct {
	P        Params
	Prv      []chainkd.XPrv
	Pub      []chainkd.XPub
	PubHex   []string
	Stranger chainkd.XPrv
}

// BTM asset.
var BTM = *consensus.BTMAssetID

// TrueProg is an anyone-can-spend program.
var TrueProg = []byte{byte(vm.OP_TRUE)}

// Quiet silences bytom's logging.
func Quiet() {
	if os.Getenv("VERIF_LOG") != "" {
		logrus.SetLevel(logrus.WarnLevel)
		return
	}
	logrus.SetOutput(io.Discard)
	logrus.SetLevel(logrus.PanicLevel)
}

// Configure installs the verification network.  Keys are a pure function of the index.
func Configure(p Params) *Net {
	Quiet()
	if p.NKeys < p.Fed {
		p.NKeys = p.Fed
	}
	if p.Epoch == 0 {
		p.Epoch = 4
	}
	if p.MinVote == 0 {
		p.MinVote = 1e8
	}
	n := &Net{P: p}
	for i := 0; i < p.NKeys; i++ {
		prv := chainkd.RootXPrv([]byte{'v', 'e', 'r', 'i', 'f', byte(i), byte(i >> 8)})
		n.Prv = append(n.Prv, prv)
		n.Pub = append(n.Pub, prv.XPub())
		n.PubHex = append(n.PubHex, prv.XPub().String())
	}
	n.Stranger = chainkd.RootXPrv([]byte("verif-stranger"))
	consensus.ActiveNetParams = consensus.Params{
		Name:            "verif",
		Bech32HRPSegwit: "vn",
		CasperConfig: consensus.CasperConfig{
			BlockTimeInterval:    Interval,
			MaxTimeOffsetMs:      3000,
			BlocksOfEpoch:        p.Epoch,
			MinValidatorVoteNum:  p.MinVote,
			VotePendingBlockNums: []consensus.VotePendingBlockNum{{BeginBlock: 0, EndBlock: math.MaxUint64, Num: p.VotePending}},
			FederationXpubs:      append([]chainkd.XPub{}, n.Pub[:p.Fed]...),
		},
	}
	cfg := config.DefaultConfig()
	local := n.Stranger
	if p.Local >= 0 {
		local = n.Prv[p.Local]
	}
	cfg.XPrv = &local
	xpub := local.XPub()
	cfg.XPub = &xpub
	config.CommonConfig = cfg
	return n
}

// KeyIndex returns the index of a validator public key (hex), or -1.
func (n *Net) KeyIndex(pubHex string) int {
	for i, h := range n.PubHex {
		if h == pubHex {
			return i
		}
	}
	return -1
}

// ValidatorProg is the anyone-can-spend coinbase program of validator i
// (distinct per validator so that reward tables distinguish proposers).
func ValidatorProg(i int) []byte {
	return []byte{byte(vm.OP_DATA_1), byte(i), byte(vm.OP_DROP), byte(vm.OP_TRUE)}
}

// VoteKey is the 64-byte vote field for key i (the xpub bytes).
func (n *Net) VoteKey(i int) []byte {
	b := n.Pub[i]
	return append([]byte{}, b[:]...)
}

// AssetN is a deterministic non-BTM asset id.
func AssetN(i int) bc.AssetID {
	return bc.NewAssetID([32]byte{0xa5, byte(i), 1, 2, 3})
}

// HashShort abbreviates a hash for samples and keys.
func HashShort(h bc.Hash) string {
	b := h.Bytes()
	return hex.EncodeToString(b[:4])
}

// RandProg returns a small random anyone-can-spend program (distinct bytes, still TRUE).
func RandProg(r *ev.Rand) []byte {
	return []byte{byte(vm.OP_DATA_2), byte(r.Intn(256)), byte(r.Intn(256)), byte(vm.OP_DROP), byte(vm.OP_TRUE)}
}
