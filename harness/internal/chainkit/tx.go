package chainkit

import (
	"github.com/bytom/bytom/consensus/bcrp"
	"github.com/bytom/bytom/protocol/bc"
	"github.com/bytom/bytom/protocol/bc/types"
	"github.com/bytom/bytom/protocol/vm/vmutil"
)

// UType is the ledger type of an unspent output.
type UType int

const (
	UNormal UType = iota
	UCoinbase
	UVote
)

func (t UType) String() string { return [...]string{"normal", "coinbase", "vote"}[t] }

// UTXO is a reference to a spendable output, with everything needed to spend it.
type UTXO struct {
	ID       bc.Hash
	SourceID bc.Hash
	Pos      uint64
	Asset    bc.AssetID
	Amount   uint64
	Program  []byte
	State    [][]byte
	Vote     []byte // non-nil for vote outputs
	TxID     bc.Hash
	Index    int
}

// Out describes an output to create.
type Out struct {
	Asset   bc.AssetID
	Amount  uint64
	Program []byte
	Vote    []byte // 64 bytes => vote output
	State   [][]byte
}

// DefaultFee is ample for anyone-can-spend transactions (gas = fee/200, storage gas = tx size).
const DefaultFee = uint64(2000000)

// Outputs lists the spendable outputs (original and vote outputs with non-zero... any amount) of a transaction.
func Outputs(tx *types.Tx) []*UTXO {
	var res []*UTXO
	for i, id := range tx.ResultIds {
		switch e := tx.Entries[*id].(type) {
		case *bc.OriginalOutput:
			res = append(res, &UTXO{ID: *id, SourceID: *e.Source.Ref, Pos: e.Source.Position, Asset: *e.Source.Value.AssetId,
				Amount: e.Source.Value.Amount, Program: e.ControlProgram.Code, State: e.StateData, TxID: tx.ID, Index: i})
		case *bc.VoteOutput:
			res = append(res, &UTXO{ID: *id, SourceID: *e.Source.Ref, Pos: e.Source.Position, Asset: *e.Source.Value.AssetId,
				Amount: e.Source.Value.Amount, Program: e.ControlProgram.Code, State: e.StateData, Vote: e.Vote, TxID: tx.ID, Index: i})
		}
	}
	return res
}

// Input builds the spending input of a UTXO (spend or veto) with the given witness arguments.
func Input(u *UTXO, args [][]byte) *types.TxInput {
	if u.Vote != nil {
		return types.NewVetoInput(args, u.SourceID, u.Asset, u.Amount, u.Pos, u.Program, u.Vote, u.State)
	}
	return types.NewSpendInput(args, u.SourceID, u.Asset, u.Amount, u.Pos, u.Program, u.State)
}

// Finish maps a TxData the way a received transaction is: through its wire encoding,
// so SerializedSize is what a decoding node computes.
func Finish(d *types.TxData) *types.Tx {
	b, err := d.MarshalText()
	if err != nil {
		panic(err)
	}
	tx := &types.Tx{}
	if err := tx.UnmarshalText(b); err != nil {
		panic(err)
	}
	return tx
}

// MakeTx spends ins into outs.  No balancing is done: the caller decides the fee.
func MakeTx(ins []*UTXO, outs []Out, timeRange uint64) *types.Tx {
	d := &types.TxData{Version: 1, TimeRange: timeRange}
	for _, u := range ins {
		d.Inputs = append(d.Inputs, Input(u, nil))
	}
	for _, o := range outs {
		st := o.State
		if st == nil {
			st = [][]byte{}
		}
		if o.Vote != nil {
			d.Outputs = append(d.Outputs, types.NewVoteOutput(o.Asset, o.Amount, o.Program, o.Vote, st))
		} else {
			d.Outputs = append(d.Outputs, types.NewOriginalTxOutput(o.Asset, o.Amount, o.Program, st))
		}
	}
	return Finish(d)
}

// PayTx spends the given inputs of one asset mix: every non-BTM asset is passed
// through unchanged to prog, BTM pays fee and the rest goes to prog (split in nOut outputs).
func PayTx(ins []*UTXO, prog []byte, nOut int, fee uint64) *types.Tx {
	sums := map[bc.AssetID]uint64{}
	var order []bc.AssetID
	for _, u := range ins {
		if _, ok := sums[u.Asset]; !ok {
			order = append(order, u.Asset)
		}
		sums[u.Asset] += u.Amount
	}
	var outs []Out
	for _, a := range order {
		amt := sums[a]
		if a == BTM {
			if amt <= fee {
				continue
			}
			amt -= fee
			if nOut < 1 {
				nOut = 1
			}
			each := amt / uint64(nOut)
			for i := 0; i < nOut; i++ {
				v := each
				if i == nOut-1 {
					v = amt - each*uint64(nOut-1)
				}
				outs = append(outs, Out{Asset: a, Amount: v, Program: prog})
			}
			continue
		}
		outs = append(outs, Out{Asset: a, Amount: amt, Program: prog})
	}
	return MakeTx(ins, outs, 0)
}

// RegisterProg is the BCRP registration program of a contract.
func RegisterProg(contract []byte) []byte {
	p, err := vmutil.RegisterProgram(contract)
	if err != nil {
		panic(err)
	}
	return p
}

// CallProg is the program that calls a registered contract.
func CallProg(contract []byte) []byte {
	h := ContractHash(contract)
	p, err := vmutil.CallContractProgram(h[:])
	if err != nil {
		panic(err)
	}
	return p
}

// IsCall reports whether prog calls a registered contract and returns the contract hash.
func IsCall(prog []byte) ([32]byte, bool) {
	if !bcrp.IsCallContractScript(prog) {
		return [32]byte{}, false
	}
	h, err := bcrp.ParseContractHash(prog)
	if err != nil {
		return [32]byte{}, false
	}
	return h, true
}

// IsRegister reports whether prog is a BCRP registration and returns the contract.
func IsRegister(prog []byte) ([]byte, bool) {
	if !bcrp.IsBCRPScript(prog) {
		return nil, false
	}
	c, err := bcrp.ParseContract(prog)
	if err != nil {
		return nil, false
	}
	return c, true
}
