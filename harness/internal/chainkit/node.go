package chainkit

import (
	"fmt"
	"os"

	"github.com/bytom/bytom/database"
	dbm "github.com/bytom/bytom/database/leveldb"
	"github.com/bytom/bytom/event"
	"github.com/bytom/bytom/protocol"
	"github.com/bytom/bytom/protocol/bc"
	"github.com/bytom/bytom/protocol/bc/types"
	"github.com/bytom/bytom/protocol/state"
)

// Node is a real bytom chain (store + casper + pool + dispatcher) on GoLevelDB.
type Node struct {
	Dir     string
	DB      dbm.DB
	Store   *database.Store
	Chain   *protocol.Chain
	Pool    *protocol.TxPool
	Disp    *event.Dispatcher
	Orphans *protocol.OrphanManage
	custom  bool
}

// WriteGenesis stores the harness genesis through the public store API, exactly
// what Chain.initChainStatus does for the configured genesis.
func WriteGenesis(store *database.Store, g *Genesis) error {
	if err := store.SaveBlock(g.Block); err != nil {
		return err
	}
	cp := &state.Checkpoint{Height: 0, Hash: g.Block.Hash(), Timestamp: g.Block.Timestamp, Status: state.Justified}
	if err := store.SaveCheckpoints([]*state.Checkpoint{cp}); err != nil {
		return err
	}
	view := state.NewUtxoViewpoint()
	if err := view.ApplyBlock(types.MapBlock(g.Block)); err != nil {
		return err
	}
	h := &g.Block.BlockHeader
	return store.SaveChainStatus(h, []*types.BlockHeader{h}, view, state.NewContractViewpoint(), 0, &cp.Hash)
}

// NewNodeOnDB starts a node on an existing dbm.DB (genesis is written if the store is empty).
func (n *Net) NewNodeOnDB(db dbm.DB, g *Genesis) (*Node, error) {
	store := database.NewStore(db)
	if store.GetStoreStatus() == nil {
		if err := WriteGenesis(store, g); err != nil {
			return nil, err
		}
	}
	disp := event.NewDispatcher()
	pool := protocol.NewTxPool(store, disp)
	om := protocol.NewOrphanManageWithData(map[bc.Hash]*protocol.OrphanBlock{}, map[bc.Hash][]*bc.Hash{})
	chain, err := protocol.NewChainWithOrphanManage(store, pool, om, disp)
	if err != nil {
		return nil, err
	}
	return &Node{DB: db, Store: store, Chain: chain, Pool: pool, Disp: disp, Orphans: om, custom: true}, nil
}

// NewNode starts a node on a fresh GoLevelDB under dir.
func (n *Net) NewNode(dir string, g *Genesis) (*Node, error) {
	if err := os.MkdirAll(dir, 0o755); err != nil {
		return nil, err
	}
	var db dbm.DB = &lateDB{DB: dbm.NewDB("core", "leveldb", dir)}
	nd, err := n.NewNodeOnDB(db, g)
	if err != nil {
		db.Close()
		return nil, err
	}
	nd.Dir = dir
	nd.custom = false
	return nd, nil
}

// Reopen simulates a clean restart: new DB handle, store, pool and chain over the same files.
func (n *Net) Reopen(nd *Node, g *Genesis) (*Node, error) {
	if nd.Dir == "" {
		return nil, fmt.Errorf("node has no directory")
	}
	nd.DB.Close()
	return n.NewNode(nd.Dir, g)
}

// Close releases the database (goroutines of the chain stay parked; they hold no files).
func (nd *Node) Close() {
	if nd.DB != nil {
		nd.DB.Close()
	}
}

// Destroy closes and removes the store directory.
func (nd *Node) Destroy() {
	nd.Close()
	if nd.Dir != "" {
		os.RemoveAll(nd.Dir)
	}
}

// Feed delivers blocks in order and returns the first error.
func (nd *Node) Feed(bs ...*Blk) error {
	for _, b := range bs {
		if _, err := nd.Chain.ProcessBlock(CloneBlock(b.B)); err != nil {
			return fmt.Errorf("block %d %s: %w", b.Height, HashShort(b.Hash), err)
		}
	}
	return nil
}

// Best returns the best block hash.
func (nd *Node) Best() bc.Hash { return *nd.Chain.BestBlockHash() }

// CloneBlock returns a deep copy through the wire encoding (a node may mutate the block it is given).
func CloneBlock(b *types.Block) *types.Block {
	raw, err := b.MarshalText()
	if err != nil {
		panic(err)
	}
	nb := &types.Block{}
	if err := nb.UnmarshalText(raw); err != nil {
		panic(err)
	}
	return nb
}
