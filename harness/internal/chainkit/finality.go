package chainkit

import (
	"sort"

	"github.com/bytom/bytom/protocol/bc"

	"verif/internal/ev"
)

// Reference finality model (Casper FFG as the properties C16–C18 state it), at
// the level of the harness's own block tree.
const (
	FUnjustified = 0
	FJustified   = 1
	FFinalized   = 2
)

type linkKey struct{ src, tgt bc.Hash }

// Fin is the reference finality state given a set of votes.
type Fin struct {
	t      *Tree
	Status map[bc.Hash]int
	votes  map[linkKey]map[int]bool // link -> validator key indexes that validly signed it
}

// NewFin starts with only genesis justified.
func (t *Tree) NewFin() *Fin {
	return &Fin{t: t, Status: map[bc.Hash]int{t.Root.Hash: FJustified}, votes: map[linkKey]map[int]bool{}}
}

// ValidatorsOf returns the key indexes entitled to vote for checkpoint cp (the effective validators of its parent epoch).
func (t *Tree) ValidatorsOf(cp *Blk) []int {
	var ks []int
	for _, v := range t.Net.Validators(t.PrevCP(cp)) {
		ks = append(ks, t.Net.KeyIndex(v.PubHex))
	}
	return ks
}

// Vote records a valid vote and propagates justification / finalization to a fixpoint.
func (f *Fin) Vote(k int, src, tgt *Blk) {
	lk := linkKey{src.Hash, tgt.Hash}
	if f.votes[lk] == nil {
		f.votes[lk] = map[int]bool{}
	}
	f.votes[lk][k] = true
	for changed := true; changed; {
		changed = false
		for l, signers := range f.votes {
			s, t := f.t.ByHash[l.src], f.t.ByHash[l.tgt]
			if s == nil || t == nil || f.Status[l.tgt] >= FJustified || f.Status[l.src] < FJustified || !s.IsAncestorOf(t) || s.Height >= t.Height {
				continue
			}
			vals := f.t.ValidatorsOf(t)
			cnt := 0
			for _, v := range vals {
				if signers[v] {
					cnt++
				}
			}
			if 3*cnt > 2*len(vals) {
				f.Status[l.tgt] = FJustified
				if f.t.PrevCP(t).Hash == s.Hash {
					f.Status[l.src] = FFinalized
				}
				changed = true
			}
		}
	}
}

// HighestJustifiedAncestor returns the highest checkpoint at or below b's branch (strictly below b) that is justified or finalized.
func (f *Fin) HighestJustifiedAncestor(b *Blk) *Blk {
	e := f.t.Net.P.Epoch
	for x := f.t.PrevCP(b); ; x = x.Ancestor(x.Height - e) {
		if f.Status[x.Hash] >= FJustified {
			return x
		}
		if x.Height == 0 {
			return x
		}
	}
}

// FFGOpt controls the protocol-following schedule generator.
type FFGOpt struct {
	Byzantine    int // key index of the Byzantine validator, -1 none
	VotePct      int
	EarlyVotePct int
	GarbagePct   int
	BlockOrder   int
	Duplicates   bool
	ByzExtra     int // extra Byzantine votes per checkpoint (equivocations, surround votes, unjustified sources)
	NodeKey      int // key the node under test signs with itself (no messages are generated for it); -1 none
	VotesLastDescending bool // deliver every block first, then the votes by target height DESCENDING: links are recorded before their sources are justified
	SkipEpochPct int  // percent of checkpoints no honest validator votes for (forces skip links over them)
	PreferLight  bool // honest validators vote for the competing checkpoint with the FEWEST descendants: votes move the best chain to the shorter branch
}

// GenScheduleFFG is like GenSchedule but honest validators follow the protocol: they vote
// at most once per target height, never surround their own votes, and always use a source
// that is justified given the votes cast so far (the highest justified ancestor of the
// target).  The Byzantine validator additionally equivocates and surround-votes.
// It returns the schedule and the reference finality state if every vote is delivered.
func (t *Tree) GenScheduleFFG(r *ev.Rand, o FFGOpt) ([]Step, *Fin) {
	n := t.Net
	fin := t.NewFin()
	nb := len(t.All) - 1
	order := make([]int, nb)
	for i := range order {
		order[i] = i + 1
	}
	switch o.BlockOrder {
	case 1:
		r.Shuffle(nb, func(i, j int) { order[i], order[j] = order[j], order[i] })
	case 2:
		for i := 0; i+1 < nb; i++ {
			if r.Chance(1, 3) {
				order[i], order[i+1] = order[i+1], order[i]
			}
		}
	}
	pos := map[bc.Hash]int{}
	for i, bi := range order {
		pos[t.All[bi].Hash] = i
	}
	type placed struct {
		after int
		seq   int
		v     *VoteSpec
	}
	var votes []placed
	hist := map[int][]ownVote{}
	cps := t.Checkpoints()
	// honest validators prefer the branch with the most descendants at each height (a stand-in for "their best chain")
	weight := map[bc.Hash]int{}
	for _, b := range t.All {
		for x := b; x != nil; x = x.Parent {
			weight[x.Hash]++
		}
	}
	sort.SliceStable(cps, func(i, j int) bool {
		if cps[i].Height != cps[j].Height {
			return cps[i].Height < cps[j].Height
		}
		if o.PreferLight {
			return weight[cps[i].Hash] < weight[cps[j].Hash]
		}
		return weight[cps[i].Hash] > weight[cps[j].Hash]
	})
	seq := 0
	place := func(v *VoteSpec) {
		tp := pos[v.Target.Hash]
		at := tp + r.Intn(nb-tp+1)
		if r.Intn(100) < o.EarlyVotePct {
			at = r.Intn(tp+1) - 1
		}
		votes = append(votes, placed{at, seq, v})
		seq++
		if o.Duplicates && r.Chance(1, 6) {
			a2 := at
			if nb-at > 0 {
				a2 = at + r.Intn(nb-at)
			}
			votes = append(votes, placed{a2, seq, v})
			seq++
		}
	}
	for _, cp := range cps {
		skipped := o.SkipEpochPct > 0 && r.Intn(100) < o.SkipEpochPct
		for _, k := range t.ValidatorsOf(cp) {
			if k < 0 || k == o.NodeKey || (skipped && k != o.Byzantine) {
				continue
			}
			if k == o.Byzantine {
				// votes for every checkpoint, from assorted sources
				srcs := []*Blk{fin.HighestJustifiedAncestor(cp), t.PrevCP(cp), t.Root}
				for i := 0; i <= o.ByzExtra && i < len(srcs); i++ {
					src := srcs[r.Intn(len(srcs))]
					if i == 0 {
						src = srcs[0]
					}
					place(&VoteSpec{Key: k, Source: src, Target: cp, Byz: true})
					if src.IsAncestorOf(cp) && fin.Status[src.Hash] >= FJustified {
						fin.Vote(k, src, cp)
					}
				}
				continue
			}
			if r.Intn(100) >= o.VotePct {
				continue
			}
			src := fin.HighestJustifiedAncestor(cp)
			if violates(hist[k], src.Height, cp.Height, cp.Hash) {
				continue
			}
			hist[k] = append(hist[k], ownVote{src.Height, cp.Height, cp.Hash})
			fin.Vote(k, src, cp)
			place(&VoteSpec{Key: k, Source: src, Target: cp})
			if r.Intn(100) < o.GarbagePct {
				g := &VoteSpec{Key: r.Intn(n.P.NKeys), Source: src, Target: cp, Garbage: true}
				votes = append(votes, placed{pos[cp.Hash] + r.Intn(nb-pos[cp.Hash]+1), seq, g})
				seq++
			}
		}
	}
	if o.VotesLastDescending {
		for i := range votes {
			votes[i].after = nb
		}
		sort.SliceStable(votes, func(i, j int) bool { return votes[i].v.Target.Height > votes[j].v.Target.Height })
		for i := range votes {
			votes[i].seq = i
		}
	}
	sort.SliceStable(votes, func(i, j int) bool {
		if votes[i].after != votes[j].after {
			return votes[i].after < votes[j].after
		}
		return votes[i].seq < votes[j].seq
	})
	var steps []Step
	vi := 0
	for vi < len(votes) && votes[vi].after < 0 {
		steps = append(steps, Step{Vote: votes[vi].v})
		vi++
	}
	for i, bi := range order {
		steps = append(steps, Step{Blk: t.All[bi]})
		for vi < len(votes) && votes[vi].after <= i {
			steps = append(steps, Step{Vote: votes[vi].v})
			vi++
		}
	}
	for ; vi < len(votes); vi++ {
		steps = append(steps, Step{Vote: votes[vi].v})
	}
	return steps, fin
}
