// Package allimports only pins the dependency closure of the packages the
// monitors import, so that go.mod/go.sum are complete and builds never rewrite them.
package allimports

import (
	_ "github.com/anishathalye/porcupine"
	_ "github.com/bytom/bytom/accesstoken"
	_ "github.com/bytom/bytom/account"
	_ "github.com/bytom/bytom/asset"
	_ "github.com/bytom/bytom/blockchain/pseudohsm"
	_ "github.com/bytom/bytom/blockchain/txbuilder"
	_ "github.com/bytom/bytom/database"
	_ "github.com/bytom/bytom/event"
	_ "github.com/bytom/bytom/net/http/authn"
	_ "github.com/bytom/bytom/netsync"
	_ "github.com/bytom/bytom/p2p"
	_ "github.com/bytom/bytom/p2p/connection"
	_ "github.com/bytom/bytom/p2p/discover/dht"
	_ "github.com/bytom/bytom/p2p/security"
	_ "github.com/bytom/bytom/p2p/trust"
	_ "github.com/bytom/bytom/proposal"
	_ "github.com/bytom/bytom/protocol"
	_ "github.com/bytom/bytom/test"
	_ "github.com/bytom/bytom/wallet"
	_ "github.com/bytom/bytom/wallet/mnemonic"
)
