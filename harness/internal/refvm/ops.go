package refvm

import (
	"bytes"
	"crypto/ed25519"
	"crypto/sha256"
	"math/big"

	"golang.org/x/crypto/ripemd160"
	"golang.org/x/crypto/sha3"
)

// opcode bytes (VM1 instruction set as used by Bytom)
const (
	opFALSE          = 0x00
	opPUSHDATA1      = 0x4c
	opPUSHDATA2      = 0x4d
	opPUSHDATA4      = 0x4e
	op1              = 0x51
	op16             = 0x60
	opNOP            = 0x61
	opJUMP           = 0x63
	opJUMPIF         = 0x64
	opVERIFY         = 0x69
	opFAIL           = 0x6a
	opTOALTSTACK     = 0x6b
	opFROMALTSTACK   = 0x6c
	op2DROP          = 0x6d
	op2DUP           = 0x6e
	op3DUP           = 0x6f
	op2OVER          = 0x70
	op2ROT           = 0x71
	op2SWAP          = 0x72
	opIFDUP          = 0x73
	opDEPTH          = 0x74
	opDROP           = 0x75
	opDUP            = 0x76
	opNIP            = 0x77
	opOVER           = 0x78
	opPICK           = 0x79
	opROLL           = 0x7a
	opROT            = 0x7b
	opSWAP           = 0x7c
	opTUCK           = 0x7d
	opCAT            = 0x7e
	opSUBSTR         = 0x7f
	opLEFT           = 0x80
	opRIGHT          = 0x81
	opSIZE           = 0x82
	opINVERT         = 0x83
	opAND            = 0x84
	opOR             = 0x85
	opXOR            = 0x86
	opEQUAL          = 0x87
	opEQUALVERIFY    = 0x88
	opCATPUSHDATA    = 0x89
	op1ADD           = 0x8b
	op1SUB           = 0x8c
	op2MUL           = 0x8d
	op2DIV           = 0x8e
	opNOT            = 0x91
	op0NOTEQUAL      = 0x92
	opADD            = 0x93
	opSUB            = 0x94
	opMUL            = 0x95
	opDIV            = 0x96
	opMOD            = 0x97
	opLSHIFT         = 0x98
	opRSHIFT         = 0x99
	opBOOLAND        = 0x9a
	opBOOLOR         = 0x9b
	opNUMEQUAL       = 0x9c
	opNUMEQUALVERIFY = 0x9d
	opNUMNOTEQUAL    = 0x9e
	opLESSTHAN       = 0x9f
	opGREATERTHAN    = 0xa0
	opLESSTHANOREQ   = 0xa1
	opGREATERTHANOEQ = 0xa2
	opMIN            = 0xa3
	opMAX            = 0xa4
	opWITHIN         = 0xa5
	opSHA256         = 0xa8
	opSHA3           = 0xaa
	opHASH160        = 0xab
	opCHECKSIG       = 0xac
	opCHECKMULTISIG  = 0xad
	opTXSIGHASH      = 0xae
	opCHECKPREDICATE = 0xc0
	opCHECKOUTPUT    = 0xc1
	opASSET          = 0xc2
	opAMOUNT         = 0xc3
	opPROGRAM        = 0xc4
	opINDEX          = 0xc9
	opENTRYID        = 0xca
	opOUTPUTID       = 0xcb
	opBLOCKHEIGHT    = 0xcd
)

// Mutant, when set, makes the interpreter deliberately wrong in one place.  It
// exists only so that the monitors can test their own sensitivity (a wrong
// model must be noticed by the workload of the quick tier); it is never set in
// a monitoring run.
var Mutant string

// abort carries the failure class out of an instruction.
type abort struct{ c Class }

// x is the execution of one instruction in frame f.
type x struct {
	m        *Machine
	f        *frame
	op       byte
	deferred int64 // memory deposits/refunds settled when the instruction ends
	consumed []byte
	next     uint32
	child    bool // CHECKPREDICATE started a child frame: completion is pending
}

func (e *x) fail(c Class) { panic(abort{c}) }

// pay charges n now.
func (e *x) pay(n int64) {
	if !e.m.charge(e.f, n) {
		e.fail(RunLimit)
	}
}

// take removes the top item.  later: the 8+L refund is settled at the end of
// the instruction; otherwise it is credited at once.
func (e *x) take(later bool) []byte {
	f := e.f
	n := len(f.data)
	if n == 0 {
		e.fail(Underflow)
	}
	v := f.data[n-1]
	e.consumed = append(e.consumed, f.dtag[n-1])
	f.data, f.dtag = f.data[:n-1], f.dtag[:n-1]
	if later {
		e.deferred -= 8 + int64(len(v))
	} else {
		f.runLimit += 8 + int64(len(v))
	}
	return v
}

// put pushes a fresh copy of v, tagged with the executing opcode.
func (e *x) put(v []byte, later bool) {
	if later {
		e.deferred += 8 + int64(len(v))
	} else {
		e.pay(8 + int64(len(v)))
	}
	e.f.data = append(e.f.data, clone(v))
	e.f.dtag = append(e.f.dtag, e.op)
}

func (e *x) num(b []byte) *big.Int {
	v, ok := DecodeNum(b)
	if !ok {
		e.fail(BadValue)
	}
	return v
}

func (e *x) takeNum(later bool) *big.Int { return e.num(e.take(later)) }

// small: sizes, counts and positions must fit a signed 64-bit integer.
func (e *x) small(v *big.Int) int64 {
	if v.Cmp(two63) >= 0 {
		e.fail(BadValue)
	}
	return v.Int64()
}

func (e *x) need(n int) {
	if len(e.f.data) < n {
		e.fail(Underflow)
	}
}

// at returns the item k positions below the top (0 = top) without removing it.
func (e *x) at(k int) []byte {
	e.need(k + 1)
	e.consumed = append(e.consumed, e.f.dtag[len(e.f.data)-1-k])
	return e.f.data[len(e.f.data)-1-k]
}

func (e *x) putNum(v *big.Int, later bool) { e.put(EncodeNum(v), later) }
func (e *x) putBool(v bool, later bool)    { e.put(boolBytes(v), later) }

// inRange: an arithmetic result must be a number again (0 <= v < 2^255).
func (e *x) inRange(v *big.Int) *big.Int {
	if v.Sign() < 0 || v.Cmp(two255) >= 0 {
		e.fail(BadValue)
	}
	return v
}

// permute replaces the top len(order) items: new[i] = old[order[i]] (indices
// from the bottom of that window).  Moving items costs no memory.
func (e *x) permute(order ...int) {
	n := len(order)
	e.need(n)
	f := e.f
	base := len(f.data) - n
	oldD := append([][]byte{}, f.data[base:]...)
	oldT := append([]byte{}, f.dtag[base:]...)
	for i, o := range order {
		f.data[base+i], f.dtag[base+i] = oldD[o], oldT[o]
	}
}

// exec runs one instruction of frame f.
func (m *Machine) exec(f *frame, in *instr) {
	e := &x{m: m, f: f, op: in.op, next: f.pc + in.size}
	m.Steps++
	var top []byte
	has := len(f.data) > 0
	if has {
		top = f.data[len(f.data)-1]
	}
	class := OK
	func() {
		defer func() {
			if r := recover(); r != nil {
				a, ok := r.(abort)
				if !ok {
					panic(r)
				}
				class = a.c
			}
		}()
		e.run(in)
		if !e.child {
			before := f.runLimit
			if !e.m.charge(f, e.deferred) {
				// the stacks already show the result; what could not be paid is not a deposit
				f.unpaid = e.deferred - before
				e.fail(RunLimit)
			}
		}
	}()
	m.prevOp, m.prevExec, m.prevCons = in.op, true, e.consumed
	if e.child && class == OK {
		return // the record is written when the child returns
	}
	m.note(f, in.op, class, top, has)
	if class != OK {
		m.FailedInOp, m.FailOp, m.FailDepth = true, in.op, f.depth
		m.fail(f, class)
		return
	}
	f.pc = e.next
}

func (e *x) run(in *instr) {
	f, ctx := e.f, e.m.ctx
	op := in.op
	switch {
	case op == opFALSE:
		e.pay(1)
		e.put(nil, false)
		return
	case (op >= 0x01 && op <= opPUSHDATA4) || (op >= op1 && op <= op16):
		e.pay(1)
		e.put(in.data, false)
		return
	}
	if !Defined(op) {
		// expansion opcode: reserved while the transaction version is 1
		if f.reserved {
			e.fail(Disallowed)
		}
		e.pay(1)
		return
	}
	switch op {
	case opNOP:
		if Mutant != "nop-free" {
			e.pay(1)
		}

	// ---- control flow ----
	case opJUMP:
		e.pay(1)
		e.next = le32(in.data)
	case opJUMPIF:
		e.pay(1)
		if truthy(e.take(true)) {
			e.next = le32(in.data)
		}
	case opVERIFY:
		e.pay(1)
		if !truthy(e.take(true)) {
			e.fail(VerifyFailed)
		}
	case opFAIL:
		e.pay(1)
		e.fail(Fail)
	case opCHECKPREDICATE:
		// 256 up front of which 192 come back; the child gets `limit` (0: all that is left)
		e.pay(256)
		e.deferred -= 192
		limit := e.small(e.takeNum(true))
		pred := e.take(true)
		n := e.small(e.takeNum(true))
		l := int64(len(f.data))
		if n == 0 {
			n = l
		}
		if n > l {
			e.fail(Underflow)
		}
		if limit == 0 {
			limit = f.runLimit
		}
		e.pay(limit)
		child := &frame{prog: clone(pred), runLimit: limit, depth: f.depth + 1,
			// calibrated: a predicate runs with expansion opcodes allowed whatever the tx version
			reserved: false}
		child.data = append(child.data, f.data[l-n:]...)
		child.dtag = append(child.dtag, f.dtag[l-n:]...)
		f.data, f.dtag = f.data[:l-n], f.dtag[:l-n]
		child.given = limit + stackDeposit(child.data)
		f.pendDeferred, f.pendNext = e.deferred, e.next
		e.m.frames = append(e.m.frames, child)
		e.child = true

	// ---- stack ----
	case opTOALTSTACK:
		e.pay(2)
		e.need(1)
		n := len(f.data)
		e.consumed = append(e.consumed, f.dtag[n-1])
		f.alt, f.atag = append(f.alt, f.data[n-1]), append(f.atag, f.dtag[n-1])
		f.data, f.dtag = f.data[:n-1], f.dtag[:n-1]
	case opFROMALTSTACK:
		e.pay(2)
		n := len(f.alt)
		if n == 0 {
			e.fail(Underflow)
		}
		e.consumed = append(e.consumed, f.atag[n-1])
		f.data, f.dtag = append(f.data, f.alt[n-1]), append(f.dtag, f.atag[n-1])
		f.alt, f.atag = f.alt[:n-1], f.atag[:n-1]
	case op2DROP:
		e.pay(2)
		e.take(false)
		e.take(false)
	case op2DUP:
		e.dup(2, 2, 2)
	case op3DUP:
		e.dup(3, 3, 3)
	case op2OVER:
		e.dup(2, 4, 2)
	case op2ROT:
		e.pay(2)
		e.permute(2, 3, 4, 5, 0, 1)
	case op2SWAP:
		e.pay(2)
		e.permute(2, 3, 0, 1)
	case opIFDUP:
		e.pay(1)
		if v := e.at(0); truthy(v) {
			e.put(v, false)
		}
	case opDEPTH:
		e.pay(1)
		e.putNum(big.NewInt(int64(len(f.data))), false)
	case opDROP:
		e.pay(1)
		e.take(false)
	case opDUP:
		e.dup(1, 1, 1)
	case opNIP:
		// calibrated: the top item is set aside first; if there is nothing below it the
		// instruction fails with the frame's stack already emptied (a parent frame then
		// gets no refund for that item)
		e.pay(1)
		e.need(1)
		n := len(f.data)
		top, tag := f.data[n-1], f.dtag[n-1]
		f.data, f.dtag = f.data[:n-1], f.dtag[:n-1]
		e.take(false)
		f.data, f.dtag = append(f.data, top), append(f.dtag, tag)
	case opOVER:
		e.dup(1, 2, 1)
	case opPICK, opROLL:
		e.pay(2)
		n := e.takeNum(false)
		// calibrated class boundary: n+1 must fit a signed 64-bit integer
		if new(big.Int).Add(n, one).Cmp(two63) >= 0 {
			e.fail(BadValue)
		}
		if n.Cmp(big.NewInt(int64(len(f.data)))) >= 0 {
			e.fail(Underflow)
		}
		k := int(n.Int64())
		if op == opPICK {
			e.put(e.at(k), false)
		} else {
			order := make([]int, 0, k+1)
			for i := 1; i <= k; i++ {
				order = append(order, i)
			}
			e.permute(append(order, 0)...)
		}
	case opROT:
		e.pay(2)
		e.permute(1, 2, 0)
	case opSWAP:
		e.pay(1)
		e.permute(1, 0)
	case opTUCK:
		// a b -> b' a b.  calibrated: both items are set aside while the copy is paid for;
		// if that payment fails the frame's stack is left without them
		e.pay(1)
		e.need(2)
		n := len(f.data)
		a, b, ta, tb := f.data[n-2], f.data[n-1], f.dtag[n-2], f.dtag[n-1]
		e.consumed = append(e.consumed, tb)
		f.data, f.dtag = f.data[:n-2], f.dtag[:n-2]
		e.put(b, false)
		f.data, f.dtag = append(f.data, a, b), append(f.dtag, ta, tb)

	// ---- splice ----
	case opCAT, opCATPUSHDATA:
		e.pay(4)
		b := e.take(true)
		a := e.take(true)
		work := int64(len(a) + len(b))
		e.pay(work)
		e.deferred -= work
		if op == opCATPUSHDATA {
			b = PushData(b)
		}
		if Mutant == "cat-swapped" && op == opCAT {
			a, b = b, a
		}
		e.put(append(clone(a), b...), true)
	case opSUBSTR, opLEFT, opRIGHT:
		e.pay(4)
		size := e.small(e.takeNum(true))
		e.pay(size)
		e.deferred -= size
		var offset int64
		if op == opSUBSTR {
			offset = e.small(e.takeNum(true))
		}
		s := e.take(true)
		l := int64(len(s))
		if op == opRIGHT {
			offset = l - size
		}
		// offset + size as integers (no wrap-around)
		if offset < 0 || new(big.Int).Add(big.NewInt(offset), big.NewInt(size)).Cmp(big.NewInt(l)) > 0 {
			e.fail(BadValue)
		}
		e.put(s[offset:offset+size], true)
	case opSIZE:
		e.pay(1)
		e.putNum(big.NewInt(int64(len(e.at(0)))), true)

	// ---- bitwise ----
	case opINVERT:
		e.pay(1)
		v := e.at(0)
		e.pay(int64(len(v)))
		r := make([]byte, len(v))
		for i := range v {
			r[i] = ^v[i]
		}
		f.data[len(f.data)-1] = r
		f.dtag[len(f.dtag)-1] = op
	case opAND, opOR, opXOR, opEQUAL, opEQUALVERIFY:
		e.pay(1)
		b := e.take(true)
		a := e.take(true)
		short, long := len(a), len(b)
		if short > long {
			short, long = long, short
		}
		switch op {
		case opAND:
			if Mutant == "and-long" {
				e.pay(int64(long - short))
			}
			e.pay(int64(short))
			r := make([]byte, short)
			for i := range r {
				r[i] = a[i] & b[i]
			}
			e.put(r, true)
		case opOR, opXOR:
			e.pay(int64(long))
			r := make([]byte, long)
			for i := range r {
				var p, q byte
				if i < len(a) {
					p = a[i]
				}
				if i < len(b) {
					q = b[i]
				}
				if op == opOR {
					r[i] = p | q
				} else {
					r[i] = p ^ q
				}
			}
			e.put(r, true)
		case opEQUAL:
			e.pay(int64(short))
			e.putBool(bytes.Equal(a, b), true)
		case opEQUALVERIFY:
			e.pay(int64(short))
			if !bytes.Equal(a, b) {
				e.fail(VerifyFailed)
			}
		}

	// ---- numeric ----
	case op1ADD, op1SUB, op2MUL, op2DIV, opNOT, op0NOTEQUAL:
		e.pay(2)
		n := e.takeNum(true)
		switch op {
		case op1ADD:
			e.putNum(e.inRange(n.Add(n, one)), true)
		case op1SUB:
			e.putNum(e.inRange(n.Sub(n, one)), true)
		case op2MUL:
			e.putNum(e.inRange(n.Lsh(n, 1)), true)
		case op2DIV:
			e.putNum(n.Rsh(n, 1), true)
		case opNOT:
			e.putBool(n.Sign() == 0, true)
		case op0NOTEQUAL:
			e.putBool(n.Sign() != 0, true)
		}
	case opADD, opSUB, opMIN, opMAX, opNUMEQUAL, opNUMNOTEQUAL, opLESSTHAN, opGREATERTHAN,
		opLESSTHANOREQ, opGREATERTHANOEQ, opNUMEQUALVERIFY:
		e.pay(2)
		y := e.takeNum(true)
		a := e.takeNum(true)
		cmp := a.Cmp(y)
		switch op {
		case opADD:
			e.putNum(e.inRange(new(big.Int).Add(a, y)), true)
		case opSUB:
			e.putNum(e.inRange(new(big.Int).Sub(a, y)), true)
		case opMIN:
			if cmp > 0 {
				a = y
			}
			e.putNum(a, true)
		case opMAX:
			if cmp < 0 {
				a = y
			}
			e.putNum(a, true)
		case opNUMEQUAL:
			e.putBool(cmp == 0, true)
		case opNUMNOTEQUAL:
			e.putBool(cmp != 0, true)
		case opLESSTHAN:
			e.putBool(cmp < 0, true)
		case opGREATERTHAN:
			e.putBool(cmp > 0, true)
		case opLESSTHANOREQ:
			e.putBool(cmp <= 0, true)
		case opGREATERTHANOEQ:
			e.putBool(cmp >= 0, true)
		case opNUMEQUALVERIFY:
			if cmp != 0 {
				e.fail(VerifyFailed)
			}
		}
	case opMUL, opDIV, opMOD, opLSHIFT, opRSHIFT:
		e.pay(8)
		y := e.takeNum(true)
		a := e.takeNum(true)
		switch op {
		case opMUL:
			e.putNum(e.inRange(new(big.Int).Mul(a, y)), true)
		case opDIV, opMOD:
			if y.Sign() == 0 {
				e.fail(DivZero)
			}
			q, r := new(big.Int).QuoRem(a, y, new(big.Int))
			if op == opDIV {
				e.putNum(q, true)
			} else {
				e.putNum(r, true)
			}
		case opLSHIFT:
			// a 256-bit logical shift (bits shifted out of the 256-bit word are
			// lost, an amount of 256 or more gives 0); the result must be a number
			r := new(big.Int)
			if y.Cmp(big.NewInt(256)) < 0 {
				r.Lsh(a, uint(y.Int64()))
				r.Mod(r, two256)
			}
			e.putNum(e.inRange(r), true)
		case opRSHIFT:
			r := new(big.Int)
			if y.Cmp(big.NewInt(256)) < 0 {
				r.Rsh(a, uint(y.Int64()))
			} else if Mutant == "rshift-256" {
				r.Set(a)
			}
			e.putNum(r, true)
		}
	case opBOOLAND, opBOOLOR:
		e.pay(2)
		b := truthy(e.take(true))
		a := truthy(e.take(true))
		if op == opBOOLAND {
			e.putBool(a && b, true)
		} else {
			e.putBool(a || b, true)
		}
	case opWITHIN:
		e.pay(4)
		hi := e.takeNum(true)
		lo := e.takeNum(true)
		v := e.takeNum(true)
		if Mutant == "within-le" {
			e.putBool(v.Cmp(lo) >= 0 && v.Cmp(hi) <= 0, true)
			break
		}
		e.putBool(v.Cmp(lo) >= 0 && v.Cmp(hi) < 0, true)

	// ---- crypto ----
	case opSHA256, opSHA3, opHASH160:
		v := e.take(false)
		switch op {
		case opSHA256:
			e.pay(max64(64, int64(len(v))))
			h := sha256.Sum256(v)
			e.put(h[:], false)
		case opSHA3:
			e.pay(max64(64, int64(len(v))))
			h := sha3.Sum256(v)
			e.put(h[:], false)
		case opHASH160:
			// calibrated: HASH160 is plain RIPEMD-160 of the item
			e.pay(64 + int64(len(v)))
			h := ripemd160.New()
			h.Write(v)
			e.put(h.Sum(nil), false)
		}
	case opCHECKSIG:
		e.pay(1024)
		pub := e.take(true)
		msg := e.take(true)
		sig := e.take(true)
		if len(msg) != 32 && Mutant != "checksig-anylen" {
			e.fail(BadValue)
		}
		e.putBool(len(pub) == ed25519.PublicKeySize && ed25519.Verify(ed25519.PublicKey(pub), msg, sig), true)
	case opCHECKMULTISIG:
		nk := e.small(e.takeNum(true))
		if nk >= 1<<53 { // 1024*nk must fit a signed 64-bit integer
			e.fail(BadValue)
		}
		e.pay(1024 * nk)
		ns := e.small(e.takeNum(true))
		if ns > nk || (nk > 0 && ns == 0) {
			e.fail(BadValue)
		}
		var pubs, sigs [][]byte
		for i := int64(0); i < nk; i++ {
			pubs = append(pubs, e.take(true))
		}
		msg := e.take(true)
		if len(msg) != 32 {
			e.fail(BadValue)
		}
		for i := int64(0); i < ns; i++ {
			sigs = append(sigs, e.take(true))
		}
		ok := true
		for _, p := range pubs {
			if len(p) != ed25519.PublicKeySize {
				ok = false
			}
		}
		if ok {
			// every signature must verify against a key, keys used in order
			k := 0
			for _, s := range sigs {
				found := false
				for k < len(pubs) && !found {
					found = ed25519.Verify(ed25519.PublicKey(pubs[k]), msg, s)
					k++
				}
				if !found {
					ok = false
					break
				}
			}
		}
		e.putBool(ok, true)
	case opTXSIGHASH:
		e.pay(256)
		if ctx.TxSigHash == nil {
			e.fail(NoContext)
		}
		e.put(ctx.TxSigHash(), false)

	// ---- introspection ----
	case opCHECKOUTPUT:
		e.pay(16)
		code := e.take(true)
		version := e.takeNum(true)
		asset := e.take(true)
		amount := e.takeNum(true)
		if amount.Cmp(two64) >= 0 {
			e.fail(BadValue)
		}
		index := e.takeNum(true)
		if ctx.CheckOutput == nil {
			e.fail(NoContext)
		}
		// no output has an index or a VM version of 2^64 or more
		if index.Cmp(two64) >= 0 || version.Cmp(two64) >= 0 {
			e.fail(BadValue)
		}
		ok, c := ctx.CheckOutput(index.Uint64(), amount.Uint64(), clone(asset), version.Uint64(), clone(code), cloneStack(f.alt), f.reserved)
		if c != "" {
			e.fail(c)
		}
		e.putBool(ok, true)
	case opASSET:
		e.pay(1)
		if ctx.AssetID == nil {
			e.fail(NoContext)
		}
		e.put(*ctx.AssetID, true)
	case opAMOUNT:
		e.pay(1)
		if ctx.Amount == nil {
			e.fail(NoContext)
		}
		e.putNum(new(big.Int).SetUint64(*ctx.Amount), true)
	case opPROGRAM:
		e.pay(1)
		e.put(ctx.Code, true) // the program of the context, also inside a predicate
	case opINDEX:
		e.pay(1)
		if ctx.DestPos == nil {
			e.fail(NoContext)
		}
		e.putNum(new(big.Int).SetUint64(*ctx.DestPos), true)
	case opENTRYID:
		e.pay(1)
		e.put(ctx.EntryID, true)
	case opOUTPUTID:
		e.pay(1)
		if ctx.SpentOutputID == nil {
			e.fail(NoContext)
		}
		e.put(*ctx.SpentOutputID, true)
	case opBLOCKHEIGHT:
		e.pay(1)
		if ctx.BlockHeight == nil {
			e.fail(NoContext)
		}
		e.putNum(new(big.Int).SetUint64(*ctx.BlockHeight), true)
	default:
		panic("refvm: defined opcode without semantics")
	}
}

// dup copies `count` consecutive items starting `from` positions below the top
// (from = count: the top `count` items) onto the stack; base cost is `cost`.
func (e *x) dup(count, from, cost int) {
	e.pay(int64(cost))
	e.need(from)
	start := len(e.f.data) - from
	items := make([][]byte, count)
	for i := range items {
		items[i] = e.f.data[start+i]
		e.consumed = append(e.consumed, e.f.dtag[start+i])
	}
	for _, v := range items {
		e.put(v, false)
	}
}

func le32(b []byte) uint32 {
	return uint32(b[0]) | uint32(b[1])<<8 | uint32(b[2])<<16 | uint32(b[3])<<24
}

func max64(a, b int64) int64 {
	if a > b {
		return a
	}
	return b
}

// PushData is the shortest data-push instruction for b (what CATPUSHDATA appends).
func PushData(b []byte) []byte {
	n := len(b)
	var head []byte
	switch {
	case n == 0:
		return []byte{opFALSE}
	case n <= 75:
		head = []byte{byte(n)}
	case n < 1<<8:
		head = []byte{opPUSHDATA1, byte(n)}
	case n < 1<<16:
		head = []byte{opPUSHDATA2, byte(n), byte(n >> 8)}
	default:
		head = []byte{opPUSHDATA4, byte(n), byte(n >> 8), byte(n >> 16), byte(n >> 24)}
	}
	return append(head, b...)
}
