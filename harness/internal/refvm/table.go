package refvm

import "fmt"

// OpInfo describes one opcode byte of the instruction set.
type OpInfo struct {
	Name    string
	Defined bool // false: expansion opcode ("NOPxNN")
	// MinStack is the least number of data stack items with which the opcode
	// does not underflow (before looking at operand values).
	MinStack int
	// Numeric: positions below the top (0 = top) that are decoded as numbers.
	Numeric []int
	// Immediate: number of bytes that follow the opcode (-1: length prefixed).
	Immediate int
	// Reach lists every failure class the opcode itself can produce.
	Reach []Class
	// CanSucceed is false only for FAIL.
	CanSucceed bool
}

var table [256]OpInfo

// Info returns the description of an opcode byte.
func Info(op byte) *OpInfo { return &table[op] }

// Defined reports whether op is an instruction (not an expansion opcode).
func Defined(op byte) bool { return table[op].Defined }

// Name returns the mnemonic.
func Name(op byte) string { return table[op].Name }

func def(op byte, name string, minStack int, numeric []int, extra ...Class) {
	t := &table[op]
	t.Name, t.Defined, t.MinStack, t.Numeric, t.CanSucceed = name, true, minStack, numeric, true
	// every instruction costs at least one unit (CHECKMULTISIG: 1024 per key)
	t.Reach = []Class{RunLimit}
	if minStack > 0 {
		t.Reach = append(t.Reach, Underflow)
	}
	if len(numeric) > 0 {
		t.Reach = append(t.Reach, BadValue)
	}
	for _, c := range extra {
		dup := false
		for _, h := range t.Reach {
			dup = dup || h == c
		}
		if !dup {
			t.Reach = append(t.Reach, c)
		}
	}
}

func init() {
	def(opFALSE, "FALSE", 0, nil)
	for n := 1; n <= 75; n++ {
		def(byte(n), fmt.Sprintf("DATA_%d", n), 0, nil, Malformed)
		table[n].Immediate = n
	}
	def(opPUSHDATA1, "PUSHDATA1", 0, nil, Malformed)
	def(opPUSHDATA2, "PUSHDATA2", 0, nil, Malformed)
	def(opPUSHDATA4, "PUSHDATA4", 0, nil, Malformed)
	for _, op := range []byte{opPUSHDATA1, opPUSHDATA2, opPUSHDATA4} {
		table[op].Immediate = -1
	}
	for n := 1; n <= 16; n++ {
		def(byte(op1+n-1), fmt.Sprintf("%d", n), 0, nil)
	}
	def(opNOP, "NOP", 0, nil)
	def(opJUMP, "JUMP", 0, nil, Malformed)
	def(opJUMPIF, "JUMPIF", 1, nil, Malformed)
	table[opJUMP].Immediate, table[opJUMPIF].Immediate = 4, 4
	def(opVERIFY, "VERIFY", 1, nil, VerifyFailed)
	def(opFAIL, "FAIL", 0, nil, Fail)
	table[opFAIL].CanSucceed = false
	// limit, predicate, n; n may ask for more items than there are
	def(opCHECKPREDICATE, "CHECKPREDICATE", 3, []int{0, 2})

	def(opTOALTSTACK, "TOALTSTACK", 1, nil)
	def(opFROMALTSTACK, "FROMALTSTACK", 0, nil, Underflow) // alt stack underflow
	def(op2DROP, "2DROP", 2, nil)
	def(op2DUP, "2DUP", 2, nil)
	def(op3DUP, "3DUP", 3, nil)
	def(op2OVER, "2OVER", 4, nil)
	def(op2ROT, "2ROT", 6, nil)
	def(op2SWAP, "2SWAP", 4, nil)
	def(opIFDUP, "IFDUP", 1, nil)
	def(opDEPTH, "DEPTH", 0, nil)
	def(opDROP, "DROP", 1, nil)
	def(opDUP, "DUP", 1, nil)
	def(opNIP, "NIP", 2, nil)
	def(opOVER, "OVER", 2, nil)
	def(opPICK, "PICK", 1, []int{0})
	def(opROLL, "ROLL", 1, []int{0})
	def(opROT, "ROT", 3, nil)
	def(opSWAP, "SWAP", 2, nil)
	def(opTUCK, "TUCK", 2, nil)

	def(opCAT, "CAT", 2, nil)
	def(opSUBSTR, "SUBSTR", 3, []int{0, 1})
	def(opLEFT, "LEFT", 2, []int{0})
	def(opRIGHT, "RIGHT", 2, []int{0})
	def(opSIZE, "SIZE", 1, nil)
	def(opCATPUSHDATA, "CATPUSHDATA", 2, nil)

	def(opINVERT, "INVERT", 1, nil)
	def(opAND, "AND", 2, nil)
	def(opOR, "OR", 2, nil)
	def(opXOR, "XOR", 2, nil)
	def(opEQUAL, "EQUAL", 2, nil)
	def(opEQUALVERIFY, "EQUALVERIFY", 2, nil, VerifyFailed)

	for _, o := range []struct {
		op   byte
		name string
	}{{op1ADD, "1ADD"}, {op1SUB, "1SUB"}, {op2MUL, "2MUL"}, {op2DIV, "2DIV"}, {opNOT, "NOT"}, {op0NOTEQUAL, "0NOTEQUAL"}} {
		def(o.op, o.name, 1, []int{0})
	}
	for _, o := range []struct {
		op   byte
		name string
	}{{opADD, "ADD"}, {opSUB, "SUB"}, {opMUL, "MUL"}, {opLSHIFT, "LSHIFT"}, {opRSHIFT, "RSHIFT"},
		{opNUMEQUAL, "NUMEQUAL"}, {opNUMNOTEQUAL, "NUMNOTEQUAL"}, {opLESSTHAN, "LESSTHAN"}, {opGREATERTHAN, "GREATERTHAN"},
		{opLESSTHANOREQ, "LESSTHANOREQUAL"}, {opGREATERTHANOEQ, "GREATERTHANOREQUAL"}, {opMIN, "MIN"}, {opMAX, "MAX"}} {
		def(o.op, o.name, 2, []int{0, 1})
	}
	def(opDIV, "DIV", 2, []int{0, 1}, DivZero)
	def(opMOD, "MOD", 2, []int{0, 1}, DivZero)
	def(opNUMEQUALVERIFY, "NUMEQUALVERIFY", 2, []int{0, 1}, VerifyFailed)
	def(opBOOLAND, "BOOLAND", 2, nil)
	def(opBOOLOR, "BOOLOR", 2, nil)
	def(opWITHIN, "WITHIN", 3, []int{0, 1, 2})

	def(opSHA256, "SHA256", 1, nil)
	def(opSHA3, "SHA3", 1, nil)
	def(opHASH160, "HASH160", 1, nil)
	def(opCHECKSIG, "CHECKSIG", 3, nil, BadValue) // message must be 32 bytes
	def(opCHECKMULTISIG, "CHECKMULTISIG", 3, []int{0, 1})
	def(opTXSIGHASH, "TXSIGHASH", 0, nil, NoContext)

	def(opCHECKOUTPUT, "CHECKOUTPUT", 5, []int{1, 3, 4}, NoContext)
	def(opASSET, "ASSET", 0, nil, NoContext)
	def(opAMOUNT, "AMOUNT", 0, nil, NoContext)
	def(opPROGRAM, "PROGRAM", 0, nil)
	def(opINDEX, "INDEX", 0, nil, NoContext)
	def(opENTRYID, "ENTRYID", 0, nil)
	def(opOUTPUTID, "OUTPUTID", 0, nil, NoContext)
	def(opBLOCKHEIGHT, "BLOCKHEIGHT", 0, nil, NoContext)

	for i := 0; i < 256; i++ {
		if !table[i].Defined {
			table[i] = OpInfo{Name: fmt.Sprintf("NOPx%02x", i), Reach: []Class{RunLimit, Disallowed}, CanSucceed: true}
		}
	}
}
