// Package refvm is an independent reference interpreter of the documented
// semantics of Bytom's VM version 1 (the Chain VM1 instruction set with Bytom's
// unsigned 256-bit numbers), used as the oracle of the C06–C08 monitors.
//
// It is written from the VM1 rules and the statement of property C08, not from
// protocol/vm, and it imports nothing from the repository under test:
//
//   - a stack item is an immutable byte string; every value this interpreter
//     puts on a stack is a fresh copy, so no operation can change another item;
//   - a number is an unsigned little-endian byte string of at most 32 bytes whose
//     value is below 2^255 (math/big); results are encoded minimally (0 = empty);
//   - a boolean is false iff every byte is zero; true is pushed as 01, false as "";
//   - gas: every instruction has a base cost, some have an operand dependent
//     cost, and stack memory is a deposit: putting an item of L bytes on the data
//     stack costs 8+L, removing it refunds 8+L.  The run limit never goes
//     negative: a charge larger than what is left zeroes it and fails.
//
// What the documentation leaves open was calibrated against the implementation
// and is marked "calibrated" below: the order in which one instruction charges,
// pops and checks (it decides which error class wins when several apply and
// the gas left at the point of failure, which CHECKPREDICATE refunds to its
// parent), and whether the memory deposit of an instruction is settled
// immediately or at its end.
package refvm

import (
	"math/big"
)

// Class is the outcome class of a run or of one instruction.
type Class string

const (
	OK            Class = "ok"
	FalseResult   Class = "false-result"    // program ran to its end; stack empty or top item false
	Underflow     Class = "underflow"       // data or alt stack underflow
	BadValue      Class = "badvalue"        // bad value / range
	DivZero       Class = "divzero"         // division by zero
	VerifyFailed  Class = "verify-failed"   // VERIFY, EQUALVERIFY, NUMEQUALVERIFY failed
	Fail          Class = "fail-executed"   // FAIL executed
	RunLimit      Class = "runlimit"        // run limit exceeded
	NoContext     Class = "missing-context" // the opcode needs a context field that is absent
	Disallowed    Class = "disallowed"      // expansion opcode while expansion is reserved
	Malformed     Class = "malformed"       // program ends inside an instruction
	UnsupportedVM Class = "unsupported-vm"  // VM version other than 1
)

// Context is the execution context (what the transaction supplies).
type Context struct {
	VMVersion uint64
	Code      []byte
	StateData [][]byte // initial alt stack, bottom first
	Arguments [][]byte // initial data stack, bottom first

	EntryID []byte

	TxVersion   *uint64 // expansion opcodes are reserved (disallowed) iff *TxVersion == 1
	BlockHeight *uint64

	AssetID       *[]byte
	Amount        *uint64
	DestPos       *uint64
	SpentOutputID *[]byte

	TxSigHash func() []byte
	// CheckOutput answers whether output index carries exactly (amount, asset,
	// vm version, code, state).  A non-empty Class is the failure it reports.
	CheckOutput func(index, amount uint64, assetID []byte, vmVersion uint64, code []byte, state [][]byte, expansion bool) (bool, Class)
}

// Producer tags of stack items (who put the item there).  Opcodes that push an
// item tag it with their own byte; initial items carry these two.
const (
	TagArg   = 0xff
	TagState = 0xfe
)

// Event is the state of the executing frame before the instruction at PC runs
// (End == false) or after a frame's program ran to its end (End == true).
type Event struct {
	End       bool
	Depth     int
	PC        uint32
	Op        byte
	Data      []byte
	RunLimit  int64
	DataStack [][]byte
	AltStack  [][]byte
	DataTags  []byte // producer tag of every data stack item
	AltTags   []byte
	// what the previously executed instruction (if any) was and consumed
	PrevOp       byte
	PrevExecuted bool
	PrevConsumed []byte // producer tags of the items it took or inspected
}

type frame struct {
	prog      []byte
	pc        uint32
	runLimit  int64
	data, alt [][]byte
	dtag      []byte
	atag      []byte
	depth     int
	reserved  bool // expansion opcodes disallowed
	announced bool // the pre-instruction event of pc was delivered
	ended     bool // the End event was delivered
	// a CHECKPREDICATE of this frame waiting for its child
	pendDeferred int64
	pendNext     uint32
	// given: what a child frame received from its parent (run limit plus the
	// deposits of the items handed over); it never gives back more than that
	given int64
	// unpaid: the part of the stack deposits that the failing instruction did not pay
	unpaid int64
}

// Machine executes one program; Next delivers the event stream step by step.
type Machine struct {
	ctx    *Context
	limit  int64
	frames []*frame

	done    bool
	class   Class
	gasLeft int64

	// statistics of the run
	Steps      int          // instructions executed (all depths)
	Peak       int64        // least gas limit with which the top frame would have got as far as it did
	FailOp     byte         // instruction that failed (valid if FailedInOp)
	FailedInOp bool         // the run failed inside an instruction (not before the first one, not at parse time)
	FailDepth  int          // depth of the failing frame of the *last* failure at depth 0 or of a child
	Executed   []ExecRecord // per instruction outcomes at every depth, capped
	prevOp     byte
	prevExec   bool
	prevCons   []byte
	final      *frame
}

// ExecRecord is the outcome of one executed instruction.
type ExecRecord struct {
	Op    byte
	Depth int
	Class Class  // OK or the failure class
	Top   []byte // top data item before the instruction (nil if the stack was empty)
	Has   bool
}

const maxExecRecords = 64

// New prepares a run: it checks the VM version and deposits the initial stacks.
func New(ctx *Context, gasLimit int64) *Machine {
	m := &Machine{ctx: ctx, limit: gasLimit}
	if ctx.VMVersion != 1 {
		m.finish(UnsupportedVM, gasLimit, nil)
		return m
	}
	f := &frame{prog: clone(ctx.Code), runLimit: gasLimit, reserved: ctx.TxVersion != nil && *ctx.TxVersion == 1}
	m.frames = []*frame{f}
	for _, s := range ctx.StateData {
		if !m.charge(f, 8+int64(len(s))) {
			m.finish(RunLimit, f.runLimit, f)
			return m
		}
		f.alt = append(f.alt, clone(s))
		f.atag = append(f.atag, TagState)
	}
	for _, a := range ctx.Arguments {
		if !m.charge(f, 8+int64(len(a))) {
			m.finish(RunLimit, f.runLimit, f)
			return m
		}
		f.data = append(f.data, clone(a))
		f.dtag = append(f.dtag, TagArg)
	}
	return m
}

func clone(b []byte) []byte {
	c := make([]byte, len(b))
	copy(c, b)
	return c
}

func cloneStack(s [][]byte) [][]byte {
	out := make([][]byte, len(s))
	for i, b := range s {
		out[i] = clone(b)
	}
	return out
}

// charge takes n units from the frame's run limit (n may be negative: refund).
func (m *Machine) charge(f *frame, n int64) bool {
	if n > 0 && f.depth == 0 {
		if need := m.limit - f.runLimit + n; need > m.Peak {
			m.Peak = need
		}
	}
	if n > f.runLimit {
		f.runLimit = 0
		return false
	}
	f.runLimit -= n
	return true
}

func (m *Machine) finish(c Class, gas int64, f *frame) {
	m.done, m.class, m.gasLeft, m.final = true, c, gas, f
}

// Done reports whether the run is over; Class and GasLeft are then valid.
func (m *Machine) Done() bool     { return m.done }
func (m *Machine) Class() Class   { return m.class }
func (m *Machine) GasLeft() int64 { return m.gasLeft }

// FinalStacks returns copies of the top frame's stacks when the run ended (for
// a failed run: the state in which the failing instruction left them).
func (m *Machine) FinalStacks() (data, alt [][]byte) {
	if m.final == nil {
		return nil, nil
	}
	return cloneStack(m.final.data), cloneStack(m.final.alt)
}

// LastConsumed returns what the last executed instruction was and consumed
// (meaningful once Done).
func (m *Machine) LastConsumed() (op byte, executed bool, tags []byte) {
	return m.prevOp, m.prevExec, m.prevCons
}

func (m *Machine) event(f *frame, end bool, in *instr) *Event {
	e := &Event{End: end, Depth: f.depth, PC: f.pc, RunLimit: f.runLimit,
		DataStack: cloneStack(f.data), AltStack: cloneStack(f.alt),
		DataTags: clone(f.dtag), AltTags: clone(f.atag),
		PrevOp: m.prevOp, PrevExecuted: m.prevExec, PrevConsumed: m.prevCons}
	if in != nil {
		e.Op, e.Data = in.op, clone(in.data)
	}
	return e
}

// Next advances to the next observation point and returns it; it returns nil
// when the run is over.  The instruction announced by an event is executed by
// the following call.
func (m *Machine) Next() *Event {
	for {
		if m.done {
			return nil
		}
		f := m.frames[len(m.frames)-1]
		if f.ended {
			m.leave(f, true)
			continue
		}
		if f.pc >= uint32(len(f.prog)) {
			f.ended = true
			return m.event(f, true, nil)
		}
		in, ok := parse(f.prog, f.pc)
		if !ok {
			var top []byte
			if len(f.data) > 0 {
				top = f.data[len(f.data)-1]
			}
			m.note(f, f.prog[f.pc], Malformed, top, len(f.data) > 0)
			m.fail(f, Malformed)
			continue
		}
		if !f.announced {
			f.announced = true
			return m.event(f, false, &in)
		}
		f.announced = false
		m.exec(f, &in)
	}
}

// fail ends frame f with class c.
func (m *Machine) fail(f *frame, c Class) {
	if f.depth == 0 {
		m.finish(c, f.runLimit, f)
		return
	}
	m.leave(f, false)
}

// leave pops a frame whose program ended (ok) or failed (!ok).
func (m *Machine) leave(f *frame, ok bool) {
	if f.depth == 0 {
		c := OK
		if len(f.data) == 0 || !truthy(f.data[len(f.data)-1]) {
			c = FalseResult
		}
		m.finish(c, f.runLimit, f)
		return
	}
	m.frames = m.frames[:len(m.frames)-1]
	parent := m.frames[len(m.frames)-1]
	res := ok && len(f.data) > 0 && truthy(f.data[len(f.data)-1])
	// the child's unused gas and the deposits of what it leaves behind go back
	// (calibrated: a child that failed on an end-of-instruction deposit still holds the unpaid item;
	// the refund is capped by what the child was given, so that no gas is created)
	refund := f.runLimit + stackDeposit(f.data) + stackDeposit(f.alt) - f.unpaid
	if refund > f.given {
		refund = f.given
	}
	d := parent.pendDeferred - refund
	v := boolBytes(res)
	d += 8 + int64(len(v))
	parent.data = append(parent.data, v)
	parent.dtag = append(parent.dtag, opCHECKPREDICATE)
	before := parent.runLimit
	if !m.charge(parent, d) {
		parent.unpaid = d - before
		m.note(parent, opCHECKPREDICATE, RunLimit, nil, false)
		m.FailedInOp, m.FailOp = true, opCHECKPREDICATE
		m.fail(parent, RunLimit)
		return
	}
	m.note(parent, opCHECKPREDICATE, OK, nil, false)
	m.prevOp, m.prevExec, m.prevCons = opCHECKPREDICATE, true, nil
	parent.pc = parent.pendNext
}

func stackDeposit(s [][]byte) int64 {
	n := int64(8 * len(s))
	for _, b := range s {
		n += int64(len(b))
	}
	return n
}

func (m *Machine) note(f *frame, op byte, c Class, top []byte, has bool) {
	if len(m.Executed) < maxExecRecords {
		m.Executed = append(m.Executed, ExecRecord{Op: op, Depth: f.depth, Class: c, Top: top, Has: has})
	}
}

// Result of a complete run.
type Result struct {
	Class     Class
	GasLeft   int64
	DataStack [][]byte
	AltStack  [][]byte
	Events    []*Event
	Steps     int
	Peak      int64
	Executed  []ExecRecord
	// Cut: the run was abandoned after MaxSteps instructions.  The gas rules as
	// implemented (and mirrored here) let a CHECKPREDICATE child that fails on an
	// unpaid end-of-instruction deposit hand gas back to its parent, so a run is
	// not bounded by its gas limit.
	Cut bool
}

// MaxSteps bounds the instructions Run executes.
var MaxSteps = 50000

// Run executes the program to its end.  maxEvents bounds the recorded events
// (0: record none); execution is bounded by MaxSteps.
func Run(ctx *Context, gasLimit int64, maxEvents int) *Result {
	m := New(ctx, gasLimit)
	r := &Result{}
	for {
		e := m.Next()
		if e == nil {
			break
		}
		if len(r.Events) < maxEvents {
			r.Events = append(r.Events, e)
		}
		if m.Steps > MaxSteps {
			r.Cut = true
			break
		}
	}
	r.Class, r.GasLeft = m.Class(), m.GasLeft()
	r.DataStack, r.AltStack = m.FinalStacks()
	r.Steps, r.Peak, r.Executed = m.Steps, m.Peak, m.Executed
	return r
}

// ---- values ----

var (
	one    = big.NewInt(1)
	two63  = new(big.Int).Lsh(one, 63)
	two64  = new(big.Int).Lsh(one, 64)
	two255 = new(big.Int).Lsh(one, 255)
	two256 = new(big.Int).Lsh(one, 256)
)

// DecodeNum reads a number: at most 32 bytes, little-endian, below 2^255.
func DecodeNum(b []byte) (*big.Int, bool) {
	if len(b) > 32 {
		return nil, false
	}
	be := make([]byte, len(b))
	for i, x := range b {
		be[len(b)-1-i] = x
	}
	v := new(big.Int).SetBytes(be)
	if v.Cmp(two255) >= 0 {
		return nil, false
	}
	return v, true
}

// EncodeNum writes the minimal little-endian encoding (zero is the empty string).
func EncodeNum(v *big.Int) []byte {
	be := v.Bytes()
	le := make([]byte, len(be))
	for i, x := range be {
		le[len(be)-1-i] = x
	}
	return le
}

func truthy(b []byte) bool {
	for _, x := range b {
		if x != 0 {
			return true
		}
	}
	return false
}

func boolBytes(v bool) []byte {
	if v {
		return []byte{1}
	}
	return []byte{}
}

// ---- program parsing ----

type instr struct {
	op   byte
	data []byte
	size uint32
}

// parse decodes the instruction at pc: opcodes 0x01..0x4b carry that many
// bytes, PUSHDATA1/2/4 a little-endian length and the bytes, JUMP and JUMPIF a
// 4-byte little-endian address, 0x51..0x60 stand for the one-byte numbers 1..16.
func parse(prog []byte, pc uint32) (instr, bool) {
	rest := prog[pc:]
	op := rest[0]
	in := instr{op: op, size: 1}
	take := func(skip, n uint64) bool {
		if uint64(len(rest)) < skip+n {
			return false
		}
		in.data = rest[skip : skip+n]
		in.size = uint32(skip + n)
		return true
	}
	switch {
	case op >= 0x01 && op <= 0x4b:
		return in, take(1, uint64(op))
	case op == 0x4c:
		if len(rest) < 2 {
			return in, false
		}
		return in, take(2, uint64(rest[1]))
	case op == 0x4d:
		if len(rest) < 3 {
			return in, false
		}
		return in, take(3, uint64(rest[1])|uint64(rest[2])<<8)
	case op == 0x4e:
		if len(rest) < 5 {
			return in, false
		}
		return in, take(5, uint64(rest[1])|uint64(rest[2])<<8|uint64(rest[3])<<16|uint64(rest[4])<<24)
	case op == opJUMP || op == opJUMPIF:
		return in, take(1, 4)
	case op >= 0x51 && op <= 0x60:
		in.data = []byte{op - 0x50}
	}
	return in, true
}
