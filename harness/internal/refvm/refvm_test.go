package refvm

import (
	"bytes"
	"encoding/hex"
	"math/big"
	"math/rand"
	"testing"
)

func h(s string) []byte { b, _ := hex.DecodeString(s); return b }

// hand-computed vectors from the documented rules (cost = base + memory deposit 8+L per item)
func TestVectors(t *testing.T) {
	type tc struct {
		name  string
		prog  string
		args  []string
		limit int64
		class Class
		gas   int64
		stack []string
	}
	for _, c := range []tc{
		// TRUE: 1 + (8+1) = 10
		{"true", "51", nil, 100, OK, 90, []string{"01"}},
		// FALSE: 1 + 8 = 9, result false
		{"false", "00", nil, 100, FalseResult, 91, []string{""}},
		// args 02 03 cost 9+9; ADD: 2, pops refund 18, push 05 costs 9 => 100-18-2+18-9
		{"add", "93", []string{"02", "03"}, 100, OK, 89, []string{"05"}},
		// 2^255-1 + 1 is out of range
		{"add-range", "8b", []string{"ffffffffffffffffffffffffffffffffffffffffffffffffffffffffffffff7f"}, 1000, BadValue, 1000 - 40 - 2, nil},
		// 33-byte number
		{"33bytes", "8b", []string{"010000000000000000000000000000000000000000000000000000000000000000"}, 1000, BadValue, 1000 - 41 - 2, nil},
		// non-minimal 1 + 1 = 2 (minimal)
		{"nonminimal", "8b", []string{"0100"}, 1000, OK, 1000 - 10 - 2 + 10 - 9, []string{"02"}},
		{"sub-negative", "94", []string{"02", "03"}, 100, BadValue, 80, nil},
		{"div0", "96", []string{"02", ""}, 100, DivZero, 100 - 9 - 8 - 8, nil},
		{"rshift256", "99", []string{"ff", "0001"}, 100, FalseResult, 100 - 9 - 10 - 8 + 19 - 8, []string{""}},
		{"verify-false", "69", []string{"00"}, 100, VerifyFailed, 90, nil},
		{"fail", "6a", nil, 100, Fail, 99, nil},
		{"runlimit", "51", nil, 9, RunLimit, 0, nil},
		{"malformed", "02aa", nil, 100, Malformed, 100, nil},
		{"underflow", "93", []string{"01"}, 100, Underflow, 89, nil},
		// CAT: 4 + len, one item (8) fewer
		{"cat", "7e", []string{"aabb", "cc"}, 100, OK, 100 - 10 - 9 - 4 - 3 + 10 + 9 + 3 - 11, []string{"aabbcc"}},
		{"left", "80", []string{"aabbcc", "02"}, 100, OK, 100 - 11 - 9 - 4 - 2 + 2 + 9 + 11 - 10, []string{"aabb"}},
		{"left-toolong", "80", []string{"aabbcc", "04"}, 100, BadValue, 100 - 11 - 9 - 4 - 4, nil},
		{"pick-deep", "79", []string{"aa", "01"}, 100, Underflow, 100 - 9 - 9 - 2 + 9, nil},
		{"jump-over-fail", "6306000000" + "6a" + "51", nil, 100, OK, 89, []string{"01"}},
		{"sha256-empty", "a8", []string{""}, 1000, OK, 1000 - 8 + 8 - 64 - 40, []string{"e3b0c44298fc1c149afbf4c8996fb92427ae41e4649b934ca495991b7852b855"}},
		// CHECKPREDICATE: n=0 (all), predicate TRUE, limit 0: 256 up front, 64 net, child uses 10 of the rest,
		// its result item (9) is refunded with the child's stack, the pushed true costs 9
		{"checkpredicate", "c0", []string{"", "51", ""}, 1000, OK, 1000 - 8 - 9 - 8 - 64 + 25 - 10 - 9 + 9, []string{"01"}},
	} {
		ctx := &Context{VMVersion: 1, Code: h(c.prog)}
		for _, a := range c.args {
			ctx.Arguments = append(ctx.Arguments, h(a))
		}
		r := Run(ctx, c.limit, 100)
		if r.Class != c.class || r.GasLeft != c.gas {
			t.Errorf("%s: got class=%s gas=%d want class=%s gas=%d", c.name, r.Class, r.GasLeft, c.class, c.gas)
		}
		if c.stack != nil {
			if len(r.DataStack) != len(c.stack) {
				t.Errorf("%s: stack %x", c.name, r.DataStack)
				continue
			}
			for i, s := range c.stack {
				if !bytes.Equal(r.DataStack[i], h(s)) {
					t.Errorf("%s: stack %x want %v", c.name, r.DataStack, c.stack)
				}
			}
		}
	}
}

func TestNumbers(t *testing.T) {
	for _, v := range []*big.Int{big.NewInt(0), big.NewInt(1), big.NewInt(255), big.NewInt(256), new(big.Int).Sub(two255, one)} {
		b := EncodeNum(v)
		got, ok := DecodeNum(b)
		if !ok || got.Cmp(v) != 0 {
			t.Errorf("round trip %s", v)
		}
		if len(b) > 0 && b[len(b)-1] == 0 {
			t.Errorf("not minimal %x", b)
		}
	}
	if _, ok := DecodeNum(EncodeNum(two255)); ok {
		t.Error("2^255 accepted")
	}
	if _, ok := DecodeNum(make([]byte, 33)); ok {
		t.Error("33 bytes accepted")
	}
}

// The reachability table must agree with the interpreter: random single-opcode
// programs never produce a class outside Reach, and produce every class in it.
func TestReachTable(t *testing.T) {
	rng := rand.New(rand.NewSource(1))
	seen := map[byte]map[Class]bool{}
	item := func() []byte {
		switch rng.Intn(4) {
		case 0:
			return EncodeNum(big.NewInt(int64(rng.Intn(6))))
		case 1:
			b := make([]byte, rng.Intn(40))
			rng.Read(b)
			return b
		case 2:
			return EncodeNum(new(big.Int).Lsh(one, uint(rng.Intn(258))))
		}
		b := make([]byte, 32)
		rng.Read(b)
		return b
	}
	one64 := uint64(1)
	for op := 0; op < 256; op++ {
		seen[byte(op)] = map[Class]bool{}
		for i := 0; i < 1500; i++ {
			ctx := &Context{VMVersion: 1, EntryID: []byte{1}}
			prog := []byte{byte(op)}
			n := Info(byte(op)).Immediate
			if n == -1 {
				n = rng.Intn(6)
			}
			for j := 0; j < n; j++ {
				prog = append(prog, byte(rng.Intn(4)))
			}
			if rng.Intn(8) == 0 && len(prog) > 1 {
				prog = prog[:1+rng.Intn(len(prog)-1)]
			}
			ctx.Code = prog
			for j := rng.Intn(8); j > 0; j-- {
				ctx.Arguments = append(ctx.Arguments, item())
			}
			if rng.Intn(2) == 0 {
				ctx.StateData = [][]byte{item()}
			}
			if rng.Intn(2) == 0 {
				ctx.TxVersion = &one64
			}
			if rng.Intn(2) == 0 {
				a := []byte{7}
				ctx.AssetID, ctx.Amount, ctx.DestPos, ctx.SpentOutputID, ctx.BlockHeight = &a, &one64, &one64, &a, &one64
				ctx.TxSigHash = func() []byte { return make([]byte, 32) }
				ctx.CheckOutput = func(uint64, uint64, []byte, uint64, []byte, [][]byte, bool) (bool, Class) { return true, "" }
			}
			limit := int64(100000)
			if rng.Intn(3) == 0 {
				limit = int64(rng.Intn(400))
			}
			for pass := 0; pass < 2; pass++ {
				m := New(ctx, limit)
				for m.Next() != nil {
				}
				for _, x := range m.Executed {
					if x.Depth == 0 && x.Op == byte(op) {
						seen[byte(op)][x.Class] = true
					}
				}
				if m.Class() == Malformed {
					seen[byte(op)][Malformed] = true
				}
				limit = m.Peak - 1 // second pass: one unit less than this path needs
				if limit < 0 {
					break
				}
			}
		}
	}
	for op := 0; op < 256; op++ {
		info := Info(byte(op))
		reach := map[Class]bool{}
		for _, c := range info.Reach {
			reach[c] = true
			if !seen[byte(op)][c] {
				t.Errorf("%s: class %s is listed as reachable but was not produced", info.Name, c)
			}
		}
		for c := range seen[byte(op)] {
			if c == OK {
				if !info.CanSucceed {
					t.Errorf("%s succeeded", info.Name)
				}
				continue
			}
			if !reach[c] {
				t.Errorf("%s: produced class %s which is not in its reach list", info.Name, c)
			}
		}
		if info.CanSucceed && !seen[byte(op)][OK] {
			t.Errorf("%s never succeeded", info.Name)
		}
	}
}
