// Package vmdiff connects the reference interpreter (refvm) with the VM under
// test (protocol/vm, build tag verif): one case description is turned into both
// contexts, the real VM is run under the step hook, and the two event streams,
// error classes and gas values are compared.
package vmdiff

import (
	"bytes"
	"encoding/hex"
	"fmt"
	"math/big"
	"strings"

	"github.com/bytom/bytom/errors"
	"github.com/bytom/bytom/math/checked"
	"github.com/bytom/bytom/protocol/vm"

	"verif/internal/refvm"
)

// Unexpected is the class of a panic recovered inside vm.Verify; it is never
// an acceptable outcome.
const Unexpected refvm.Class = "ErrUnexpected"

// Output is what a CHECKOUTPUT callback in "match" mode compares against.
type Output struct {
	Amount  uint64
	Asset   []byte
	Version uint64
	Code    []byte
}

// CheckOutput callback behaviours.
const (
	CONil = iota
	COTrue
	COFalse
	COError
	COMatch // compares with Outputs[index] and the alt stack with State; index out of range is a bad value
)

// Spec describes one VM run independently of memory layout.
type Spec struct {
	VMVersion uint64
	Code      []byte
	State     [][]byte
	Args      [][]byte
	EntryID   []byte

	TxVersion, BlockHeight, Amount, DestPos *uint64
	AssetID, SpentOutputID                  []byte
	HasAssetID, HasSpentOutputID            bool
	SigHash                                 []byte // nil: TxSigHash absent

	CheckOutput int
	Outputs     []Output
	// OutputState: in match mode the state the matching output must carry; nil: any
	OutputState [][]byte
}

func cp(b []byte) []byte { return append(make([]byte, 0, len(b)), b...) }

func cpAll(s [][]byte) [][]byte {
	out := make([][]byte, len(s))
	for i, b := range s {
		out[i] = cp(b)
	}
	return out
}

func u64p(p *uint64) *uint64 {
	if p == nil {
		return nil
	}
	v := *p
	return &v
}

func (s *Spec) answer(index, amount uint64, asset []byte, version uint64, code []byte, state [][]byte) (bool, refvm.Class) {
	switch s.CheckOutput {
	case COTrue:
		return true, ""
	case COFalse:
		return false, ""
	case COError:
		return false, refvm.BadValue
	}
	if index >= uint64(len(s.Outputs)) {
		return false, refvm.BadValue
	}
	o := s.Outputs[index]
	ok := o.Amount == amount && bytes.Equal(o.Asset, asset) && o.Version == version && bytes.Equal(o.Code, code)
	if ok && s.OutputState != nil {
		ok = len(state) == len(s.OutputState)
		for i := 0; ok && i < len(state); i++ {
			ok = bytes.Equal(state[i], s.OutputState[i])
		}
	}
	return ok, ""
}

// Ref builds the reference context (fresh copies of everything).
func (s *Spec) Ref() *refvm.Context {
	c := &refvm.Context{VMVersion: s.VMVersion, Code: cp(s.Code), StateData: cpAll(s.State), Arguments: cpAll(s.Args),
		EntryID: cp(s.EntryID), TxVersion: u64p(s.TxVersion), BlockHeight: u64p(s.BlockHeight), Amount: u64p(s.Amount), DestPos: u64p(s.DestPos)}
	if s.HasAssetID {
		a := cp(s.AssetID)
		c.AssetID = &a
	}
	if s.HasSpentOutputID {
		a := cp(s.SpentOutputID)
		c.SpentOutputID = &a
	}
	if s.SigHash != nil {
		c.TxSigHash = func() []byte { return cp(s.SigHash) }
	}
	if s.CheckOutput != CONil {
		c.CheckOutput = func(index, amount uint64, asset []byte, version uint64, code []byte, state [][]byte, _ bool) (bool, refvm.Class) {
			return s.answer(index, amount, asset, version, code, state)
		}
	}
	return c
}

// Call is one invocation of the real CHECKOUTPUT callback.
type Call struct {
	Index, Amount, Version uint64
	Expansion              bool
	// operands as they stood on the stack (from the step hook), nil if unknown
	IndexOperand, VersionOperand []byte
}

// Alloc places a caller-owned byte string in memory for the real VM; role is
// "code", "arg", "state", "entryid", "assetid", "outputid" or "sighash".
type Alloc func(role string, i int, b []byte) []byte

// Fresh allocates every buffer separately with cap == len.
func Fresh(_ string, _ int, b []byte) []byte { return cp(b) }

// Real builds the context for the VM under test; calls collects callback invocations.
func (s *Spec) Real(alloc Alloc, run *RealRun) *vm.Context {
	c := &vm.Context{VMVersion: s.VMVersion, Code: alloc("code", 0, s.Code), EntryID: alloc("entryid", 0, s.EntryID),
		TxVersion: u64p(s.TxVersion), BlockHeight: u64p(s.BlockHeight), Amount: u64p(s.Amount), DestPos: u64p(s.DestPos)}
	// keep nil-ness of the lists as a caller would (empty list = nil)
	for i, b := range s.State {
		c.StateData = append(c.StateData, alloc("state", i, b))
	}
	for i, b := range s.Args {
		c.Arguments = append(c.Arguments, alloc("arg", i, b))
	}
	if s.HasAssetID {
		a := alloc("assetid", 0, s.AssetID)
		c.AssetID = &a
	}
	if s.HasSpentOutputID {
		a := alloc("outputid", 0, s.SpentOutputID)
		c.SpentOutputID = &a
	}
	if s.SigHash != nil {
		h := alloc("sighash", 0, s.SigHash)
		c.TxSigHash = func() []byte { return h } // the node caches the hash and hands out the same slice
	}
	if s.CheckOutput != CONil {
		c.CheckOutput = func(index, amount uint64, asset []byte, version uint64, code []byte, state [][]byte, expansion bool) (bool, error) {
			call := Call{Index: index, Amount: amount, Version: version, Expansion: expansion}
			if run != nil {
				if ev := run.last; ev != nil && ev.Op == vm.OP_CHECKOUTPUT && len(ev.DataStack) >= 5 {
					n := len(ev.DataStack)
					call.VersionOperand, call.IndexOperand = ev.DataStack[n-2], ev.DataStack[n-5]
				}
				run.Calls = append(run.Calls, call)
			}
			ok, class := s.answer(index, amount, asset, version, code, state)
			if class != "" {
				return false, errors.Wrap(vm.ErrBadValue, "callback")
			}
			return ok, nil
		}
	}
	return c
}

// RealRun is the observation of one run of the VM under test.
type RealRun struct {
	Class   refvm.Class
	Err     error
	GasLeft int64
	Events  []*vm.VerifStep
	NEvents int
	Calls   []Call
	// Cut: the run was stopped by the harness after refvm.MaxSteps hook events (vm.Verify is not
	// bounded by its gas limit: a failing CHECKPREDICATE child can hand gas back).  A cut run has
	// no verdict: the panic that stops it is recovered by Verify as ErrUnexpected.
	Cut    bool
	last   *vm.VerifStep
	lastOp *vm.VerifStep // last announced instruction

	// The VM keeps one package-level byte slice {01} that BoolBytes(true) hands
	// out to every caller.  TrueConst* record a run that changed it: noticed at
	// hook event TrueConstAt, while instruction TrueConstOp ran.  The harness
	// puts the byte back when the run is over so that later cases are not affected.
	TrueConstHit   bool
	TrueConstAt    int
	TrueConstOp    byte
	TrueConstHasOp bool
	TrueConstVal   byte
}

func (r *RealRun) checkTrueConst() {
	b := vm.BoolBytes(true)
	if len(b) == 1 && b[0] == 1 {
		return
	}
	if !r.TrueConstHit {
		r.TrueConstHit, r.TrueConstAt = true, r.NEvents
		if len(b) > 0 {
			r.TrueConstVal = b[0]
		}
		if r.lastOp != nil {
			r.TrueConstOp, r.TrueConstHasOp = byte(r.lastOp.Op), true
		}
	}
}

// restoreTrueConst puts the shared byte back once the run is over (during the
// run the VM is left alone: items on its stacks may alias that byte).
func restoreTrueConst() {
	if b := vm.BoolBytes(true); len(b) == 1 {
		b[0] = 1
	}
}

// Classify maps an error of vm.Verify to an outcome class.
func Classify(err error) refvm.Class {
	if err == nil {
		return refvm.OK
	}
	switch errors.Root(err) {
	case vm.ErrAltStackUnderflow, vm.ErrDataStackUnderflow:
		return refvm.Underflow
	case vm.ErrBadValue, vm.ErrRange:
		return refvm.BadValue
	case vm.ErrContext:
		return refvm.NoContext
	case vm.ErrDisallowedOpcode:
		return refvm.Disallowed
	case vm.ErrDivZero:
		return refvm.DivZero
	case vm.ErrFalseVMResult:
		return refvm.FalseResult
	case vm.ErrReturn:
		return refvm.Fail
	case vm.ErrRunLimitExceeded:
		return refvm.RunLimit
	case vm.ErrShortProgram, vm.ErrLongProgram, checked.ErrOverflow:
		return refvm.Malformed
	case vm.ErrUnsupportedVM:
		return refvm.UnsupportedVM
	case vm.ErrVerifyFailed:
		return refvm.VerifyFailed
	case vm.ErrUnexpected:
		return Unexpected
	}
	return refvm.Class("other:" + errors.Root(err).Error())
}

// Run executes the VM under test with the step hook installed.  onStep (may be
// nil) sees every hook event as it happens; up to keep events are retained.
func Run(run *RealRun, ctx *vm.Context, gasLimit int64, keep int, onStep func(*vm.VerifStep)) {
	Observe(run, keep, onStep, func() { run.GasLeft, run.Err = vm.Verify(ctx, gasLimit) })
	run.Class = Classify(run.Err)
}

type cutSentinel struct{}

// Observe installs the step hook around fn (which runs the VM, directly or
// through transaction validation) and records the events in run.
func Observe(run *RealRun, keep int, onStep func(*vm.VerifStep), fn func()) {
	vm.VerifStepHook = func(s *vm.VerifStep) {
		run.checkTrueConst()
		run.last = s
		if !s.End {
			run.lastOp = s
		}
		run.NEvents++
		if run.NEvents > refvm.MaxSteps+16 {
			run.Cut = true
			panic(cutSentinel{})
		}
		if len(run.Events) < keep {
			run.Events = append(run.Events, s)
		}
		if onStep != nil {
			onStep(s)
		}
	}
	defer func() { vm.VerifStepHook = nil }()
	func() {
		defer func() {
			// Verify recovers the sentinel itself; this is for callers that run the VM some other way
			if r := recover(); r != nil {
				if _, ok := r.(cutSentinel); !ok {
					panic(r)
				}
			}
		}()
		fn()
	}()
	run.checkTrueConst()
	restoreTrueConst()
}

// TrueConstKey is the violation key and text for a run that changed the VM's shared "true" value.
func (r *RealRun) TrueConstKey() (key, what string) {
	name := "?"
	if r.TrueConstHasOp {
		name = refvm.Name(r.TrueConstOp)
	}
	return name + ":append-corrupts-shared-true-constant",
		name + " wrote into the VM's package-level value for true (one shared byte slice {01} that BoolBytes hands out for every comparison, CHECKSIG, CHECKPREDICATE ... result), reached through the spare capacity of a zero-length cut of a boolean result: true is now a different byte for every later execution in the process"
}

// Last returns the last hook event seen (the instruction that was executing
// when the run ended, or the End event).
func (r *RealRun) Last() *vm.VerifStep { return r.last }

func sameStack(a, b [][]byte) bool {
	if len(a) != len(b) {
		return false
	}
	for i := range a {
		if !bytes.Equal(a[i], b[i]) {
			return false
		}
	}
	return true
}

// EventDiff compares a reference event with a hook event; "" means equal,
// otherwise the kind of the first difference: control, stack, altstack, gas.
func EventDiff(r *refvm.Event, v *vm.VerifStep) string {
	switch {
	case r.End != v.End || r.Depth != v.Depth || r.PC != v.PC || (!r.End && (r.Op != byte(v.Op) || !bytes.Equal(r.Data, v.Data))):
		return "control"
	case !sameStack(r.DataStack, v.DataStack):
		return "stack"
	case !sameStack(r.AltStack, v.AltStack):
		return "altstack"
	case r.RunLimit != v.RunLimit:
		return "gas"
	}
	return ""
}

// Mismatch describes the first disagreement between the two machines.
type Mismatch struct {
	Kind    string // control, stack, altstack, gas, class, result-gas
	At      int    // index of the first differing event (or number of common events)
	Culprit byte   // opcode of the instruction held responsible
	HasOp   bool
	// state before the culprit instruction and after it, as far as known
	Before     *refvm.Event
	RefAfter   *refvm.Event
	RealAfter  *vm.VerifStep
	RefClass   refvm.Class
	RealClass  refvm.Class
	RefGas     int64
	RealGas    int64
	RealErrMsg string
}

// Compare checks event streams, class and gas.  refEvents and run.Events must
// have been recorded with the same cap.
func Compare(ref *refvm.Result, run *RealRun) *Mismatch {
	mk := func(kind string, at int) *Mismatch {
		m := &Mismatch{Kind: kind, At: at, RefClass: ref.Class, RealClass: run.Class, RefGas: ref.GasLeft, RealGas: run.GasLeft}
		if run.Err != nil {
			m.RealErrMsg = run.Err.Error()
			if len(m.RealErrMsg) > 300 {
				m.RealErrMsg = m.RealErrMsg[:300]
			}
		}
		// culprit: the last instruction announced in both streams before the difference
		for i := at - 1; i >= 0 && i < len(ref.Events); i-- {
			if !ref.Events[i].End {
				m.Culprit, m.HasOp, m.Before = ref.Events[i].Op, true, ref.Events[i]
				break
			}
		}
		if at < len(ref.Events) {
			m.RefAfter = ref.Events[at]
		}
		if at < len(run.Events) {
			m.RealAfter = run.Events[at]
		}
		return m
	}
	n := len(ref.Events)
	if len(run.Events) < n {
		n = len(run.Events)
	}
	for i := 0; i < n; i++ {
		if k := EventDiff(ref.Events[i], run.Events[i]); k != "" {
			return mk(k, i)
		}
	}
	if len(ref.Events) != len(run.Events) {
		return mk("class", n)
	}
	if ref.Class != run.Class {
		return mk("class", n)
	}
	if ref.GasLeft != run.GasLeft {
		return mk("result-gas", n)
	}
	return nil
}

var (
	one    = big.NewInt(1)
	two63  = new(big.Int).Lsh(one, 63)
	two64  = new(big.Int).Lsh(one, 64)
	two255 = new(big.Int).Lsh(one, 255)
)

// LE reads any byte string as an unsigned little-endian integer.
func LE(b []byte) *big.Int {
	be := make([]byte, len(b))
	for i, x := range b {
		be[len(b)-1-i] = x
	}
	return new(big.Int).SetBytes(be)
}

// OperandClass is the boundary class of a stack item seen as a number.
func OperandClass(b []byte, has bool) string {
	if !has {
		return "none"
	}
	if len(b) == 0 {
		return "empty"
	}
	if len(b) > 32 {
		return ">32bytes"
	}
	v := LE(b)
	suffix := ""
	if b[len(b)-1] == 0 {
		suffix = "+nonminimal"
	}
	switch {
	case v.Sign() == 0:
		return "zero-nonminimal"
	case v.Cmp(big.NewInt(16)) <= 0:
		return "1..16" + suffix
	case v.Cmp(two63) < 0:
		return "17..2^63-1" + suffix
	case v.Cmp(two64) < 0:
		return "2^63<=operand<2^64" + suffix
	case v.Cmp(two255) < 0:
		return "2^64<=operand<2^255" + suffix
	}
	return "operand>=2^255"
}

// Hex renders a stack.
func Hex(s [][]byte) string {
	parts := make([]string, len(s))
	for i, b := range s {
		parts[i] = hex.EncodeToString(b)
		if parts[i] == "" {
			parts[i] = "''"
		}
	}
	return "[" + strings.Join(parts, " ") + "]"
}

// Witness renders a mismatch for a violation record.
func (m *Mismatch) Witness(s *Spec, gasLimit int64) map[string]interface{} {
	w := map[string]interface{}{
		"program": hex.EncodeToString(s.Code), "args": Hex(s.Args), "state": Hex(s.State), "gas_limit": gasLimit,
		"kind": m.Kind, "event_index": m.At,
		"ref": fmt.Sprintf("class=%s gas=%d", m.RefClass, m.RefGas), "real": fmt.Sprintf("class=%s gas=%d err=%s", m.RealClass, m.RealGas, m.RealErrMsg),
	}
	if dis, err := vm.Disassemble(s.Code); err == nil {
		w["disassembly"] = dis
	}
	if s.TxVersion != nil {
		w["tx_version"] = *s.TxVersion
	}
	if m.HasOp {
		w["instruction"] = refvm.Name(m.Culprit)
	}
	if m.Before != nil {
		w["before"] = fmt.Sprintf("depth=%d pc=%d runlimit=%d data=%s alt=%s", m.Before.Depth, m.Before.PC, m.Before.RunLimit, Hex(m.Before.DataStack), Hex(m.Before.AltStack))
	}
	if m.RefAfter != nil {
		w["ref_after"] = fmt.Sprintf("end=%v depth=%d pc=%d runlimit=%d data=%s alt=%s", m.RefAfter.End, m.RefAfter.Depth, m.RefAfter.PC, m.RefAfter.RunLimit, Hex(m.RefAfter.DataStack), Hex(m.RefAfter.AltStack))
	}
	if m.RealAfter != nil {
		w["real_after"] = fmt.Sprintf("end=%v depth=%d pc=%d runlimit=%d data=%s alt=%s", m.RealAfter.End, m.RealAfter.Depth, m.RealAfter.PC, m.RealAfter.RunLimit, Hex(m.RealAfter.DataStack), Hex(m.RealAfter.AltStack))
	}
	return w
}

// Key gives the canonical violation key of a mismatch: known deviation classes
// get their own names, anything else is keyed by opcode, kind and operand class.
func (m *Mismatch) Key() (key, what string) {
	if !m.HasOp {
		return "before-first-instruction:" + m.Kind, "the machines disagree before any instruction ran (initial stacks or gas)"
	}
	name := refvm.Name(m.Culprit)
	var top []byte
	has := false
	if m.Before != nil && len(m.Before.DataStack) > 0 {
		top, has = m.Before.DataStack[len(m.Before.DataStack)-1], true
	}
	oc := strings.TrimSuffix(OperandClass(top, has), "+nonminimal")
	if m.RealClass == Unexpected {
		return "ErrUnexpected:" + name + ":" + oc, "a panic was recovered inside vm.Verify (ErrUnexpected) while executing " + name
	}
	switch m.Culprit {
	case byte(vm.OP_PICK), byte(vm.OP_ROLL):
		if has && len(top) <= 32 && LE(top).Cmp(two64) >= 0 && LE(top).Cmp(two255) < 0 {
			return name + ":operand>=2^64-truncated", name + " uses only the low 64 bits of its operand: an operand of 2^64 or more addresses an item although the stack is not that deep"
		}
	case byte(vm.OP_CHECKOUTPUT):
		if m.Before != nil && len(m.Before.DataStack) >= 5 {
			n := len(m.Before.DataStack)
			for _, b := range [][]byte{m.Before.DataStack[n-2], m.Before.DataStack[n-5]} {
				if len(b) <= 32 && LE(b).Cmp(two64) >= 0 && LE(b).Cmp(two255) < 0 {
					return name + ":operand>=2^64-truncated", "CHECKOUTPUT uses only the low 64 bits of its index / vm version operand"
				}
			}
		}
	case byte(vm.OP_CAT), byte(vm.OP_CATPUSHDATA):
		if (m.Kind == "stack" || m.Kind == "altstack") && m.RefAfter != nil && m.RealAfter != nil && aliasSignature(m.RefAfter, m.RealAfter) {
			return name + ":append-aliases-spare-capacity", name + " appended into the spare capacity of its first operand's buffer and overwrote bytes of another stack item"
		}
	}
	detail := m.Kind
	if m.Kind == "class" {
		detail = fmt.Sprintf("class(ref=%s,real=%s)", m.RefClass, m.RealClass)
	}
	return name + ":" + detail + ":" + oc, fmt.Sprintf("%s: reference and implementation disagree (%s)", name, detail)
}

// ClassOnlyPositionTolerated: PICK or ROLL with a position of 2^63 or more fails in both machines with the
// same gas and identical event streams, one calling it a bad value and the other an underflow.
func (m *Mismatch) ClassOnlyPositionTolerated() bool {
	if m.Kind != "class" || !m.HasOp || (m.Culprit != byte(vm.OP_PICK) && m.Culprit != byte(vm.OP_ROLL)) || m.RefGas != m.RealGas {
		return false
	}
	if m.RefAfter != nil || m.RealAfter != nil || m.Before == nil || len(m.Before.DataStack) == 0 {
		return false
	}
	fail := func(c refvm.Class) bool { return c == refvm.BadValue || c == refvm.Underflow }
	top := m.Before.DataStack[len(m.Before.DataStack)-1]
	return fail(m.RefClass) && fail(m.RealClass) && len(top) <= 32 && LE(top).Cmp(two63) >= 0 && LE(top).Cmp(two255) < 0
}

// AliasSignature reports whether a stack difference after CAT/CATPUSHDATA looks
// like a write through a shared buffer (see aliasSignature).
func (m *Mismatch) AliasSignature() bool {
	return (m.Kind == "stack" || m.Kind == "altstack") && m.RefAfter != nil && m.RealAfter != nil && aliasSignature(m.RefAfter, m.RealAfter)
}

func isCat(op byte) bool { return op == byte(vm.OP_CAT) || op == byte(vm.OP_CATPUSHDATA) }

// AliasText describes the CAT / CATPUSHDATA defect.
const AliasText = "append() into the spare capacity of the first operand's buffer: bytes that belong to another stack item or to the caller were overwritten"

// AliasKey is the canonical key of that defect.
func AliasKey(op byte) string { return refvm.Name(op) + ":append-aliases-spare-capacity" }

// LaterAliasDamage recognises damage of an earlier CAT / CATPUSHDATA that only
// shows at this mismatch: stacks of equal shape whose bytes differ, where the
// write was done by a child frame to items its parent kept (seen once the
// parent runs again) or to a byte string of the context (asset id, entry id,
// output id, cached signature hash, program) that an introspection instruction
// pushes again.
func (m *Mismatch) LaterAliasDamage(refEvents []*refvm.Event) (op byte, ok bool) {
	if !m.AliasSignatureLoose() {
		return 0, false
	}
	repush := false
	if m.HasOp {
		switch vm.Op(m.Culprit) {
		case vm.OP_ASSET, vm.OP_ENTRYID, vm.OP_OUTPUTID, vm.OP_TXSIGHASH, vm.OP_PROGRAM:
			repush = true
		}
	}
	for i := 0; i < m.At && i < len(refEvents); i++ {
		if e := refEvents[i]; !e.End && isCat(e.Op) && (e.Depth > m.RefAfter.Depth || repush) {
			op, ok = e.Op, true
		}
	}
	return op, ok
}

// KeyWithHistory is Key, with damage of an earlier CAT / CATPUSHDATA attributed to it.
func (m *Mismatch) KeyWithHistory(refEvents []*refvm.Event) (key, what string) {
	if m.HasOp && isCat(m.Culprit) && m.AliasSignature() {
		return AliasKey(m.Culprit), AliasText
	}
	if op, ok := m.LaterAliasDamage(refEvents); ok {
		return AliasKey(op), AliasText + " (the damage became visible at a later instruction)"
	}
	return m.Key()
}

// AliasSignatureLoose: both machines have stacks of the same shape (same number
// of items, same lengths) and only bytes differ: the look of a write through a
// shared buffer, whichever item was hit.
func (m *Mismatch) AliasSignatureLoose() bool {
	if (m.Kind != "stack" && m.Kind != "altstack") || m.RefAfter == nil || m.RealAfter == nil {
		return false
	}
	r, v := m.RefAfter, m.RealAfter
	if len(r.DataStack) != len(v.DataStack) || len(r.AltStack) != len(v.AltStack) {
		return false
	}
	for i := range r.DataStack {
		if len(r.DataStack[i]) != len(v.DataStack[i]) {
			return false
		}
	}
	for i := range r.AltStack {
		if len(r.AltStack[i]) != len(v.AltStack[i]) {
			return false
		}
	}
	return true
}

// aliasSignature: the result of the instruction (top item) is right, stack
// shapes agree, and some *other* item changed its bytes.
func aliasSignature(r *refvm.Event, v *vm.VerifStep) bool {
	if len(r.DataStack) != len(v.DataStack) || len(r.AltStack) != len(v.AltStack) || len(r.DataStack) == 0 {
		return false
	}
	n := len(r.DataStack)
	if !bytes.Equal(r.DataStack[n-1], v.DataStack[n-1]) {
		return false
	}
	for i := 0; i < n-1; i++ {
		if len(r.DataStack[i]) != len(v.DataStack[i]) {
			return false
		}
	}
	for i := range r.AltStack {
		if len(r.AltStack[i]) != len(v.AltStack[i]) {
			return false
		}
	}
	return true
}
