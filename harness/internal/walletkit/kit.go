// Package walletkit drives a real bytom wallet (account manager + walletUpdater)
// that follows a real chainkit node, for the wallet-level monitors C24 / C25.
//
// The harness owns the root keys of the wallet accounts: accounts are created
// from xpubs (no HSM, no scrypt), control programs through the account manager,
// and spends / vetoes of wallet-owned outputs are signed with the derived keys.
package walletkit

import (
	"bytes"
	"context"
	"encoding/hex"
	"encoding/json"
	"fmt"
	"os"
	"sort"
	"strings"
	"time"

	"github.com/bytom/bytom/account"
	"github.com/bytom/bytom/asset"
	"github.com/bytom/bytom/blockchain/signers"
	"github.com/bytom/bytom/blockchain/txbuilder"
	"github.com/bytom/bytom/consensus"
	"github.com/bytom/bytom/contract"
	"github.com/bytom/bytom/crypto"
	"github.com/bytom/bytom/crypto/ed25519/chainkd"
	dbm "github.com/bytom/bytom/database/leveldb"
	"github.com/bytom/bytom/errors"
	"github.com/bytom/bytom/protocol/bc"
	"github.com/bytom/bytom/protocol/bc/types"
	"github.com/bytom/bytom/protocol/vm/vmutil"
	"github.com/bytom/bytom/wallet"

	"verif/internal/chainkit"
)

// Fee of harness transactions that carry signatures (gas = fee/200, ample for 4 CHECKSIGs).
const Fee = uint64(6000000)

// Env is the process-wide setup: one verification network and genesis per process.
type Env struct {
	Net   *chainkit.Net
	G     *chainkit.Genesis
	Roots []chainkd.XPrv // root key of wallet account i
}

// Setup installs the verification network used by the wallet monitors.  The
// validator threshold is out of reach, so the federation proposes every block
// and wallet vote outputs never change the validator set.
func Setup() *Env {
	net := chainkit.Configure(chainkit.Params{Epoch: 4, Fed: 3, Local: -1, VotePending: 3, NKeys: 6, MinVote: 1 << 60})
	e := &Env{Net: net, G: newGenesis(28, 6)}
	for i := 0; i < 2; i++ {
		e.Roots = append(e.Roots, chainkd.RootXPrv([]byte(fmt.Sprintf("verif-wallet-account-%d", i))))
	}
	return e
}

// Prog is a control program of the wallet together with what the harness (not
// the wallet) knows about it: the owning account and the signing key.
type Prog struct {
	Account   int    // account index
	Alias     string // account alias
	AccountID string
	CP        *account.CtrlProgram
	Prv       chainkd.XPrv
	Pub       []byte
	Hex       string
}

// Wallet is a real wallet following the chain of a real node.
type Wallet struct {
	Env      *Env
	Dir      string
	DB       dbm.DB
	Mgr      *account.Manager
	W        *wallet.Wallet
	Node     *chainkit.Node
	Accounts []*account.Account
	Progs    []*Prog
	ByProg   map[string]*Prog
}

// addresses created per account: (change flag) in creation order
var addrPlan = [][]bool{{false, false, true, false, true}, {false, true, false}}

// OpenWallet creates the wallet store under dir, the accounts and their
// addresses, and starts a wallet that follows nd's chain.
func OpenWallet(e *Env, nd *chainkit.Node, dir string) (*Wallet, error) {
	if err := os.MkdirAll(dir, 0o755); err != nil {
		return nil, err
	}
	w := &Wallet{Env: e, Dir: dir, Node: nd, ByProg: map[string]*Prog{}}
	w.DB = chainkit.OpenSafeDB("wallet", dir)
	w.Mgr = account.NewManager(w.DB, nd.Chain)
	for i, root := range e.Roots {
		acc, err := w.Mgr.Create([]chainkd.XPub{root.XPub()}, 1, fmt.Sprintf("acct%d", i), signers.BIP0044)
		if err != nil {
			w.DB.Close()
			return nil, fmt.Errorf("create account: %v", err)
		}
		w.Accounts = append(w.Accounts, acc)
		for _, change := range addrPlan[i] {
			cp, err := w.Mgr.CreateAddress(acc.ID, change)
			if err != nil {
				w.DB.Close()
				return nil, fmt.Errorf("create address: %v", err)
			}
			path, err := signers.Path(acc.Signer, signers.AccountKeySpace, cp.Change, cp.KeyIndex)
			if err != nil {
				w.DB.Close()
				return nil, err
			}
			child := root.Derive(path)
			pub := child.XPub().PublicKey()
			want, err := vmutil.P2WPKHProgram(crypto.Ripemd160(pub))
			if err != nil || !bytes.Equal(want, cp.ControlProgram) {
				w.DB.Close()
				return nil, fmt.Errorf("derived key does not match the control program of %s/%d", acc.Alias, cp.KeyIndex)
			}
			p := &Prog{Account: i, Alias: acc.Alias, AccountID: acc.ID, CP: cp, Prv: child, Pub: []byte(pub), Hex: hex.EncodeToString(cp.ControlProgram)}
			w.Progs = append(w.Progs, p)
			w.ByProg[p.Hex] = p
		}
	}
	if err := w.start(); err != nil {
		w.DB.Close()
		return nil, err
	}
	return w, nil
}

func (w *Wallet) start() error {
	ww, err := wallet.NewWallet(w.DB, w.Mgr, asset.NewRegistry(w.DB, w.Node.Chain), contract.NewRegistry(w.DB), nil, w.Node.Chain, w.Node.Disp, false)
	if err != nil {
		return fmt.Errorf("NewWallet: %v", err)
	}
	w.W = ww
	return nil
}

// Restart simulates a restart of the wallet process: the persisted wallet store
// is copied to dir and a new account manager + wallet are started on the copy
// (the goroutines of the old wallet cannot be stopped; they keep their own store
// and therefore cannot interfere).  The new wallet loads the persisted status and
// its updater walks from there to the chain's current best block.
func (w *Wallet) Restart(dir string) (*Wallet, error) {
	if err := os.MkdirAll(dir, 0o755); err != nil {
		return nil, err
	}
	n := &Wallet{Env: w.Env, Dir: dir, Node: w.Node, Accounts: w.Accounts, Progs: w.Progs, ByProg: w.ByProg}
	n.DB = chainkit.OpenSafeDB("wallet", dir)
	it := w.DB.Iterator()
	for it.Next() {
		n.DB.Set(append([]byte{}, it.Key()...), append([]byte{}, it.Value()...))
	}
	it.Release()
	n.Mgr = account.NewManager(n.DB, w.Node.Chain)
	if err := n.start(); err != nil {
		n.DB.Close()
		return nil, err
	}
	return n, nil
}

// Close releases the store (the wallet's goroutines stay parked).
func (w *Wallet) Close() {
	w.DB.Close()
	os.RemoveAll(w.Dir)
}

// SyncState is the outcome of waiting for the wallet updater.
type SyncState int

const (
	Synced   SyncState = iota // wallet best == work == chain best
	Lagging                   // the chain moved to a block that is not higher than the wallet's work height: the updater is not woken
	TimedOut                  // watchdog
)

// Sync waits on the logical condition "wallet status == chain best".  With
// allowLag, a wallet whose updater is parked in BlockWaiter(workHeight+1) while
// the chain's best height is <= workHeight is reported as Lagging at once (it
// cannot move before a higher block arrives).
func (w *Wallet) Sync(allowLag bool) SyncState {
	deadline := time.Now().Add(60 * time.Second)
	for i := 0; ; i++ {
		h, best := w.Node.Chain.BestChain()
		st := w.W.GetWalletStatusInfo()
		if st.BestHash == best && st.WorkHash == best {
			return Synced
		}
		if allowLag && h <= st.WorkHeight {
			return Lagging
		}
		if time.Now().After(deadline) {
			return TimedOut
		}
		if i < 200 {
			time.Sleep(50 * time.Microsecond)
		} else {
			time.Sleep(time.Millisecond)
		}
	}
}

// Records reads the raw UTXO records of the wallet store: standard (ACU:) and contract (SCU:).
func (w *Wallet) Records() (std, con []*account.UTXO, undecodable int) {
	for k, pfx := range []string{account.UTXOPreFix, account.SUTXOPrefix} {
		it := w.DB.IteratorPrefix([]byte(pfx))
		for it.Next() {
			u := &account.UTXO{}
			if err := json.Unmarshal(it.Value(), u); err != nil {
				undecodable++
				continue
			}
			if k == 0 {
				std = append(std, u)
			} else {
				con = append(con, u)
			}
		}
		it.Release()
	}
	sortUtxos(std)
	sortUtxos(con)
	return
}

func sortUtxos(us []*account.UTXO) {
	sort.Slice(us, func(i, j int) bool { return bytes.Compare(us[i].OutputID.Bytes(), us[j].OutputID.Bytes()) < 0 })
}

// Usable asks the wallet itself whether it would hand out the output for
// spending now: the real spend-UTXO build action (utxoKeeper.ReserveParticular,
// with its maturity test against the chain's best height).  The reservation is
// rolled back at once.  class is "" when usable, else the refusal class.
func (w *Wallet) Usable(id bc.Hash) (usable bool, class string) { return w.UsableWith(id, false) }

// UsableWith is Usable with the action's use_unconfirmed flag.
func (w *Wallet) UsableWith(id bc.Hash, useUnconfirmed bool) (usable bool, class string) {
	act, err := w.Mgr.DecodeSpendUTXOAction([]byte(fmt.Sprintf(`{"output_id":"%s","use_unconfirmed":%v}`, id.String(), useUnconfirmed)))
	if err != nil {
		return false, "decode-action"
	}
	b := txbuilder.NewBuilder(time.Now().Add(time.Hour))
	err = act.Build(context.Background(), b)
	b.Rollback()
	if err == nil {
		return true, ""
	}
	switch errors.Root(err) {
	case account.ErrImmature:
		return false, "immature"
	case account.ErrReserved:
		return false, "reserved"
	case account.ErrMatchUTXO:
		return false, "no-such-utxo"
	}
	s := err.Error()
	if len(s) > 40 {
		s = s[:40]
	}
	return false, "other:" + s
}

// VetoSelects asks the wallet's account-level veto action (utxoKeeper.Reserve over the vote outputs of the
// account for that key) for amount and returns the outputs it selected; the reservation is rolled back at once.
func (w *Wallet) VetoSelects(accountID string, vote []byte, amount uint64, useUnconfirmed bool) (ids []bc.Hash, class string) {
	act, err := w.Mgr.DecodeVetoAction([]byte(fmt.Sprintf(`{"account_id":"%s","asset_id":"%s","amount":%d,"vote":"%x","use_unconfirmed":%v}`,
		accountID, consensus.BTMAssetID.String(), amount, vote, useUnconfirmed)))
	if err != nil {
		return nil, "decode-action:" + err.Error()
	}
	b := txbuilder.NewBuilder(time.Now().Add(time.Hour))
	err = act.Build(context.Background(), b)
	if err == nil {
		if tpl, _, berr := b.Build(); berr == nil {
			for _, in := range tpl.Transaction.Inputs {
				if id, err := in.SpentOutputID(); err == nil {
					ids = append(ids, id)
				}
			}
		}
	}
	b.Rollback()
	if err == nil {
		return ids, ""
	}
	switch errors.Root(err) {
	case account.ErrImmature:
		return nil, "immature"
	case account.ErrReserved:
		return nil, "reserved"
	case account.ErrInsufficient:
		return nil, "insufficient"
	}
	return nil, "other"
}

// Owner returns the wallet program paying prog, or nil.
func (w *Wallet) Owner(prog []byte) *Prog { return w.ByProg[hex.EncodeToString(prog)] }

// SignedTx spends ins into outs; inputs locked by wallet programs get the
// P2WPKH witness [signature, public key] made with the derived key.
func (w *Wallet) SignedTx(ins []*chainkit.UTXO, outs []chainkit.Out) *types.Tx {
	d := &types.TxData{Version: 1}
	for _, u := range ins {
		d.Inputs = append(d.Inputs, chainkit.Input(u, nil))
	}
	for _, o := range outs {
		st := o.State
		if st == nil {
			st = [][]byte{}
		}
		if o.Vote != nil {
			d.Outputs = append(d.Outputs, types.NewVoteOutput(o.Asset, o.Amount, o.Program, o.Vote, st))
		} else {
			d.Outputs = append(d.Outputs, types.NewOriginalTxOutput(o.Asset, o.Amount, o.Program, st))
		}
	}
	tmp := types.NewTx(*d)
	for i, u := range ins {
		if p := w.Owner(u.Program); p != nil {
			h := tmp.SigHash(uint32(i))
			d.Inputs[i].SetArguments([][]byte{p.Prv.Sign(h.Bytes()), p.Pub})
		}
	}
	return chainkit.Finish(d)
}

// CoinbaseTo builds the coinbase of the block after p whose first output pays
// own (so that the block's reward accrues to own), honouring the reward table
// the reference model requires at an epoch start.
func CoinbaseTo(net *chainkit.Net, p *chainkit.Blk, own []byte, nonce int) *types.Tx {
	rewards := net.ExpectedCoinbase(p)
	ownHex := hex.EncodeToString(own)
	d := &types.TxData{Version: 1, Inputs: []*types.TxInput{types.NewCoinbaseInput([]byte(fmt.Sprintf("\x00%d/w%d", p.Height+1, nonce)))}}
	d.Outputs = append(d.Outputs, types.NewOriginalTxOutput(chainkit.BTM, rewards[ownHex], own, [][]byte{}))
	var progs []string
	for k := range rewards {
		if k != ownHex {
			progs = append(progs, k)
		}
	}
	sort.Strings(progs)
	for _, k := range progs {
		pb, _ := hex.DecodeString(k)
		d.Outputs = append(d.Outputs, types.NewOriginalTxOutput(chainkit.BTM, rewards[k], pb, [][]byte{}))
	}
	return chainkit.Finish(d)
}

// Exp is an output the wallet must hold according to the scan of the main chain.
type Exp struct {
	U      *chainkit.UTXO
	Type   chainkit.UType
	Height uint64 // creation height
	Prog   *Prog
}

// Scan walks the main chain genesis..best block by block and returns the
// unspent outputs that pay a wallet program: the independent oracle of C24.
func (w *Wallet) Scan(best *chainkit.Blk) map[bc.Hash]*Exp {
	set := map[bc.Hash]*Exp{}
	for _, b := range best.Path() {
		for ti, tx := range b.B.Transactions {
			for _, in := range tx.Inputs {
				if id, err := in.SpentOutputID(); err == nil {
					delete(set, id)
				}
			}
			for _, u := range chainkit.Outputs(tx) {
				p := w.Owner(u.Program)
				if p == nil || u.Amount == 0 {
					continue
				}
				typ := chainkit.UNormal
				if u.Vote != nil {
					typ = chainkit.UVote
				}
				if ti == 0 {
					typ = chainkit.UCoinbase
				}
				set[u.ID] = &Exp{U: u, Type: typ, Height: b.Height, Prog: p}
			}
		}
	}
	return set
}

// OutInfo is what the harness knows about an output id of the tree.
type OutInfo struct {
	U       *chainkit.UTXO
	Type    chainkit.UType
	Created *chainkit.Blk
	SpentIn []*chainkit.Blk
}

// Index maps every output id created in the tree to its creation and spending blocks.
type Index struct {
	Out  map[bc.Hash]*OutInfo
	seen map[bc.Hash]bool
}

// NewIndex builds the index of a tree.
func NewIndex(t *chainkit.Tree) *Index {
	ix := &Index{Out: map[bc.Hash]*OutInfo{}, seen: map[bc.Hash]bool{}}
	ix.Update(t)
	return ix
}

// Update adds blocks built since the last call.
func (ix *Index) Update(t *chainkit.Tree) {
	for _, b := range t.All {
		if ix.seen[b.Hash] {
			continue
		}
		ix.seen[b.Hash] = true
		for ti, tx := range b.B.Transactions {
			for _, u := range chainkit.Outputs(tx) {
				if _, ok := ix.Out[u.ID]; ok {
					continue
				}
				typ := chainkit.UNormal
				if u.Vote != nil {
					typ = chainkit.UVote
				}
				if ti == 0 {
					typ = chainkit.UCoinbase
				}
				ix.Out[u.ID] = &OutInfo{U: u, Type: typ, Created: b}
			}
		}
	}
	// spends (second pass: an output may be created by a block indexed in this call)
	for _, b := range t.All {
		for _, tx := range b.B.Transactions {
			for _, in := range tx.Inputs {
				id, err := in.SpentOutputID()
				if err != nil {
					continue
				}
				if oi := ix.Out[id]; oi != nil {
					dup := false
					for _, x := range oi.SpentIn {
						if x.Hash == b.Hash {
							dup = true
						}
					}
					if !dup {
						oi.SpentIn = append(oi.SpentIn, b)
					}
				}
			}
		}
	}
}

// Describe returns a short human description of an output for witnesses.
func (ix *Index) Describe(id bc.Hash, best *chainkit.Blk) map[string]interface{} {
	oi := ix.Out[id]
	if oi == nil {
		return map[string]interface{}{"output": id.String(), "known": false}
	}
	m := map[string]interface{}{"output": id.String(), "type": oi.Type.String(), "amount": oi.U.Amount,
		"created_in": BlkName(oi.Created), "creating_block_on_main_chain": oi.Created.IsAncestorOf(best)}
	var sp []string
	for _, b := range oi.SpentIn {
		s := BlkName(b)
		if b.IsAncestorOf(best) {
			s += "(main)"
		} else {
			s += "(off-main)"
		}
		sp = append(sp, s)
	}
	m["spent_in"] = sp
	return m
}

// BlkName is "h<height>:<hash prefix>".
func BlkName(b *chainkit.Blk) string {
	if b == nil {
		return "nil"
	}
	return fmt.Sprintf("h%d:%s", b.Height, chainkit.HashShort(b.Hash))
}

// Names lists block names.
func Names(bs []*chainkit.Blk) string {
	var s []string
	for _, b := range bs {
		s = append(s, BlkName(b))
	}
	return strings.Join(s, " ")
}

// newGenesis is chainkit's genesis (a coinbase plus a funding transaction whose
// ordinary outputs are spendable from height 1) except that the funding
// transaction carries an input: the wallet's attach code indexes Inputs[0] of
// every transaction, and a transaction without inputs cannot occur on a real chain.
func newGenesis(nFunds, nOther int) *chainkit.Genesis {
	cb := chainkit.Finish(&types.TxData{Version: 1, Inputs: []*types.TxInput{types.NewCoinbaseInput([]byte("verif genesis"))},
		Outputs: []*types.TxOutput{types.NewOriginalTxOutput(chainkit.BTM, 0, chainkit.TrueProg, [][]byte{})}})
	fd := &types.TxData{Version: 1, Inputs: []*types.TxInput{types.NewCoinbaseInput([]byte("verif genesis funds"))}}
	for i := 0; i < nFunds; i++ {
		fd.Outputs = append(fd.Outputs, types.NewOriginalTxOutput(chainkit.BTM, chainkit.FundAmount, []byte{0x01, byte(i), 0x75, 0x51}, [][]byte{}))
	}
	for i := 0; i < nOther; i++ {
		fd.Outputs = append(fd.Outputs, types.NewOriginalTxOutput(chainkit.AssetN(i%3), 1000000+uint64(i), chainkit.TrueProg, [][]byte{}))
	}
	fund := chainkit.Finish(fd)
	b := &types.Block{BlockHeader: types.BlockHeader{Version: 1, Height: 0, Timestamp: chainkit.GenesisTime}, Transactions: []*types.Tx{cb, fund}}
	root, err := types.TxMerkleRoot([]*bc.Tx{cb.Tx, fund.Tx})
	if err != nil {
		panic(err)
	}
	b.TransactionsMerkleRoot = root
	g := &chainkit.Genesis{Block: b}
	blk := &chainkit.Blk{B: b, Hash: b.Hash(), Height: 0, Proposer: -1, Utxo: map[bc.Hash]*chainkit.RefUtxo{}, Contracts: map[[32]byte][]byte{}, Votes: map[string]uint64{}, Rewards: map[string]uint64{}}
	for _, u := range chainkit.Outputs(fund) {
		blk.Utxo[u.ID] = &chainkit.RefUtxo{U: u, Type: chainkit.UNormal, Height: 0}
		if u.Asset == chainkit.BTM {
			g.Funds = append(g.Funds, u)
		} else {
			g.Other = append(g.Other, u)
		}
	}
	g.Blk = blk
	return g
}
