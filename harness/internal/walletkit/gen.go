package walletkit

import (
	"github.com/bytom/bytom/consensus"
	"github.com/bytom/bytom/protocol/bc"
	"github.com/bytom/bytom/protocol/bc/types"

	"verif/internal/chainkit"
	"verif/internal/ev"
)

// Gen builds blocks whose transactions involve the wallet: receipts (normal,
// vote, other-asset outputs to wallet programs), signed spends, vetoes at the
// lock boundary, spends of matured coinbase rewards, chained spends inside a
// block, and coinbases whose reward accrues to a wallet program.
type Gen struct {
	W     *Wallet
	Tree  *chainkit.Tree
	R     *ev.Rand
	nonce int

	MaxTxs      int
	CoinbasePct int              // percent of blocks whose coinbase pays a wallet program
	Reserved    map[bc.Hash]bool // outputs the random generator must not spend (scripted use)

	// what was generated (per history), for counters
	Stats map[string]int
}

// NewGen returns a generator over a tree.
func NewGen(w *Wallet, t *chainkit.Tree, r *ev.Rand) *Gen {
	return &Gen{W: w, Tree: t, R: r, MaxTxs: 3, CoinbasePct: 60, Reserved: map[bc.Hash]bool{}, Stats: map[string]int{}}
}

func (g *Gen) walletProg() *Prog { return g.W.Progs[g.R.Intn(len(g.W.Progs))] }

type pools struct {
	funds, extOther, wNormal, wOther, wVote, wCoinbase []*chainkit.RefUtxo
}

func (g *Gen) pools(p *chainkit.Blk) *pools {
	net := g.W.Env.Net
	h := p.Height + 1
	ps := &pools{}
	for _, u := range p.SortedUtxos() {
		if g.Reserved[u.U.ID] || !net.Spendable(u, h) {
			continue
		}
		own := g.W.Owner(u.U.Program)
		switch {
		case own == nil && u.U.Asset == chainkit.BTM:
			if u.U.Amount > 1000*Fee {
				ps.funds = append(ps.funds, u)
			}
		case own == nil:
			ps.extOther = append(ps.extOther, u)
		case u.Type == chainkit.UVote:
			ps.wVote = append(ps.wVote, u)
		case u.Type == chainkit.UCoinbase:
			ps.wCoinbase = append(ps.wCoinbase, u)
		case u.U.Asset == chainkit.BTM:
			ps.wNormal = append(ps.wNormal, u)
		default:
			ps.wOther = append(ps.wOther, u)
		}
	}
	return ps
}

// Txs generates ledger-valid wallet-related transactions for the block after p.
// scripted transactions (already built by the caller) come first in the block;
// their inputs must be in g.Reserved.
func (g *Gen) Txs(p *chainkit.Blk, maxTxs int) []*types.Tx {
	r := g.R
	net := g.W.Env.Net
	h := p.Height + 1
	ps := g.pools(p)
	used := map[bc.Hash]bool{}
	take := func(pool []*chainkit.RefUtxo) *chainkit.RefUtxo {
		var fresh []*chainkit.RefUtxo
		for _, u := range pool {
			if !used[u.U.ID] && u.Type != chainkit.UNormal && net.EarliestSpend(u) == h {
				fresh = append(fresh, u)
			}
		}
		if len(fresh) > 0 && r.Chance(3, 4) {
			u := fresh[r.Intn(len(fresh))]
			used[u.U.ID] = true
			return u
		}
		for tries := 0; tries < 8 && len(pool) > 0; tries++ {
			u := pool[r.Intn(len(pool))]
			if !used[u.U.ID] {
				used[u.U.ID] = true
				return u
			}
		}
		return nil
	}
	var txs []*types.Tx
	var freshW []*chainkit.UTXO // wallet-owned normal BTM outputs created in this block
	ntx := 0
	if maxTxs > 0 {
		ntx = r.Intn(maxTxs + 1)
	}
	for i := 0; i < ntx; i++ {
		var ins []*chainkit.UTXO
		chained := false
		if len(freshW) > 0 && r.Chance(1, 3) {
			k := r.Intn(len(freshW))
			ins = append(ins, freshW[k])
			freshW = append(freshW[:k], freshW[k+1:]...)
			chained = true
		}
		haveW := len(ps.wNormal)+len(ps.wOther)+len(ps.wVote)+len(ps.wCoinbase) > 0
		spend := chained || (haveW && r.Chance(3, 5))
		if spend {
			// prefer vetoes / coinbase spends when available: they are the constrained ones
			n := 1 + r.Intn(2)
			if chained {
				n = r.Intn(2)
			}
			for k := 0; k < n; k++ {
				var order [][]*chainkit.RefUtxo
				switch r.Intn(6) {
				case 0, 1:
					order = [][]*chainkit.RefUtxo{ps.wVote, ps.wCoinbase, ps.wNormal, ps.wOther}
				case 2, 3:
					order = [][]*chainkit.RefUtxo{ps.wCoinbase, ps.wVote, ps.wNormal, ps.wOther}
				case 4:
					order = [][]*chainkit.RefUtxo{ps.wNormal, ps.wVote, ps.wOther, ps.wCoinbase}
				default:
					order = [][]*chainkit.RefUtxo{ps.wOther, ps.wNormal, ps.wVote, ps.wCoinbase}
				}
				for _, pool := range order {
					if u := take(pool); u != nil {
						ins = append(ins, u.U)
						switch u.Type {
						case chainkit.UVote:
							g.Stats["gen_vetoes"]++
						case chainkit.UCoinbase:
							g.Stats["gen_coinbase_spends"]++
						default:
							g.Stats["gen_spends"]++
						}
						break
					}
				}
			}
			if chained {
				g.Stats["gen_chained_spends"]++
			}
		}
		var btm uint64
		for _, u := range ins {
			if u.Asset == chainkit.BTM {
				btm += u.Amount
			}
		}
		if btm < 2*Fee {
			f := take(ps.funds)
			if f == nil {
				if len(ins) == 0 {
					break
				}
				continue
			}
			ins = append(ins, f.U)
		}
		if !spend && len(ps.extOther) > 0 && r.Chance(1, 3) {
			if u := take(ps.extOther); u != nil {
				ins = append(ins, u.U)
			}
		}
		if len(ins) == 0 {
			break
		}
		tx := g.W.SignedTx(ins, g.outsFor(ins, !spend))
		txs = append(txs, tx)
		for _, u := range chainkit.Outputs(tx) {
			if u.Vote == nil && u.Asset == chainkit.BTM && g.W.Owner(u.Program) != nil {
				freshW = append(freshW, u)
			}
		}
	}
	return txs
}

// outsFor distributes the inputs' value: other assets pass through (to a wallet
// program or outside), BTM pays the fee and goes to wallet normal / vote outputs
// and outside change.
func (g *Gen) outsFor(ins []*chainkit.UTXO, receive bool) []chainkit.Out {
	r := g.R
	net := g.W.Env.Net
	sums := map[bc.AssetID]uint64{}
	var order []bc.AssetID
	for _, u := range ins {
		if _, ok := sums[u.Asset]; !ok {
			order = append(order, u.Asset)
		}
		sums[u.Asset] += u.Amount
	}
	var outs []chainkit.Out
	for _, a := range order {
		if a == chainkit.BTM {
			continue
		}
		prog := chainkit.RandProg(r)
		if receive || r.Bool() {
			prog = g.walletProg().CP.ControlProgram
			g.Stats["gen_other_asset_receipts"]++
		}
		outs = append(outs, chainkit.Out{Asset: a, Amount: sums[a], Program: prog})
	}
	left := sums[chainkit.BTM] - Fee - uint64(r.Intn(1000))
	nW := r.Intn(3)
	if receive {
		nW = 1 + r.Intn(3)
	}
	for k := 0; k < nW; k++ {
		if r.Chance(2, 5) {
			amt := consensus.MinVoteOutputAmount * uint64(1+r.Intn(3))
			if left > amt+consensus.MinVoteOutputAmount {
				outs = append(outs, chainkit.Out{Asset: chainkit.BTM, Amount: amt, Program: g.walletProg().CP.ControlProgram, Vote: net.VoteKey(r.Intn(net.P.NKeys))})
				left -= amt
				g.Stats["gen_vote_receipts"]++
				continue
			}
		}
		amt := uint64(1+r.Intn(40)) * 100000000
		if left > amt+consensus.MinVoteOutputAmount {
			outs = append(outs, chainkit.Out{Asset: chainkit.BTM, Amount: amt, Program: g.walletProg().CP.ControlProgram})
			left -= amt
			g.Stats["gen_normal_receipts"]++
		}
	}
	if left > 0 {
		prog := chainkit.RandProg(r)
		if !receive && r.Chance(1, 3) {
			prog = g.walletProg().CP.ControlProgram
			g.Stats["gen_normal_receipts"]++
		}
		outs = append(outs, chainkit.Out{Asset: chainkit.BTM, Amount: left, Program: prog})
	}
	return outs
}

// Block builds one block on p: scripted transactions first, then random ones.
// walletCoinbase: nil = decide randomly; else the program the coinbase must pay (wallet) or not.
func (g *Gen) Block(p *chainkit.Blk, scripted []*types.Tx, maxTxs int, skipSlots int, coinbaseProg []byte) (*chainkit.Blk, error) {
	txs := append([]*types.Tx{}, scripted...)
	txs = append(txs, g.Txs(p, maxTxs)...)
	bo := chainkit.BlockOpt{SkipSlots: skipSlots}
	if coinbaseProg == nil && g.R.Intn(100) < g.CoinbasePct {
		coinbaseProg = g.walletProg().CP.ControlProgram
	}
	if coinbaseProg != nil {
		g.nonce++
		bo.Coinbase = CoinbaseTo(g.W.Env.Net, p, coinbaseProg, g.nonce)
		g.Stats["gen_wallet_coinbase_blocks"]++
	}
	return g.Tree.Build(p, txs, bo)
}

// GrowOpt controls random tree growth.
type GrowOpt struct {
	Blocks  int
	ForkPct int
	NearTop uint64 // forks start at most this many blocks below the best height (0 = anywhere)
}

// Grow adds random blocks to the tree: mostly extending one of the highest tips,
// sometimes forking off a recent (or any) block.
func (g *Gen) Grow(o GrowOpt) error {
	r := g.R
	t := g.Tree
	for i := 0; i < o.Blocks; i++ {
		var best *chainkit.Blk
		for _, b := range t.All {
			if best == nil || b.Height > best.Height {
				best = b
			}
		}
		var p *chainkit.Blk
		if r.Intn(100) >= o.ForkPct {
			var tips []*chainkit.Blk
			for _, b := range t.Tips() {
				if b.Height+2 >= best.Height {
					tips = append(tips, b)
				}
			}
			p = tips[r.Intn(len(tips))]
		} else {
			var cands []*chainkit.Blk
			deep := r.Chance(1, 5)
			for _, b := range t.All {
				if len(b.Children) >= 3 {
					continue
				}
				if !deep && o.NearTop > 0 && b.Height+o.NearTop < best.Height {
					continue
				}
				cands = append(cands, b)
			}
			if len(cands) == 0 {
				p = best
			} else {
				p = cands[r.Intn(len(cands))]
			}
		}
		skip := 0
		if r.Chance(1, 5) {
			skip = 1 + r.Intn(3)
		}
		if _, err := g.Block(p, nil, g.MaxTxs, skip, nil); err != nil {
			return err
		}
	}
	return nil
}
