package walletkit

import (
	"fmt"
	"github.com/bytom/bytom/wallet"
	"path/filepath"
	"sort"
	"time"

	"github.com/bytom/bytom/account"
	"github.com/bytom/bytom/protocol"
	"github.com/bytom/bytom/protocol/bc"
	"github.com/bytom/bytom/protocol/bc/types"

	"verif/internal/chainkit"
	"verif/internal/ev"
)

// Point is a quiescent point: the wallet updater has caught up with the chain.
type Point struct {
	C     *ev.Case
	S     *Session
	W     *Wallet
	Best  *chainkit.Blk // the node's best block = tip of the main chain (with the reference ledger state)
	Step  int
	Final bool

	From     *chainkit.Blk   // where the wallet was at the previous quiescent point
	Detached []*chainkit.Blk // blocks the wallet had to detach to get here (tip first)
	Attached []*chainkit.Blk // blocks it had to attach (lowest first)
	Restart  bool            // the walk was performed by a restarted wallet

	Std, Con    []*account.UTXO // raw records of the wallet store
	Undecodable int
	Expected    map[bc.Hash]*Exp

	// PoolHeld: outputs created by transactions that the wallet still holds as unconfirmed although the block
	// confirming them is attached (the wallet's mempool loop lags behind its block updater; see Session.PoolLag)
	PoolHeld map[bc.Hash]bool
}

// Transition describes the walk for witnesses (the minimal history of the point).
func (p *Point) Transition() map[string]interface{} {
	m := map[string]interface{}{"wallet_was_at": BlkName(p.From), "main_chain_tip": BlkName(p.Best), "step": p.Step,
		"detached_blocks": Names(p.Detached), "attached_blocks": Names(p.Attached), "history": p.S.Kind}
	if p.Restart {
		m["walk_performed_by"] = "wallet restarted on its persisted store"
	} else {
		m["walk_performed_by"] = "running walletUpdater"
	}
	return m
}

// Observer is a monitor's oracle.
type Observer interface {
	At(p *Point)
}

// Session is one history: a node, a wallet following it, a tree.
type Session struct {
	C     *ev.Case
	Env   *Env
	Node  *chainkit.Node
	W     *Wallet
	Tree  *chainkit.Tree
	Gen   *Gen
	Ix    *Index
	Kind  string
	Dir   string
	wdirs int

	At       *chainkit.Blk    // block the wallet is synced to
	Restored map[bc.Hash]bool // wallet-owned outputs whose current record was (re)written by a detach
	old      []*Wallet

	// PoolLag: the wallet hears of a block's wallet-related transactions from the pool before the block arrives
	// (Wallet.AddUnconfirmedTx, what its mempool loop does on MsgNewTx) and processes their removal from the
	// pool (RemoveUnconfirmedTx on MsgRemoveTx) only after the next observation: the two loops of the wallet
	// are independent goroutines, the mempool loop may lag behind the block updater by any amount.
	PoolLag bool
	pending []*types.Tx

	Obs Observer
}

// NewSession creates node + wallet under dir.
func NewSession(c *ev.Case, e *Env, dir string, obs Observer) (*Session, error) {
	nd, err := e.Net.NewNode(filepath.Join(dir, "node"), e.G)
	if err != nil {
		return nil, fmt.Errorf("node: %v", err)
	}
	s := &Session{C: c, Env: e, Node: nd, Dir: dir, Restored: map[bc.Hash]bool{}, Obs: obs, PoolLag: c.Index%2 == 1}
	w, err := OpenWallet(e, nd, filepath.Join(dir, "wallet0"))
	if err != nil {
		nd.Destroy()
		return nil, err
	}
	s.W = w
	s.Tree = e.Net.NewTree(e.G)
	s.Gen = NewGen(w, s.Tree, c.Rand)
	s.At = s.Tree.Root
	return s, nil
}

// Close disposes of the stores.
func (s *Session) Close() {
	for _, w := range s.old {
		w.Close()
	}
	s.W.Close()
	s.Node.Destroy()
}

func classOf(err error) string {
	s := err.Error()
	if len(s) > 60 {
		s = s[:60]
	}
	return s
}

// Deliver hands a block to the node.  ok=false ends the history (inconclusive: the
// positive control failed, nothing can be said about the wallet).
func (s *Session) Deliver(b *chainkit.Blk) bool {
	if s.PoolLag {
		for _, tx := range b.B.Transactions[1:] {
			related := false
			for _, u := range chainkit.Outputs(tx) {
				if s.W.Owner(u.Program) != nil {
					related = true
				}
			}
			if related {
				s.W.W.AddUnconfirmedTx(&protocol.TxDesc{Tx: tx})
				s.pending = append(s.pending, tx)
				s.C.Count("pool_lag:transactions_heard_of_before_their_block", 1)
			}
		}
	}
	if _, err := s.Node.Chain.ProcessBlock(chainkit.CloneBlock(b.B)); err != nil {
		s.C.Inconclusive("positive control failed: the node rejected harness block %s of history %s: %s", BlkName(b), s.Kind, classOf(err))
		s.C.Count("harness_block_rejected", 1)
		return false
	}
	s.C.Count("blocks_delivered", 1)
	return true
}

// contains counts, per detached/attached block, what wallet-related content it has.
func (s *Session) content(b *chainkit.Blk) (recv, votes, spends, vetoes, cbs int) {
	for ti, tx := range b.B.Transactions {
		for _, u := range chainkit.Outputs(tx) {
			if s.W.Owner(u.Program) == nil || u.Amount == 0 {
				continue
			}
			switch {
			case ti == 0:
				cbs++
			case u.Vote != nil:
				votes++
			default:
				recv++
			}
		}
		for _, in := range tx.Inputs {
			switch x := in.TypedInput.(type) {
			case *types.SpendInput:
				if s.W.Owner(x.ControlProgram) != nil {
					spends++
				}
			case *types.VetoInput:
				if s.W.Owner(x.ControlProgram) != nil {
					vetoes++
				}
			}
		}
	}
	return
}

// Observe waits for the wallet and, at quiescence, runs the observer.  It returns
// false if the history must stop (watchdog).
func (s *Session) Observe(step int, allowLag, restart, final bool) bool {
	c := s.C
	switch s.W.Sync(allowLag) {
	case TimedOut:
		c.Inconclusive("watchdog: wallet did not reach the chain's best block (history %s step %d)", s.Kind, step)
		return false
	case Lagging:
		// the chain reorganised to a block that is not higher than the wallet's work height;
		// the updater sleeps in BlockWaiter(work+1) and has not been asked to do anything yet
		c.Count("points_wallet_not_woken(reorg_to_not_higher_block)", 1)
		return true
	}
	best := s.Tree.ByHash[s.Node.Best()]
	if best == nil {
		c.Inconclusive("best block is not a block of the tree")
		return false
	}
	p := &Point{C: c, S: s, W: s.W, Best: best, Step: step, Final: final, From: s.At, Restart: restart}
	// the walk from s.At to best
	fork := s.At
	for !fork.IsAncestorOf(best) {
		p.Detached = append(p.Detached, fork)
		fork = fork.Parent
	}
	for x := best; x.Hash != fork.Hash; x = x.Parent {
		p.Attached = append([]*chainkit.Blk{x}, p.Attached...)
	}
	for _, b := range p.Detached {
		recv, votes, spends, vetoes, cbs := s.content(b)
		c.Count("detached_blocks", 1)
		if recv > 0 {
			c.Count("detached_blocks_with_wallet_receipts", 1)
		}
		if votes > 0 {
			c.Count("detached_blocks_with_wallet_vote_outputs", 1)
		}
		if spends > 0 {
			c.Count("detached_blocks_with_wallet_spends", 1)
		}
		if vetoes > 0 {
			c.Count("detached_blocks_with_wallet_vetoes", 1)
		}
		if cbs > 0 {
			c.Count("detached_blocks_with_wallet_coinbase_rewards", 1)
		}
		for _, tx := range b.B.Transactions {
			for _, in := range tx.Inputs {
				if id, err := in.SpentOutputID(); err == nil {
					if oi := s.Ix.Out[id]; oi != nil && s.W.Owner(oi.U.Program) != nil {
						s.Restored[id] = true
					}
				}
			}
		}
	}
	for _, b := range p.Attached {
		c.Count("attached_blocks", 1)
		for _, tx := range b.B.Transactions {
			for _, in := range tx.Inputs {
				if id, err := in.SpentOutputID(); err == nil {
					delete(s.Restored, id)
				}
			}
			for _, u := range chainkit.Outputs(tx) {
				delete(s.Restored, u.ID)
			}
		}
	}
	if len(p.Detached) > 0 {
		c.Count("reorganisation_walks", 1)
		if restart {
			c.Count("reorganisation_walks_by_restarted_wallet", 1)
		}
	}
	s.At = best
	p.Std, p.Con, p.Undecodable = s.W.Records()
	p.Expected = s.W.Scan(best)
	// harness self-check: the block-by-block scan and the incremental reference ledger agree
	n := 0
	for id, u := range best.Utxo {
		if s.W.Owner(u.U.Program) != nil {
			n++
			if e := p.Expected[id]; e == nil || e.Type != u.Type || e.Height != u.Height {
				c.Inconclusive("harness: main-chain scan and reference ledger disagree on %s", id.String())
				return false
			}
		}
	}
	if n != len(p.Expected) {
		c.Inconclusive("harness: main-chain scan (%d) and reference ledger (%d) disagree", len(p.Expected), n)
		return false
	}
	c.Count("quiescent_points", 1)
	if len(s.pending) > 0 && !restart {
		p.PoolHeld = map[bc.Hash]bool{}
		for _, tx := range s.pending {
			for _, u := range chainkit.Outputs(tx) {
				p.PoolHeld[u.ID] = true
			}
		}
	}
	s.Obs.At(p)
	// the mempool loop catches up
	for _, tx := range s.pending {
		s.W.W.RemoveUnconfirmedTx(&protocol.TxDesc{Tx: tx})
	}
	s.pending = nil
	return true
}

// order of delivery of a finished tree (as in C10): 0 creation, 1 random, 2 branch by branch, 3 local swaps
func order(r *ev.Rand, t *chainkit.Tree, kind int) []int {
	n := len(t.All) - 1
	o := make([]int, n)
	for i := range o {
		o[i] = i + 1
	}
	switch kind {
	case 1:
		r.Shuffle(n, func(i, j int) { o[i], o[j] = o[j], o[i] })
	case 2:
		tips := t.Tips()
		sort.Slice(tips, func(i, j int) bool {
			if tips[i].Height != tips[j].Height {
				return tips[i].Height < tips[j].Height
			}
			return tips[i].Seq < tips[j].Seq
		})
		seen := map[int]bool{}
		o = o[:0]
		for _, tip := range tips {
			for _, b := range tip.Path()[1:] {
				if !seen[b.Seq] {
					seen[b.Seq] = true
					o = append(o, b.Seq)
				}
			}
		}
	case 3:
		for i := 0; i+1 < n; i++ {
			if r.Chance(1, 3) {
				o[i], o[i+1] = o[i+1], o[i]
			}
		}
	}
	return o
}

// RunTree is history class "tree": a random block tree with wallet transactions is
// delivered in one of four orders; the running walletUpdater follows every
// reorganisation; the observer runs at every quiescent point.
func RunTree(c *ev.Case, e *Env, dir string, obs Observer) {
	rng := c.Rand
	s, err := NewSession(c, e, dir, obs)
	if err != nil {
		c.Inconclusive("setup: %v", err)
		return
	}
	defer s.Close()
	kind := c.Index % 4
	s.Kind = fmt.Sprintf("tree/order%d", kind)
	if err := s.Gen.Grow(GrowOpt{Blocks: rng.Range(26, 44), ForkPct: 28, NearTop: 5}); err != nil {
		c.Inconclusive("harness: tree generator: %v", err)
		return
	}
	s.Ix = NewIndex(s.Tree)
	ord := order(rng, s.Tree, kind)
	c.Journal(map[string]interface{}{"history": s.Kind, "shape": s.Tree.Shape(), "order": ord})
	c.Distinct("%s|%s|%v", s.Kind, s.Tree.Shape(), ord)
	for k, v := range s.Gen.Stats {
		c.Count(k, int64(v))
	}
	for step, i := range ord {
		if !s.Deliver(s.Tree.All[i]) {
			return
		}
		// a rescan (what deleting an account, renaming one or recovering keys triggers) requested while
		// the chain keeps moving: the next blocks, reorganisations included, arrive while the wallet
		// is attaching the main chain again from genesis
		if step > 3 && step+2 < len(ord) && rng.Chance(1, 8) {
			before := wallet.VerifRescansStarted()
			s.W.W.RescanBlocks()
			c.Count("rescans_requested", 1)
			// the request is taken by the updater goroutine: wait (logical condition on the hook counter,
			// watchdog 20 s) until the rescan has reset the wallet's work position to the genesis block, so
			// that no later observation mistakes the pre-rescan state for a quiescent one
			started := false
			for i := 0; i < 20000 && !started; i++ {
				if started = wallet.VerifRescansStarted() > before; !started {
					time.Sleep(time.Millisecond)
				}
			}
			if !started {
				c.Inconclusive("case %d: the wallet did not start the requested rescan within the watchdog", c.Index)
				return
			}
			continue
		}
		if !s.Observe(step, true, false, step == len(ord)-1) {
			return
		}
	}
	c.Count("histories_tree", 1)
	if c.WantSample() {
		c.Sample(map[string]interface{}{"history": s.Kind, "tree_shape": s.Tree.Shape(), "blocks": len(s.Tree.All) - 1, "final_best": BlkName(s.At), "generated": s.Gen.Stats})
	}
	if f, ok := obs.(Finisher); ok {
		f.Finish(s)
	}
}

// Finisher is an optional end-of-history hook (probe blocks).
type Finisher interface {
	Finish(s *Session)
}

// fund returns an outside BTM output spendable in the block after p and not reserved.
func (s *Session) fund(p *chainkit.Blk, not map[bc.Hash]bool) *chainkit.UTXO {
	for _, u := range p.SortedUtxos() {
		if s.W.Owner(u.U.Program) == nil && u.Type == chainkit.UNormal && u.U.Asset == chainkit.BTM && u.U.Amount > 1000*Fee && !not[u.U.ID] && !s.Gen.Reserved[u.U.ID] {
			return u.U
		}
	}
	return nil
}

// RunRollback is history class "rollback-restart": a wallet-owned vote output
// (kind 0) or coinbase reward (kind 1) is created on the common chain and spent
// at its earliest height on branch A, which the wallet follows.  The federation
// then justifies the checkpoint of the shorter branch B (forking off below the
// spend), so the chain reorganises to a lower block; the running updater is not
// woken by that (its waiter only fires on higher blocks).  The wallet process is
// then restarted on its persisted store: its updater detaches branch A (rolling
// the spend back) and attaches branch B.
func RunRollback(c *ev.Case, e *Env, dir string, obs Observer) {
	rng := c.Rand
	s, err := NewSession(c, e, dir, obs)
	if err != nil {
		c.Inconclusive("setup: %v", err)
		return
	}
	defer s.Close()
	net := e.Net
	kind := c.Index % 2
	g := s.Gen
	var f, spendAt uint64 // fork height, height of the scripted spend on branch A
	if kind == 0 {
		f = []uint64{3, 7}[rng.Intn(2)]
		spendAt = f + net.P.VotePending + uint64(rng.Intn(2))
		s.Kind = fmt.Sprintf("rollback-restart/vote/fork%d/veto@%d", f, spendAt)
	} else {
		f = []uint64{7, 11}[rng.Intn(2)]
		spendAt = 15 + uint64(rng.Intn(2))
		s.Kind = fmt.Sprintf("rollback-restart/coinbase/fork%d/spend@%d", f, spendAt)
	}
	tipA := spendAt + uint64(rng.Intn(3))
	rewardProg := g.walletProg()
	var target *chainkit.UTXO // the output whose spend is rolled back
	step := 0
	cur := s.Tree.Root
	var forkBlk *chainkit.Blk
	var branchA []*chainkit.Blk
	for h := uint64(1); h <= tipA; h++ {
		var scripted []*types.Tx
		var cbProg []byte
		if kind == 1 && h <= 4 {
			cbProg = rewardProg.CP.ControlProgram // rewards of epoch 1 accrue to the wallet; paid by block 5
		}
		if kind == 0 && h == f {
			fd := s.fund(cur, nil)
			if fd == nil {
				c.Inconclusive("harness: no fund")
				return
			}
			g.Reserved[fd.ID] = true
			amt := uint64(1+rng.Intn(3)) * 100000000
			tx := s.W.SignedTx([]*chainkit.UTXO{fd}, []chainkit.Out{
				{Asset: chainkit.BTM, Amount: amt, Program: g.walletProg().CP.ControlProgram, Vote: net.VoteKey(rng.Intn(net.P.NKeys))},
				{Asset: chainkit.BTM, Amount: fd.Amount - amt - Fee, Program: chainkit.RandProg(rng)}})
			target = chainkit.Outputs(tx)[0]
			g.Reserved[target.ID] = true
			scripted = append(scripted, tx)
		}
		if h == f+1 {
			// branch A also receives a wallet vote output and a normal output: content of a block that will be detached
			fd := s.fund(cur, nil)
			if fd != nil {
				g.Reserved[fd.ID] = true
				scripted = append(scripted, s.W.SignedTx([]*chainkit.UTXO{fd}, []chainkit.Out{
					{Asset: chainkit.BTM, Amount: 200000000, Program: g.walletProg().CP.ControlProgram, Vote: net.VoteKey(rng.Intn(net.P.NKeys))},
					{Asset: chainkit.BTM, Amount: 700000000, Program: g.walletProg().CP.ControlProgram},
					{Asset: chainkit.BTM, Amount: fd.Amount - 900000000 - Fee, Program: chainkit.RandProg(rng)}}))
			}
		}
		if h == spendAt {
			if target == nil {
				c.Inconclusive("harness: scripted target output missing")
				return
			}
			ins := []*chainkit.UTXO{target}
			if target.Amount < 3*Fee {
				if fd := s.fund(cur, nil); fd != nil {
					g.Reserved[fd.ID] = true
					ins = append(ins, fd)
				}
			}
			var sum uint64
			for _, u := range ins {
				sum += u.Amount
			}
			scripted = append(scripted, s.W.SignedTx(ins, []chainkit.Out{{Asset: chainkit.BTM, Amount: sum - Fee, Program: chainkit.RandProg(rng)}}))
		}
		b, err := g.Block(cur, scripted, 2, 0, cbProg)
		if err != nil {
			c.Inconclusive("harness: block %d: %v", h, err)
			return
		}
		if kind == 1 && h == 5 {
			for _, u := range chainkit.Outputs(b.B.Transactions[0]) {
				if s.W.Owner(u.Program) == rewardProg && u.Amount > 0 {
					target = u
					g.Reserved[u.ID] = true
				}
			}
			if target == nil {
				c.Inconclusive("harness: block 5 pays no reward to the wallet")
				return
			}
		}
		if h == f {
			forkBlk = b
		}
		if h > f {
			branchA = append(branchA, b)
		}
		cur = b
	}
	// branch B: one block on the fork block, at a checkpoint height, in another time slot
	tipB, err := g.Block(forkBlk, nil, 2, 1+rng.Intn(2), nil)
	if err != nil {
		c.Inconclusive("harness: branch B: %v", err)
		return
	}
	if tipB.Height%net.P.Epoch != 0 {
		c.Inconclusive("harness: branch B tip is not a checkpoint")
		return
	}
	s.Ix = NewIndex(s.Tree)
	c.Journal(map[string]interface{}{"history": s.Kind, "shape": s.Tree.Shape()})
	c.Distinct("%s|tipA%d|%s", s.Kind, tipA, s.Tree.Shape())
	for k, v := range g.Stats {
		c.Count(k, int64(v))
	}
	// phase 1: common chain and branch A, the running updater follows
	for _, b := range cur.Path()[1:] {
		if !s.Deliver(b) {
			return
		}
		if !s.Observe(step, true, false, false) {
			return
		}
		step++
	}
	// phase 2: branch B arrives (shorter: no reorganisation), then the federation justifies it
	if !s.Deliver(tipB) {
		return
	}
	if s.Node.Best() != cur.Hash {
		c.Inconclusive("harness: a shorter branch became best without votes")
		return
	}
	for i := 0; i < net.P.Fed; i++ {
		if err := s.Node.Chain.ProcessBlockVerification(net.VoteMsg(i, e.G.Blk.Hash, tipB.Hash)); err != nil {
			c.Inconclusive("harness: verification message refused: %v", err)
			return
		}
	}
	if s.Node.Best() != tipB.Hash {
		c.Inconclusive("harness: the justified shorter branch did not become the best chain")
		return
	}
	c.Count("vote_driven_rollbacks_to_lower_block", 1)
	// the running wallet is not woken: it still reports branch A
	if st := s.W.Sync(true); st != Lagging {
		c.Count("running_wallet_followed_rollback", 1)
	} else {
		c.Count("points_wallet_not_woken(reorg_to_not_higher_block)", 1)
	}
	// phase 3: restart the wallet on its persisted store
	s.wdirs++
	nw, err := s.W.Restart(filepath.Join(s.Dir, fmt.Sprintf("wallet%d", s.wdirs)))
	if err != nil {
		c.Inconclusive("restart: %v", err)
		return
	}
	s.old = append(s.old, s.W)
	s.W = nw
	s.Gen.W = nw
	s.pending = nil // the unconfirmed set lives in memory
	c.Count("wallet_restarts", 1)
	if !s.Observe(step, false, true, true) {
		return
	}
	c.Count("histories_rollback_restart", 1)
	if c.WantSample() {
		c.Sample(map[string]interface{}{"history": s.Kind, "tree_shape": s.Tree.Shape(), "branch_A": Names(branchA), "branch_B_tip": BlkName(tipB), "rolled_back_spend_of": target.ID.String()})
	}
	if fin, ok := obs.(Finisher); ok {
		fin.Finish(s)
	}
}

// FundAt returns an outside BTM output that can pay a fee in the block after p.
func (s *Session) FundAt(p *chainkit.Blk) *chainkit.UTXO { return s.fund(p, nil) }

// RunMini is history class "mini-fork": the smallest back-and-forth
// reorganisation around one block with a chosen wallet content.  Common chain of
// 4 blocks (block 1 pays the wallet a normal and a vote output), block A1 with
// the content under test, branch B (2 blocks) overtakes it, then A2, A3 bring
// branch A back.  Variants of A1: 0 vote receipt, 1 spend of the normal output +
// receipt, 2 veto of the vote output, 3 receipt and chained spend in one block.
func RunMini(c *ev.Case, e *Env, dir string, obs Observer) {
	rng := c.Rand
	s, err := NewSession(c, e, dir, obs)
	if err != nil {
		c.Inconclusive("setup: %v", err)
		return
	}
	defer s.Close()
	net := e.Net
	g := s.Gen
	variant := c.Index % 4
	s.Kind = fmt.Sprintf("mini-fork/%s", []string{"vote-receipt", "spend+receipt", "veto", "receipt+chained-spend"}[variant])
	fail := func(what string, err error) { c.Inconclusive("harness: mini-fork %s: %v", what, err) }
	pay := func(p *chainkit.Blk, outs ...chainkit.Out) *types.Tx {
		fd := s.fund(p, nil)
		if fd == nil {
			return nil
		}
		g.Reserved[fd.ID] = true
		var sum uint64
		for _, o := range outs {
			sum += o.Amount
		}
		outs = append(outs, chainkit.Out{Asset: chainkit.BTM, Amount: fd.Amount - sum - Fee, Program: chainkit.RandProg(rng)})
		return s.W.SignedTx([]*chainkit.UTXO{fd}, outs)
	}
	wp := func() []byte { return g.walletProg().CP.ControlProgram }
	// common chain
	first := pay(s.Tree.Root, chainkit.Out{Asset: chainkit.BTM, Amount: 900000000, Program: wp()},
		chainkit.Out{Asset: chainkit.BTM, Amount: 300000000, Program: wp(), Vote: net.VoteKey(rng.Intn(net.P.NKeys))})
	if first == nil {
		fail("fund", fmt.Errorf("none"))
		return
	}
	n1, v1 := chainkit.Outputs(first)[0], chainkit.Outputs(first)[1]
	g.Reserved[n1.ID], g.Reserved[v1.ID] = true, true
	cur, err := g.Block(s.Tree.Root, []*types.Tx{first}, 0, 0, nil)
	if err != nil {
		fail("block 1", err)
		return
	}
	for h := 2; h <= 4; h++ {
		if cur, err = g.Block(cur, nil, 1, 0, nil); err != nil {
			fail("common", err)
			return
		}
	}
	common := cur
	var scripted []*types.Tx
	switch variant {
	case 0:
		scripted = append(scripted, pay(common, chainkit.Out{Asset: chainkit.BTM, Amount: 200000000, Program: wp(), Vote: net.VoteKey(rng.Intn(net.P.NKeys))}))
	case 1:
		scripted = append(scripted, s.W.SignedTx([]*chainkit.UTXO{n1}, []chainkit.Out{{Asset: chainkit.BTM, Amount: 400000000, Program: wp()},
			{Asset: chainkit.BTM, Amount: n1.Amount - 400000000 - Fee, Program: chainkit.RandProg(rng)}}))
	case 2:
		scripted = append(scripted, s.W.SignedTx([]*chainkit.UTXO{v1}, []chainkit.Out{{Asset: chainkit.BTM, Amount: v1.Amount - Fee, Program: chainkit.RandProg(rng)}}))
	case 3:
		t1 := pay(common, chainkit.Out{Asset: chainkit.BTM, Amount: 500000000, Program: wp()})
		if t1 != nil {
			o := chainkit.Outputs(t1)[0]
			scripted = append(scripted, t1, s.W.SignedTx([]*chainkit.UTXO{o}, []chainkit.Out{{Asset: chainkit.BTM, Amount: o.Amount - Fee, Program: chainkit.RandProg(rng)}}))
		}
	}
	for _, tx := range scripted {
		if tx == nil {
			fail("fund", fmt.Errorf("none"))
			return
		}
	}
	a1, err := g.Block(common, scripted, 0, 0, nil)
	if err != nil {
		fail("A1", err)
		return
	}
	b1, err := g.Block(common, nil, 1, 1, nil)
	if err != nil {
		fail("B1", err)
		return
	}
	b2, err := g.Block(b1, nil, 1, 0, nil)
	if err != nil {
		fail("B2", err)
		return
	}
	a2, err := g.Block(a1, nil, 1, 0, nil)
	if err != nil {
		fail("A2", err)
		return
	}
	a3, err := g.Block(a2, nil, 1, 0, nil)
	if err != nil {
		fail("A3", err)
		return
	}
	s.Ix = NewIndex(s.Tree)
	c.Journal(map[string]interface{}{"history": s.Kind, "shape": s.Tree.Shape()})
	c.Distinct("%s|%s", s.Kind, s.Tree.Shape())
	for k, v := range g.Stats {
		c.Count(k, int64(v))
	}
	seq := append(common.Path()[1:], a1, b1, b2, a2, a3)
	for step, b := range seq {
		if !s.Deliver(b) {
			return
		}
		if !s.Observe(step, true, false, step == len(seq)-1) {
			return
		}
	}
	c.Count("histories_mini_fork", 1)
	if c.WantSample() {
		c.Sample(map[string]interface{}{"history": s.Kind, "delivery": Names(seq), "final_best": BlkName(s.At)})
	}
	if f, ok := obs.(Finisher); ok {
		f.Finish(s)
	}
}
