package walletkit

import (
	"encoding/hex"
	"fmt"
	"os"
	"path/filepath"
	"sort"

	"github.com/bytom/bytom/account"
	"github.com/bytom/bytom/blockchain/signers"
	"github.com/bytom/bytom/crypto"
	"github.com/bytom/bytom/crypto/ed25519/chainkd"
	"github.com/bytom/bytom/protocol/bc"
	"github.com/bytom/bytom/protocol/bc/types"
	"github.com/bytom/bytom/protocol/vm/vmutil"

	"verif/internal/chainkit"
	"verif/internal/ev"
)

// Recovery histories: a wallet RESTORED from its keys.  The accounts exist (created from the root
// public keys) but no address does; an address recovery is started (recoveryManager.AddrResurrect,
// what restore-wallet / key recovery do) and the wallet then follows the chain: the recovery derives
// a look-ahead window of receive and change addresses per account, recognises payments to them and
// turns the found ones into addresses of the account.  Blocks pay receive and change addresses of
// seed-chosen (small) indexes, in any order, one branch running ahead of the other; the wallet is
// stopped and started again on its own store at seed-chosen points while the recovery is in progress.
//
// The oracle is C24's: at every quiescent point the wallet's unspent outputs equal those a scan of
// the main chain yields — here for every program the account owns NOW (a found index makes the
// account own all lower indexes of that branch; every index used is far inside the look-ahead of
// 128, so an uninterrupted scan from genesis recognises each of these payments when it meets it).

// RecPoint is a quiescent point of a recovery history.
type RecPoint struct {
	C        *ev.Case
	Best     *chainkit.Blk
	Std      []*account.UTXO
	Expected map[bc.Hash]*RecExp
	Restarts int
	Trail    []string
}

// RecExp is an output the restored wallet must hold.
type RecExp struct {
	U       *chainkit.UTXO
	Height  uint64
	Account int
	Change  bool
	Index   uint64
}

type recAddr struct {
	acct   int
	change bool
	index  uint64
	prog   []byte
}

func (a recAddr) String() string {
	b := "receive"
	if a.change {
		b = "change"
	}
	return fmt.Sprintf("acct%d/%s#%d", a.acct, b, a.index)
}

// openRecovering creates the accounts without any address and starts the address recovery.
func openRecovering(e *Env, nd *chainkit.Node, dir string) (*Wallet, error) {
	if err := os.MkdirAll(dir, 0o755); err != nil {
		return nil, err
	}
	w := &Wallet{Env: e, Dir: dir, Node: nd, ByProg: map[string]*Prog{}}
	w.DB = chainkit.OpenSafeDB("wallet", dir)
	w.Mgr = account.NewManager(w.DB, nd.Chain)
	for i, root := range e.Roots {
		acc, err := w.Mgr.Create([]chainkd.XPub{root.XPub()}, 1, fmt.Sprintf("acct%d", i), signers.BIP0044)
		if err != nil {
			w.DB.Close()
			return nil, fmt.Errorf("create account: %v", err)
		}
		w.Accounts = append(w.Accounts, acc)
	}
	if err := w.start(); err != nil {
		w.DB.Close()
		return nil, err
	}
	if err := w.W.RecoveryMgr.AddrResurrect(w.Accounts); err != nil {
		w.DB.Close()
		return nil, fmt.Errorf("AddrResurrect: %v", err)
	}
	return w, nil
}

// derive is the program of (account, branch, index) from the root key, as BIP44 accounts derive it.
func derive(e *Env, acc *account.Account, acct int, change bool, index uint64) ([]byte, error) {
	path, err := signers.Path(acc.Signer, signers.AccountKeySpace, change, index)
	if err != nil {
		return nil, err
	}
	pub := e.Roots[acct].Derive(path).XPub().PublicKey()
	return vmutil.P2WPKHProgram(crypto.Ripemd160(pub))
}

// RunRecovery runs one recovery history and calls check at every quiescent point.
func RunRecovery(c *ev.Case, e *Env, dir string, check func(p *RecPoint) bool) {
	rng := c.Rand
	nd, err := e.Net.NewNode(filepath.Join(dir, "node"), e.G)
	if err != nil {
		c.Inconclusive("node: %v", err)
		return
	}
	defer nd.Destroy()
	w, err := openRecovering(e, nd, filepath.Join(dir, "wallet0"))
	if err != nil {
		c.Inconclusive("wallet: %v", err)
		return
	}
	wallets := []*Wallet{w}
	defer func() {
		for _, x := range wallets {
			x.Close()
		}
	}()
	tr := e.Net.NewTree(e.G)
	// the payments: per account and branch an order of small indexes; the profile decides which branch runs ahead
	profile := []string{"change-ahead", "receive-ahead", "mixed"}[c.Index%3]
	byProg := map[string]recAddr{}
	addr := func(acct int, change bool, index uint64) (recAddr, bool) {
		p, err := derive(e, w.Accounts[acct], acct, change, index)
		if err != nil {
			c.Inconclusive("derive: %v", err)
			return recAddr{}, false
		}
		a := recAddr{acct, change, index, p}
		byProg[hex.EncodeToString(p)] = a
		return a, true
	}
	nBlocks := rng.Range(7, 12)
	restartAt := map[int]bool{}
	if c.Index%4 != 3 { // one history in four without a restart (control)
		for i, n := 0, 1+rng.Intn(2); i < n; i++ {
			restartAt[rng.Range(2, nBlocks-2)] = true
		}
	}
	high := map[[2]int]uint64{} // (account, branch) -> highest index paid so far
	funds := append([]*chainkit.UTXO{}, e.G.Funds...)
	cur := tr.Root
	restarts := 0
	var trail []string
	for step := 0; step < nBlocks; step++ {
		if restartAt[step] {
			nw, err := w.Restart(filepath.Join(dir, fmt.Sprintf("wallet%d", len(wallets))))
			if err != nil {
				c.Violation("recovery:restart-failed", "the wallet does not start on its own store while an address recovery is in progress", map[string]interface{}{"error": err.Error(), "trail": trail})
				return
			}
			wallets = append(wallets, nw)
			w = nw
			restarts++
			c.Count("recovery_restarts", 1)
			trail = append(trail, "wallet restarted on its persisted store")
		}
		// one to three payments
		var txs []*types.Tx
		var desc []string
		for k, n := 0, rng.Range(1, 3); k < n && len(funds) > 0; k++ {
			acct := rng.Intn(len(w.Accounts))
			change := rng.Bool()
			switch profile {
			case "change-ahead":
				change = rng.Chance(2, 3) && step < nBlocks/2 || rng.Chance(1, 4)
			case "receive-ahead":
				change = !(rng.Chance(2, 3) && step < nBlocks/2 || rng.Chance(1, 4))
			}
			b := 0
			if change {
				b = 1
			}
			hi := high[[2]int{acct, b}]
			other := high[[2]int{acct, 1 - b}]
			var index uint64
			switch x := rng.Intn(6); {
			case x < 2:
				index = hi + 1 + uint64(rng.Intn(3)) // ahead of everything found on this branch
			case x < 4 && other > hi+1:
				index = hi + 1 + uint64(rng.Intn(int(other-hi))) // between this branch's and the other branch's progress
			case x < 5 && hi > 0:
				index = 1 + uint64(rng.Intn(int(hi))) // an index already found
			default:
				index = hi + 1
			}
			a, ok := addr(acct, change, index)
			if !ok {
				return
			}
			if index > hi {
				high[[2]int{acct, b}] = index
			}
			f := funds[0]
			funds = funds[1:]
			amount := uint64(1000 + rng.Intn(100000))
			tx := chainkit.MakeTx([]*chainkit.UTXO{f}, []chainkit.Out{
				{Asset: chainkit.BTM, Amount: amount, Program: a.prog},
				{Asset: chainkit.BTM, Amount: f.Amount - amount - chainkit.DefaultFee, Program: chainkit.TrueProg},
			}, 0)
			funds = append(funds, chainkit.Outputs(tx)[1])
			txs = append(txs, tx)
			desc = append(desc, a.String())
		}
		nb, err := tr.Build(cur, txs, chainkit.BlockOpt{})
		if err != nil {
			c.Inconclusive("harness: reference ledger rejects a generated block: %v", err)
			return
		}
		cur = nb
		if _, err := nd.Chain.ProcessBlock(chainkit.CloneBlock(nb.B)); err != nil {
			c.Inconclusive("positive control failed: the node rejected harness block %s: %v", BlkName(nb), err)
			return
		}
		trail = append(trail, fmt.Sprintf("block %s pays %v", BlkName(nb), desc))
		if w.Sync(false) != Synced {
			c.Inconclusive("watchdog: the restored wallet did not reach the chain's best block (step %d)", step)
			return
		}
		// expected: unspent outputs of the main chain paying a program the account owns now
		exp := map[bc.Hash]*RecExp{}
		for _, b := range cur.Path() {
			for _, tx := range b.B.Transactions {
				for _, in := range tx.Inputs {
					if id, err := in.SpentOutputID(); err == nil {
						delete(exp, id)
					}
				}
				for _, u := range chainkit.Outputs(tx) {
					if a, ok := byProg[hex.EncodeToString(u.Program)]; ok && w.Mgr.IsLocalControlProgram(u.Program) {
						exp[u.ID] = &RecExp{U: u, Height: b.Height, Account: a.acct, Change: a.change, Index: a.index}
					}
				}
			}
		}
		std, _, _ := w.Records()
		c.Count("recovery_points", 1)
		p := &RecPoint{C: c, Best: cur, Std: std, Expected: exp, Restarts: restarts, Trail: append([]string{}, trail...)}
		if !check(p) {
			return
		}
	}
	var hs []string
	for k, v := range high {
		hs = append(hs, fmt.Sprintf("a%d/b%d:%d", k[0], k[1], v))
	}
	sort.Strings(hs)
	c.Distinct("recovery %s restarts=%d blocks=%d", profile, restarts, nBlocks)
	c.Count("recovery_histories", 1)
	if restarts > 0 {
		c.Count("recovery_histories_with_restart", 1)
	}
	if c.WantSample() {
		c.Sample(map[string]interface{}{"history": "recovery/" + profile, "restarts": restarts, "highest_index_paid": hs, "trail": trail})
	}
}
