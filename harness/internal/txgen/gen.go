// Package txgen generates seeded, WELL-FORMED ledger values of
// github.com/bytom/bytom/protocol/bc/types (transactions, block headers,
// blocks), deep-copies and compares them, and enumerates named single-field
// mutations labelled by what they touch (consensus content, witness data, or an
// opaque extension suffix).  It is shared by the encoding monitor (C04), the
// identity monitor (C03) and may seed the corpus of the decoder monitor (C05).
//
// "Well-formed" means: the value is accepted by the binary codec of the types
// package (asset version 1, VM version 1 where the decoder insists on it, every
// integer <= 2^63-1 because the wire format is varint63, non-nil asset ids) and
// nothing else.  Semantic validity (balanced amounts, valid signatures, a coinbase at
// index 0, ...) is deliberately NOT implied: the generators produce 0-8 inputs of
// every type, 0-8 outputs of every type, arbitrary byte strings of 0-300 bytes
// in every program / argument / state data / nonce / definition / vote key and
// in every commitment or witness suffix, and nil as well as empty slices.
//
// Everything is a pure function of the *ev.Rand handed in.  The package depends
// only on the types and bc packages of the code under test and on ev.
package txgen

import (
	"github.com/bytom/bytom/protocol/bc"
	"github.com/bytom/bytom/protocol/bc/types"

	"verif/internal/ev"
)

const (
	// MaxBytes is the largest byte string the generators produce.
	MaxBytes = 300
	// MaxVarint63 is the largest integer the wire format can carry.
	MaxVarint63 = uint64(1<<63 - 1)
	// MaxInputs / MaxOutputs / MaxSupLinks / MaxBlockTxs bound the shapes.
	MaxInputs   = 8
	MaxOutputs  = 8
	MaxSupLinks = 12
	MaxBlockTxs = 6
)

// Opcodes used to build recognisable control programs (values of protocol/vm,
// repeated here to keep the package dependency-light; the monitors that rely on
// the classification check it with the real vmutil/bcrp predicates and put a
// floor on the counts).
const (
	opFail      = 0x6a
	opTrue      = 0x51
	opPushdata1 = 0x4c
	opPushdata2 = 0x4d
)

// ProgKind names the shapes of control program the generator knows.
type ProgKind int

const (
	ProgRandom     ProgKind = iota // arbitrary bytes (0-300), first byte never OP_FAIL
	ProgEmpty                      // nil or empty
	ProgTrue                       // OP_TRUE
	ProgP2W                        // 0x00 0x20 <32 bytes>  (segwit-style)
	ProgCall                       // DATA_4 "bcrp" DATA_32 <hash>  (BCRP call)
	ProgRetire                     // OP_FAIL alone
	ProgRetireMemo                 // OP_FAIL followed by a memo (push or raw tail); plain retirement
	ProgBCRP                       // OP_FAIL DATA_4 "bcrp" DATA_1 0x01 <push contract>: contract registration
	numProgKinds
)

func (k ProgKind) String() string {
	return [...]string{"random", "empty", "true", "p2w", "call", "retire", "retire-memo", "bcrp", "?"}[k]
}

// Uint63 returns an integer in [0, 2^63-1] biased to boundary values.
func Uint63(r *ev.Rand) uint64 { return r.U64Boundary() & MaxVarint63 }

// Hash returns a random hash (occasionally all-zero).
func Hash(r *ev.Rand) bc.Hash {
	if r.Chance(1, 40) {
		return bc.Hash{}
	}
	return bc.Hash{V0: r.Uint64(), V1: r.Uint64(), V2: r.Uint64(), V3: r.Uint64()}
}

// AssetID returns a random asset id from a small pool half of the time (so that
// equal assets occur inside one transaction) and a fresh one otherwise.
func AssetID(r *ev.Rand) bc.AssetID {
	if r.Bool() {
		k := uint64(r.Intn(4))
		return bc.AssetID{V0: ^uint64(0), V1: ^uint64(0), V2: ^uint64(0), V3: ^uint64(0) - k} // k = 0 is the BTM asset id
	}
	return bc.AssetID(Hash(r))
}

func length(r *ev.Rand) int {
	switch r.Intn(8) {
	case 0:
		return []int{1, 2, 75, 76, 127, 128, 129, 255, 256, 257, 299, MaxBytes}[r.Intn(12)]
	case 1, 2:
		return r.Range(1, MaxBytes)
	case 3:
		return r.Range(1, 80)
	default:
		return r.Range(1, 16)
	}
}

// Bytes returns an arbitrary byte string of 0-300 bytes: nil, empty (non-nil),
// or 1-300 random bytes with boundary lengths over-represented.
func Bytes(r *ev.Rand) []byte {
	switch r.Intn(12) {
	case 0:
		return nil
	case 1:
		return []byte{}
	}
	return r.Bytes(length(r))
}

// NonEmpty returns 1-300 random bytes.
func NonEmpty(r *ev.Rand) []byte { return r.Bytes(length(r)) }

// Suffix returns the content of an extensible-string suffix field: absent in
// three cases out of four (nil or empty), otherwise 1-300 arbitrary bytes.
func Suffix(r *ev.Rand) []byte {
	switch r.Intn(8) {
	case 0:
		return r.Bytes(length(r))
	case 1:
		return r.Bytes(r.Range(1, 4))
	case 2:
		return []byte{}
	}
	return nil
}

// ByteList returns a list of byte strings (state data, arguments): nil, empty,
// or 1-4 elements each of which may itself be nil or empty.
func ByteList(r *ev.Rand) [][]byte {
	switch r.Intn(10) {
	case 0, 1:
		return nil
	case 2:
		return [][]byte{}
	}
	l := make([][]byte, r.Range(1, 4))
	for i := range l {
		if r.Chance(1, 5) {
			l[i] = Bytes(r)
		} else {
			l[i] = r.Bytes(r.Range(0, 40))
			if len(l[i]) == 0 && r.Bool() {
				l[i] = nil
			}
		}
	}
	return l
}

// VoteKey returns a vote key: usually 64 bytes (an xpub), sometimes arbitrary.
func VoteKey(r *ev.Rand) []byte {
	if r.Chance(3, 4) {
		return r.Bytes(64)
	}
	return Bytes(r)
}

func pushData(d []byte) []byte {
	switch {
	case len(d) >= 1 && len(d) <= 75:
		return append([]byte{byte(len(d))}, d...)
	case len(d) < 256:
		return append([]byte{opPushdata1, byte(len(d))}, d...)
	default:
		return append([]byte{opPushdata2, byte(len(d)), byte(len(d) >> 8)}, d...)
	}
}

// BCRPProgram builds the contract-registration program for contract
// (OP_FAIL DATA_4 "bcrp" DATA_1 0x01 <push contract>), the same bytes as
// vmutil.RegisterProgram for a non-empty contract.
func BCRPProgram(contract []byte) []byte {
	p := []byte{opFail, 0x04, 'b', 'c', 'r', 'p', 0x01, 0x01}
	return append(p, pushData(contract)...)
}

// ProgramOf returns a control program of the given kind (<= 300 bytes).
func ProgramOf(r *ev.Rand, k ProgKind) []byte {
	switch k {
	case ProgEmpty:
		if r.Bool() {
			return nil
		}
		return []byte{}
	case ProgTrue:
		return []byte{opTrue}
	case ProgP2W:
		return append([]byte{0x00, 0x20}, r.Bytes(32)...)
	case ProgCall:
		return append([]byte{0x04, 'b', 'c', 'r', 'p', 0x20}, r.Bytes(32)...)
	case ProgRetire:
		return []byte{opFail}
	case ProgRetireMemo:
		if r.Bool() {
			return append([]byte{opFail}, pushData(r.Bytes(r.Range(1, 120)))...)
		}
		return append([]byte{opFail}, r.Bytes(r.Range(1, 60))...)
	case ProgBCRP:
		n := r.Range(1, 40)
		if r.Chance(1, 4) {
			n = []int{75, 76, 200, 255, 256, 280}[r.Intn(6)]
		}
		return BCRPProgram(r.Bytes(n))
	}
	p := NonEmpty(r)
	if p[0] == opFail {
		p[0] = opTrue
	}
	return p
}

// Program returns a control program of a random kind; about one in four is
// OP_FAIL-prefixed (retirement or BCRP registration).
func Program(r *ev.Rand) []byte {
	return ProgramOf(r, ProgKind(r.Pick([]int{6, 1, 3, 3, 2, 1, 2, 3})))
}

func assetAmount(r *ev.Rand) bc.AssetAmount {
	id := AssetID(r)
	return bc.AssetAmount{AssetId: &id, Amount: Uint63(r)}
}

func spendCommitment(r *ev.Rand) types.SpendCommitment {
	return types.SpendCommitment{
		AssetAmount:    assetAmount(r),
		SourceID:       Hash(r),
		SourcePosition: Uint63(r),
		VMVersion:      1,
		ControlProgram: Program(r),
		StateData:      ByteList(r),
	}
}

// InputOf returns a well-formed input of the given type
// (types.IssuanceInputType, SpendInputType, CoinbaseInputType, VetoInputType).
func InputOf(r *ev.Rand, typ uint8) *types.TxInput {
	in := &types.TxInput{AssetVersion: 1, CommitmentSuffix: Suffix(r), WitnessSuffix: Suffix(r)}
	switch typ {
	case types.IssuanceInputType:
		vmv := uint64(1)
		if r.Chance(1, 10) {
			vmv = Uint63(r) // the codec carries any VM version of an issuance program
		}
		in.TypedInput = &types.IssuanceInput{
			Nonce:           Bytes(r),
			Amount:          Uint63(r),
			AssetDefinition: Bytes(r),
			VMVersion:       vmv,
			IssuanceProgram: Bytes(r),
			Arguments:       ByteList(r),
		}
	case types.CoinbaseInputType:
		in.TypedInput = &types.CoinbaseInput{Arbitrary: Bytes(r)}
	case types.VetoInputType:
		in.TypedInput = &types.VetoInput{
			VetoCommitmentSuffix: Suffix(r),
			Arguments:            ByteList(r),
			Vote:                 VoteKey(r),
			SpendCommitment:      spendCommitment(r),
		}
	default:
		in.TypedInput = &types.SpendInput{
			SpendCommitmentSuffix: Suffix(r),
			Arguments:             ByteList(r),
			SpendCommitment:       spendCommitment(r),
		}
	}
	return in
}

// Input returns a well-formed input of a random type.
func Input(r *ev.Rand) *types.TxInput {
	return InputOf(r, []uint8{types.SpendInputType, types.IssuanceInputType, types.VetoInputType, types.CoinbaseInputType}[r.Pick([]int{5, 3, 3, 1})])
}

// OutputOf returns a well-formed output of the given type
// (types.OriginalOutputType or types.VoteOutputType) whose control program has
// the given kind.  A "retirement output" is an output of either type whose
// program is OP_FAIL-prefixed (ProgRetire, ProgRetireMemo, ProgBCRP).
func OutputOf(r *ev.Rand, typ uint8, k ProgKind) *types.TxOutput {
	aa := assetAmount(r)
	var o *types.TxOutput
	if typ == types.VoteOutputType {
		o = types.NewVoteOutput(*aa.AssetId, aa.Amount, ProgramOf(r, k), VoteKey(r), ByteList(r))
	} else {
		o = types.NewOriginalTxOutput(*aa.AssetId, aa.Amount, ProgramOf(r, k), ByteList(r))
	}
	o.CommitmentSuffix = Suffix(r)
	return o
}

// Output returns a well-formed output of a random type and program kind.
func Output(r *ev.Rand) *types.TxOutput {
	typ := uint8(types.OriginalOutputType)
	if r.Chance(1, 3) {
		typ = types.VoteOutputType
	}
	return OutputOf(r, typ, ProgKind(r.Pick([]int{6, 1, 3, 3, 2, 1, 2, 3})))
}

// TxDataN returns a well-formed transaction with exactly nIn inputs and nOut
// outputs.  SerializedSize is left 0 (it is a recorded, derived quantity).
func TxDataN(r *ev.Rand, nIn, nOut int) *types.TxData {
	tx := &types.TxData{Version: 1, TimeRange: Uint63(r)}
	if r.Chance(1, 6) {
		tx.Version = Uint63(r)
	}
	if nIn > 0 || r.Bool() {
		tx.Inputs = make([]*types.TxInput, nIn)
	}
	if nOut > 0 || r.Bool() {
		tx.Outputs = make([]*types.TxOutput, nOut)
	}
	for i := range tx.Inputs {
		tx.Inputs[i] = Input(r)
	}
	for i := range tx.Outputs {
		tx.Outputs[i] = Output(r)
	}
	return tx
}

func count(r *ev.Rand, max int) int {
	switch r.Intn(8) {
	case 0:
		return 0
	case 1:
		return max
	case 2, 3:
		return r.Range(0, max)
	}
	return r.Range(1, 3)
}

// TxData returns a well-formed transaction with 0-8 inputs and 0-8 outputs.
func TxData(r *ev.Rand) *types.TxData { return TxDataN(r, count(r, MaxInputs), count(r, MaxOutputs)) }

// Tx returns types.NewTx of a generated transaction (entries mapped, ID set).
func Tx(r *ev.Rand) *types.Tx { return types.NewTx(*TxData(r)) }

// SupLink returns a verification link with a sparse signature array: each of
// the slots is nil, empty, a 64-byte signature or (rarely) arbitrary bytes.
func SupLink(r *ev.Rand) *types.SupLink {
	sl := &types.SupLink{SourceHeight: Uint63(r), SourceHash: Hash(r)}
	dense := r.Intn(4)
	for i := range sl.Signatures {
		switch {
		case r.Intn(4) > dense:
			if r.Chance(1, 4) {
				sl.Signatures[i] = []byte{}
			}
		case r.Chance(1, 8):
			sl.Signatures[i] = Bytes(r)
		default:
			sl.Signatures[i] = r.Bytes(64)
		}
	}
	return sl
}

// BlockHeader returns a well-formed header with 0-12 supLinks and a block
// witness that is nil, empty, 64 bytes or arbitrary.
func BlockHeader(r *ev.Rand) *types.BlockHeader {
	bh := &types.BlockHeader{
		Version:           1,
		Height:            Uint63(r),
		PreviousBlockHash: Hash(r),
		Timestamp:         Uint63(r),
		BlockCommitment:   types.BlockCommitment{TransactionsMerkleRoot: Hash(r)},
	}
	if r.Chance(1, 6) {
		bh.Version = Uint63(r)
	}
	switch r.Intn(6) {
	case 0:
	case 1:
		bh.BlockWitness = types.BlockWitness{}
	case 2:
		bh.BlockWitness = Bytes(r)
	default:
		bh.BlockWitness = r.Bytes(64)
	}
	n := 0
	switch r.Intn(6) {
	case 0:
		n = MaxSupLinks
	case 1, 2:
		n = r.Range(0, MaxSupLinks)
	case 3, 4:
		n = r.Range(1, 2)
	}
	if n > 0 || r.Bool() {
		bh.SupLinks = make(types.SupLinks, n)
	}
	for i := range bh.SupLinks {
		bh.SupLinks[i] = SupLink(r)
	}
	return bh
}

// Seal sets the header's transactions merkle root to the root of the block's
// transaction IDs, as the block proposer does.
func Seal(b *types.Block) {
	txs := make([]*bc.Tx, len(b.Transactions))
	for i, tx := range b.Transactions {
		txs[i] = tx.Tx
	}
	root, _ := types.TxMerkleRoot(txs) // never fails
	b.TransactionsMerkleRoot = root
}

// Block returns a well-formed, sealed block with 0-6 mapped transactions.
func Block(r *ev.Rand) *types.Block {
	b := &types.Block{BlockHeader: *BlockHeader(r)}
	n := r.Range(0, MaxBlockTxs)
	if n > 0 || r.Bool() {
		b.Transactions = make([]*types.Tx, n)
	}
	for i := range b.Transactions {
		// keep blocks light: fewer inputs/outputs per transaction than TxData
		b.Transactions[i] = types.NewTx(*TxDataN(r, r.Range(0, 3), r.Range(0, 3)))
	}
	Seal(b)
	return b
}
