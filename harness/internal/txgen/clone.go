package txgen

import (
	"bytes"
	"encoding/hex"
	"fmt"

	"github.com/bytom/bytom/protocol/bc"
	"github.com/bytom/bytom/protocol/bc/types"
)

// ---------------------------------------------------------------- deep copies

// CloneBytes copies b preserving nil vs empty.
func CloneBytes(b []byte) []byte {
	if b == nil {
		return nil
	}
	return append([]byte{}, b...)
}

// CloneList deep-copies a list of byte strings preserving nil vs empty.
func CloneList(l [][]byte) [][]byte {
	if l == nil {
		return nil
	}
	c := make([][]byte, len(l))
	for i := range l {
		c[i] = CloneBytes(l[i])
	}
	return c
}

func cloneAA(a bc.AssetAmount) bc.AssetAmount {
	if a.AssetId != nil {
		id := *a.AssetId
		a.AssetId = &id
	}
	return a
}

func cloneSC(sc types.SpendCommitment) types.SpendCommitment {
	sc.AssetAmount = cloneAA(sc.AssetAmount)
	sc.ControlProgram = CloneBytes(sc.ControlProgram)
	sc.StateData = CloneList(sc.StateData)
	return sc
}

// CloneInput deep-copies an input.  The cached asset id of an issuance input
// is dropped, so it is recomputed from the (possibly mutated) fields.
func CloneInput(in *types.TxInput) *types.TxInput {
	c := &types.TxInput{AssetVersion: in.AssetVersion, CommitmentSuffix: CloneBytes(in.CommitmentSuffix), WitnessSuffix: CloneBytes(in.WitnessSuffix)}
	switch t := in.TypedInput.(type) {
	case *types.SpendInput:
		c.TypedInput = &types.SpendInput{SpendCommitmentSuffix: CloneBytes(t.SpendCommitmentSuffix), Arguments: CloneList(t.Arguments), SpendCommitment: cloneSC(t.SpendCommitment)}
	case *types.VetoInput:
		c.TypedInput = &types.VetoInput{VetoCommitmentSuffix: CloneBytes(t.VetoCommitmentSuffix), Arguments: CloneList(t.Arguments), Vote: CloneBytes(t.Vote), SpendCommitment: cloneSC(t.SpendCommitment)}
	case *types.IssuanceInput:
		c.TypedInput = &types.IssuanceInput{Nonce: CloneBytes(t.Nonce), Amount: t.Amount, AssetDefinition: CloneBytes(t.AssetDefinition),
			VMVersion: t.VMVersion, IssuanceProgram: CloneBytes(t.IssuanceProgram), Arguments: CloneList(t.Arguments)}
	case *types.CoinbaseInput:
		c.TypedInput = &types.CoinbaseInput{Arbitrary: CloneBytes(t.Arbitrary)}
	}
	return c
}

// CloneOutput deep-copies an output.
func CloneOutput(o *types.TxOutput) *types.TxOutput {
	var c *types.TxOutput
	id := bc.AssetID{}
	if o.AssetId != nil {
		id = *o.AssetId
	}
	if v, ok := o.TypedOutput.(*types.VoteOutput); ok {
		c = types.NewVoteOutput(id, o.Amount, CloneBytes(o.ControlProgram), CloneBytes(v.Vote), CloneList(o.StateData))
	} else {
		c = types.NewOriginalTxOutput(id, o.Amount, CloneBytes(o.ControlProgram), CloneList(o.StateData))
	}
	c.AssetVersion, c.VMVersion, c.CommitmentSuffix = o.AssetVersion, o.VMVersion, CloneBytes(o.CommitmentSuffix)
	return c
}

// CloneTxData deep-copies a transaction (nil vs empty input/output lists kept).
func CloneTxData(tx *types.TxData) *types.TxData {
	c := &types.TxData{Version: tx.Version, SerializedSize: tx.SerializedSize, TimeRange: tx.TimeRange}
	if tx.Inputs != nil {
		c.Inputs = make([]*types.TxInput, len(tx.Inputs))
		for i, in := range tx.Inputs {
			c.Inputs[i] = CloneInput(in)
		}
	}
	if tx.Outputs != nil {
		c.Outputs = make([]*types.TxOutput, len(tx.Outputs))
		for i, o := range tx.Outputs {
			c.Outputs[i] = CloneOutput(o)
		}
	}
	return c
}

// CloneSupLink deep-copies a verification link.
func CloneSupLink(s *types.SupLink) *types.SupLink {
	c := &types.SupLink{SourceHeight: s.SourceHeight, SourceHash: s.SourceHash}
	for i := range s.Signatures {
		c.Signatures[i] = CloneBytes(s.Signatures[i])
	}
	return c
}

// CloneHeader deep-copies a block header.
func CloneHeader(bh *types.BlockHeader) *types.BlockHeader {
	c := *bh
	c.BlockWitness = CloneBytes(bh.BlockWitness)
	if bh.SupLinks != nil {
		c.SupLinks = make(types.SupLinks, len(bh.SupLinks))
		for i, s := range bh.SupLinks {
			c.SupLinks[i] = CloneSupLink(s)
		}
	}
	return &c
}

// CloneBlock deep-copies a block; every transaction is re-mapped with NewTx.
func CloneBlock(b *types.Block) *types.Block {
	c := &types.Block{BlockHeader: *CloneHeader(&b.BlockHeader)}
	if b.Transactions != nil {
		c.Transactions = make([]*types.Tx, len(b.Transactions))
		for i, tx := range b.Transactions {
			c.Transactions[i] = types.NewTx(*CloneTxData(&tx.TxData))
		}
	}
	return c
}

// ---------------------------------------------------------------- comparison

// Diff is the first difference found between an expected and an observed value.
type Diff struct {
	Path  string // concrete location, e.g. "Inputs[2].Spend.SpendCommitmentSuffix"
	Field string // the same without indices: a bounded class usable in violation keys
	Want  string // hex or decimal
	Got   string
}

func (d *Diff) String() string {
	if d == nil {
		return ""
	}
	return fmt.Sprintf("%s: want %s got %s", d.Path, d.Want, d.Got)
}

// Doubled reports whether the observed byte string is the expected one written twice.
func (d *Diff) Doubled() bool {
	return d != nil && len(d.Want) > 0 && d.Got == d.Want+d.Want
}

type differ struct{ d *Diff }

func (x *differ) set(path, field, want, got string) {
	if x.d == nil {
		x.d = &Diff{Path: path, Field: field, Want: want, Got: got}
	}
}

// bytes: nil and empty are the same value.
func (x *differ) bytes(path, field string, a, b []byte) {
	if x.d == nil && !bytes.Equal(a, b) {
		x.set(path, field, hex.EncodeToString(a), hex.EncodeToString(b))
	}
}

func (x *differ) list(path, field string, a, b [][]byte) {
	if x.d != nil {
		return
	}
	if len(a) != len(b) {
		x.set(path+".len", field+".len", fmt.Sprint(len(a)), fmt.Sprint(len(b)))
		return
	}
	for i := range a {
		x.bytes(fmt.Sprintf("%s[%d]", path, i), field+"[]", a[i], b[i])
	}
}

func (x *differ) u64(path, field string, a, b uint64) {
	if x.d == nil && a != b {
		x.set(path, field, fmt.Sprint(a), fmt.Sprint(b))
	}
}

func (x *differ) hash(path, field string, a, b bc.Hash) {
	if x.d == nil && a != b {
		x.set(path, field, a.String(), b.String())
	}
}

func (x *differ) aa(path, field string, a, b bc.AssetAmount) {
	if x.d != nil {
		return
	}
	switch {
	case a.AssetId == nil || b.AssetId == nil:
		if a.AssetId != b.AssetId {
			x.set(path+".AssetId", field+".AssetId", fmt.Sprint(a.AssetId), fmt.Sprint(b.AssetId))
		}
	default:
		x.hash(path+".AssetId", field+".AssetId", bc.Hash(*a.AssetId), bc.Hash(*b.AssetId))
	}
	x.u64(path+".Amount", field+".Amount", a.Amount, b.Amount)
}

func (x *differ) sc(path, field string, a, b *types.SpendCommitment) {
	x.aa(path, field, a.AssetAmount, b.AssetAmount)
	x.hash(path+".SourceID", field+".SourceID", a.SourceID, b.SourceID)
	x.u64(path+".SourcePosition", field+".SourcePosition", a.SourcePosition, b.SourcePosition)
	x.u64(path+".VMVersion", field+".VMVersion", a.VMVersion, b.VMVersion)
	x.bytes(path+".ControlProgram", field+".ControlProgram", a.ControlProgram, b.ControlProgram)
	x.list(path+".StateData", field+".StateData", a.StateData, b.StateData)
}

func inputTypeName(in *types.TxInput) string {
	switch in.TypedInput.(type) {
	case *types.SpendInput:
		return "Spend"
	case *types.VetoInput:
		return "Veto"
	case *types.IssuanceInput:
		return "Issuance"
	case *types.CoinbaseInput:
		return "Coinbase"
	case nil:
		return "nil"
	}
	return "unknown"
}

func (x *differ) input(path string, a, b *types.TxInput) {
	if x.d != nil {
		return
	}
	if a == nil || b == nil {
		if a != b {
			x.set(path, "TxInput", fmt.Sprint(a != nil), fmt.Sprint(b != nil))
		}
		return
	}
	x.u64(path+".AssetVersion", "TxInput.AssetVersion", a.AssetVersion, b.AssetVersion)
	ta, tb := inputTypeName(a), inputTypeName(b)
	if ta != tb {
		x.set(path+".type", "TxInput.type", ta, tb)
		return
	}
	p, f := path+"."+ta, "TxInput."+ta
	switch s := a.TypedInput.(type) {
	case *types.SpendInput:
		o := b.TypedInput.(*types.SpendInput)
		x.sc(p, f, &s.SpendCommitment, &o.SpendCommitment)
		x.bytes(p+".SpendCommitmentSuffix", f+".SpendCommitmentSuffix", s.SpendCommitmentSuffix, o.SpendCommitmentSuffix)
		x.list(p+".Arguments", f+".Arguments", s.Arguments, o.Arguments)
	case *types.VetoInput:
		o := b.TypedInput.(*types.VetoInput)
		x.sc(p, f, &s.SpendCommitment, &o.SpendCommitment)
		x.bytes(p+".VetoCommitmentSuffix", f+".VetoCommitmentSuffix", s.VetoCommitmentSuffix, o.VetoCommitmentSuffix)
		x.bytes(p+".Vote", f+".Vote", s.Vote, o.Vote)
		x.list(p+".Arguments", f+".Arguments", s.Arguments, o.Arguments)
	case *types.IssuanceInput:
		o := b.TypedInput.(*types.IssuanceInput)
		x.bytes(p+".Nonce", f+".Nonce", s.Nonce, o.Nonce)
		x.u64(p+".Amount", f+".Amount", s.Amount, o.Amount)
		x.bytes(p+".AssetDefinition", f+".AssetDefinition", s.AssetDefinition, o.AssetDefinition)
		x.u64(p+".VMVersion", f+".VMVersion", s.VMVersion, o.VMVersion)
		x.bytes(p+".IssuanceProgram", f+".IssuanceProgram", s.IssuanceProgram, o.IssuanceProgram)
		x.list(p+".Arguments", f+".Arguments", s.Arguments, o.Arguments)
		x.hash(p+".AssetID()", f+".AssetID()", bc.Hash(s.AssetID()), bc.Hash(o.AssetID()))
	case *types.CoinbaseInput:
		o := b.TypedInput.(*types.CoinbaseInput)
		x.bytes(p+".Arbitrary", f+".Arbitrary", s.Arbitrary, o.Arbitrary)
	}
	x.bytes(path+".CommitmentSuffix", "TxInput.CommitmentSuffix", a.CommitmentSuffix, b.CommitmentSuffix)
	x.bytes(path+".WitnessSuffix", "TxInput.WitnessSuffix", a.WitnessSuffix, b.WitnessSuffix)
}

func (x *differ) output(path string, a, b *types.TxOutput) {
	if x.d != nil {
		return
	}
	if a == nil || b == nil {
		if a != b {
			x.set(path, "TxOutput", fmt.Sprint(a != nil), fmt.Sprint(b != nil))
		}
		return
	}
	x.u64(path+".AssetVersion", "TxOutput.AssetVersion", a.AssetVersion, b.AssetVersion)
	if a.TypedOutput == nil || b.TypedOutput == nil {
		if (a.TypedOutput == nil) != (b.TypedOutput == nil) {
			x.set(path+".type", "TxOutput.type", fmt.Sprint(a.TypedOutput != nil), fmt.Sprint(b.TypedOutput != nil))
		}
	} else {
		x.u64(path+".type", "TxOutput.type", uint64(a.OutputType()), uint64(b.OutputType()))
	}
	x.aa(path, "TxOutput", a.AssetAmount, b.AssetAmount)
	x.u64(path+".VMVersion", "TxOutput.VMVersion", a.VMVersion, b.VMVersion)
	x.bytes(path+".ControlProgram", "TxOutput.ControlProgram", a.ControlProgram, b.ControlProgram)
	x.list(path+".StateData", "TxOutput.StateData", a.StateData, b.StateData)
	if va, ok := a.TypedOutput.(*types.VoteOutput); ok {
		if vb, ok := b.TypedOutput.(*types.VoteOutput); ok {
			x.bytes(path+".Vote", "TxOutput.Vote", va.Vote, vb.Vote)
		}
	}
	x.bytes(path+".CommitmentSuffix", "TxOutput.CommitmentSuffix", a.CommitmentSuffix, b.CommitmentSuffix)
}

func (x *differ) tx(path string, a, b *types.TxData) {
	x.u64(path+"Version", "TxData.Version", a.Version, b.Version)
	x.u64(path+"TimeRange", "TxData.TimeRange", a.TimeRange, b.TimeRange)
	x.u64(path+"len(Inputs)", "TxData.len(Inputs)", uint64(len(a.Inputs)), uint64(len(b.Inputs)))
	x.u64(path+"len(Outputs)", "TxData.len(Outputs)", uint64(len(a.Outputs)), uint64(len(b.Outputs)))
	if x.d != nil {
		return
	}
	for i := range a.Inputs {
		x.input(fmt.Sprintf("%sInputs[%d]", path, i), a.Inputs[i], b.Inputs[i])
	}
	for i := range a.Outputs {
		x.output(fmt.Sprintf("%sOutputs[%d]", path, i), a.Outputs[i], b.Outputs[i])
	}
}

func (x *differ) header(path string, a, b *types.BlockHeader) {
	x.u64(path+"Version", "BlockHeader.Version", a.Version, b.Version)
	x.u64(path+"Height", "BlockHeader.Height", a.Height, b.Height)
	x.hash(path+"PreviousBlockHash", "BlockHeader.PreviousBlockHash", a.PreviousBlockHash, b.PreviousBlockHash)
	x.u64(path+"Timestamp", "BlockHeader.Timestamp", a.Timestamp, b.Timestamp)
	x.hash(path+"TransactionsMerkleRoot", "BlockHeader.TransactionsMerkleRoot", a.TransactionsMerkleRoot, b.TransactionsMerkleRoot)
	x.bytes(path+"BlockWitness", "BlockHeader.BlockWitness", a.BlockWitness, b.BlockWitness)
	x.u64(path+"len(SupLinks)", "BlockHeader.len(SupLinks)", uint64(len(a.SupLinks)), uint64(len(b.SupLinks)))
	if x.d != nil {
		return
	}
	for i := range a.SupLinks {
		sa, sb := a.SupLinks[i], b.SupLinks[i]
		p := fmt.Sprintf("%sSupLinks[%d]", path, i)
		if sa == nil || sb == nil {
			if sa != sb {
				x.set(p, "SupLink", fmt.Sprint(sa != nil), fmt.Sprint(sb != nil))
			}
			continue
		}
		x.u64(p+".SourceHeight", "SupLink.SourceHeight", sa.SourceHeight, sb.SourceHeight)
		x.hash(p+".SourceHash", "SupLink.SourceHash", sa.SourceHash, sb.SourceHash)
		for k := range sa.Signatures {
			x.bytes(fmt.Sprintf("%s.Signatures[%d]", p, k), "SupLink.Signatures[]", sa.Signatures[k], sb.Signatures[k])
		}
	}
}

// DiffInput compares two inputs modulo nil≡empty; nil when equal.
func DiffInput(want, got *types.TxInput) *Diff {
	x := &differ{}
	x.input("Input", want, got)
	return x.d
}

// DiffOutput compares two outputs modulo nil≡empty; nil when equal.
func DiffOutput(want, got *types.TxOutput) *Diff {
	x := &differ{}
	x.output("Output", want, got)
	return x.d
}

// DiffTxData compares every field of two transactions except SerializedSize,
// treating nil and empty slices as equal.  It returns nil when they are equal.
func DiffTxData(want, got *types.TxData) *Diff {
	x := &differ{}
	x.tx("", want, got)
	return x.d
}

// DiffHeader compares two block headers (all fields, witness and supLinks
// included) modulo nil≡empty.
func DiffHeader(want, got *types.BlockHeader) *Diff {
	x := &differ{}
	x.header("", want, got)
	return x.d
}

// DiffTxs compares two transaction lists element-wise with DiffTxData.
func DiffTxs(want, got []*types.Tx) *Diff {
	x := &differ{}
	x.u64("len(Transactions)", "Block.len(Transactions)", uint64(len(want)), uint64(len(got)))
	if x.d != nil {
		return x.d
	}
	for i := range want {
		if want[i] == nil || got[i] == nil {
			if want[i] != got[i] {
				x.set(fmt.Sprintf("Transactions[%d]", i), "Block.Transactions[]", fmt.Sprint(want[i] != nil), fmt.Sprint(got[i] != nil))
			}
			continue
		}
		x.tx(fmt.Sprintf("Transactions[%d].", i), &want[i].TxData, &got[i].TxData)
	}
	return x.d
}

// DiffBlock compares header and transactions.
func DiffBlock(want, got *types.Block) *Diff {
	if d := DiffHeader(&want.BlockHeader, &got.BlockHeader); d != nil {
		return d
	}
	return DiffTxs(want.Transactions, got.Transactions)
}
