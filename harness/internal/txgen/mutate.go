package txgen

import (
	"fmt"

	"github.com/bytom/bytom/protocol/bc"
	"github.com/bytom/bytom/protocol/bc/types"

	"verif/internal/ev"
)

// Class says what a single-field mutation touches.
type Class string

const (
	// Consensus: a field that is part of the consensus content of the value
	// (DESIGN C03: version, time range, input commitments, issuance nonce /
	// definition / program, output asset / amount / program / state data / vote
	// key / type, order and number of inputs and outputs; every header field but
	// the witness and the supLinks).  Whether a particular program byte of an
	// OP_FAIL-prefixed output is consensus content is an interpretation the
	// caller applies (DESIGN C03); the label here is per field.
	Consensus Class = "consensus"
	// Witness: data that must not influence an ID (arguments, witness suffix,
	// recorded serialized size, block witness, supLinks).
	Witness Class = "witness"
	// Extension: the unconsumed suffix of a *commitment* extensible string.  No
	// rule of the node reads it and no ID covers it; reported, never asserted.
	Extension Class = "extension"
)

// TxMutation is a deep copy of a transaction that differs from the original in
// exactly one field (or one structural step), guaranteed to be a real change
// (nil vs empty is never used as a "change").
type TxMutation struct {
	Name   string // e.g. "input[3].program/flip"
	Field  string // e.g. "input.spend.program": bounded class, no indices
	How    string // flip append truncate set inc hibit flipbit append-elem drop-elem mutate-elem resplit toggle-fail swap drop dup convert
	Class  Class
	Input  int // index of the input touched, -1 if none (for swaps: the lower index)
	Output int // index of the output touched, -1 if none
	Other  int // second index of a swap, else -1
	Tx     *types.TxData
}

type txMut struct {
	r    *ev.Rand
	orig *types.TxData
	out  []TxMutation
}

func (m *txMut) add(name, field, how string, class Class, in, out, other int, apply func(tx *types.TxData)) {
	tx := CloneTxData(m.orig)
	apply(tx)
	m.out = append(m.out, TxMutation{Name: name + "/" + how, Field: field, How: how, Class: class, Input: in, Output: out, Other: other, Tx: tx})
}

// byteVariants enumerates real changes of a byte string.
func byteVariants(r *ev.Rand, b []byte, isProgram bool) map[string][]byte {
	v := map[string][]byte{}
	v["append"] = append(CloneBytes(b), byte(r.Intn(256)))
	if len(b) > 0 {
		f := CloneBytes(b)
		f[r.Intn(len(f))] ^= 1 << uint(r.Intn(8))
		v["flip"] = f
		v["truncate"] = CloneBytes(b[:len(b)-1])
		if len(b) > 1 {
			// flip in the last byte: the tail of long strings must be covered too
			l := CloneBytes(b)
			l[len(l)-1] ^= 0x80
			v["flip-last"] = l
		}
	} else {
		v["set"] = r.Bytes(r.Range(2, 9))
	}
	if isProgram {
		t := CloneBytes(b)
		switch {
		case len(t) == 0:
			t = []byte{opFail}
		case t[0] == opFail:
			t[0] = opTrue
		default:
			t[0] = opFail
		}
		v["toggle-fail"] = t
	}
	return v
}

var byteHows = []string{"flip", "flip-last", "append", "truncate", "set", "toggle-fail"}

// listVariants enumerates real changes of a list of byte strings.
func listVariants(r *ev.Rand, l [][]byte) map[string][][]byte {
	v := map[string][][]byte{}
	v["append-elem"] = append(CloneList(l), r.Bytes(r.Range(0, 3)))
	if len(l) > 0 {
		v["drop-elem"] = CloneList(l[:len(l)-1])
		k := r.Intn(len(l))
		c := CloneList(l)
		if len(c[k]) > 0 {
			c[k][r.Intn(len(c[k]))] ^= 1 << uint(r.Intn(8))
		} else {
			c[k] = []byte{byte(r.Intn(256))}
		}
		v["mutate-elem"] = c
		// same concatenation, different element boundaries
		for i := range l {
			if len(l[i]) >= 2 {
				cut := r.Range(1, len(l[i])-1)
				s := make([][]byte, 0, len(l)+1)
				s = append(s, CloneList(l[:i])...)
				s = append(s, CloneBytes(l[i][:cut]), CloneBytes(l[i][cut:]))
				s = append(s, CloneList(l[i+1:])...)
				v["resplit"] = s
				break
			}
		}
	}
	return v
}

var listHows = []string{"append-elem", "drop-elem", "mutate-elem", "resplit"}

func inc63(v uint64) uint64 { return (v + 1) & MaxVarint63 }
func hibit(v uint64) uint64 { return v ^ 1<<62 }
func flipHash(r *ev.Rand, h bc.Hash) bc.Hash {
	switch r.Intn(4) {
	case 0:
		h.V0 ^= 1 << uint(r.Intn(64))
	case 1:
		h.V1 ^= 1 << uint(r.Intn(64))
	case 2:
		h.V2 ^= 1 << uint(r.Intn(64))
	default:
		h.V3 ^= 1 << uint(r.Intn(64))
	}
	return h
}

func (m *txMut) bytesField(name, field string, class Class, in, out int, cur []byte, isProgram bool, set func(tx *types.TxData, b []byte)) {
	vs := byteVariants(m.r, cur, isProgram)
	for _, how := range byteHows {
		if b, ok := vs[how]; ok {
			b := b
			m.add(name, field, how, class, in, out, -1, func(tx *types.TxData) { set(tx, b) })
		}
	}
}

func (m *txMut) listField(name, field string, class Class, in, out int, cur [][]byte, set func(tx *types.TxData, l [][]byte)) {
	vs := listVariants(m.r, cur)
	for _, how := range listHows {
		if l, ok := vs[how]; ok {
			l := l
			m.add(name, field, how, class, in, out, -1, func(tx *types.TxData) { set(tx, l) })
		}
	}
}

func (m *txMut) u64Field(name, field string, class Class, in, out int, cur uint64, set func(tx *types.TxData, v uint64)) {
	m.add(name, field, "inc", class, in, out, -1, func(tx *types.TxData) { set(tx, inc63(cur)) })
	m.add(name, field, "hibit", class, in, out, -1, func(tx *types.TxData) { set(tx, hibit(cur)) })
}

func (m *txMut) spendCommitment(i int, kind string, get func(tx *types.TxData) *types.SpendCommitment) {
	n := fmt.Sprintf("input[%d].", i)
	f := "input." + kind + "."
	sc := get(m.orig)
	h := flipHash(m.r, sc.SourceID)
	m.add(n+"sourceid", f+"sourceid", "flipbit", Consensus, i, -1, -1, func(tx *types.TxData) { get(tx).SourceID = h })
	m.u64Field(n+"position", f+"position", Consensus, i, -1, sc.SourcePosition, func(tx *types.TxData, v uint64) { get(tx).SourcePosition = v })
	a := bc.AssetID(flipHash(m.r, bc.Hash(*sc.AssetId)))
	m.add(n+"asset", f+"asset", "flipbit", Consensus, i, -1, -1, func(tx *types.TxData) { id := a; get(tx).AssetId = &id })
	m.u64Field(n+"amount", f+"amount", Consensus, i, -1, sc.Amount, func(tx *types.TxData, v uint64) { get(tx).Amount = v })
	m.add(n+"vmversion", f+"vmversion", "inc", Consensus, i, -1, -1, func(tx *types.TxData) { get(tx).VMVersion = sc.VMVersion + 1 })
	m.bytesField(n+"program", f+"program", Consensus, i, -1, sc.ControlProgram, true, func(tx *types.TxData, b []byte) { get(tx).ControlProgram = b })
	m.listField(n+"statedata", f+"statedata", Consensus, i, -1, sc.StateData, func(tx *types.TxData, l [][]byte) { get(tx).StateData = l })
}

func (m *txMut) input(i int) {
	n := fmt.Sprintf("input[%d].", i)
	in := m.orig.Inputs[i]
	var kind string
	switch t := in.TypedInput.(type) {
	case *types.SpendInput:
		kind = "spend"
		m.spendCommitment(i, kind, func(tx *types.TxData) *types.SpendCommitment {
			return &tx.Inputs[i].TypedInput.(*types.SpendInput).SpendCommitment
		})
		vote := m.r.Bytes(64)
		m.add(n+"type", "input.spend.type", "convert", Consensus, i, -1, -1, func(tx *types.TxData) {
			s := tx.Inputs[i].TypedInput.(*types.SpendInput)
			tx.Inputs[i].TypedInput = &types.VetoInput{VetoCommitmentSuffix: s.SpendCommitmentSuffix, Arguments: s.Arguments, Vote: vote, SpendCommitment: s.SpendCommitment}
		})
		m.listField(n+"arguments", "input.spend.arguments", Witness, i, -1, t.Arguments, func(tx *types.TxData, l [][]byte) { tx.Inputs[i].TypedInput.(*types.SpendInput).Arguments = l })
		m.bytesField(n+"spendsuffix", "input.spend.spendsuffix", Extension, i, -1, t.SpendCommitmentSuffix, false, func(tx *types.TxData, b []byte) {
			tx.Inputs[i].TypedInput.(*types.SpendInput).SpendCommitmentSuffix = b
		})
	case *types.VetoInput:
		kind = "veto"
		m.spendCommitment(i, kind, func(tx *types.TxData) *types.SpendCommitment {
			return &tx.Inputs[i].TypedInput.(*types.VetoInput).SpendCommitment
		})
		m.bytesField(n+"votekey", "input.veto.votekey", Consensus, i, -1, t.Vote, false, func(tx *types.TxData, b []byte) { tx.Inputs[i].TypedInput.(*types.VetoInput).Vote = b })
		m.add(n+"type", "input.veto.type", "convert", Consensus, i, -1, -1, func(tx *types.TxData) {
			s := tx.Inputs[i].TypedInput.(*types.VetoInput)
			tx.Inputs[i].TypedInput = &types.SpendInput{SpendCommitmentSuffix: s.VetoCommitmentSuffix, Arguments: s.Arguments, SpendCommitment: s.SpendCommitment}
		})
		m.listField(n+"arguments", "input.veto.arguments", Witness, i, -1, t.Arguments, func(tx *types.TxData, l [][]byte) { tx.Inputs[i].TypedInput.(*types.VetoInput).Arguments = l })
		m.bytesField(n+"spendsuffix", "input.veto.spendsuffix", Extension, i, -1, t.VetoCommitmentSuffix, false, func(tx *types.TxData, b []byte) {
			tx.Inputs[i].TypedInput.(*types.VetoInput).VetoCommitmentSuffix = b
		})
	case *types.IssuanceInput:
		kind = "issuance"
		iss := func(tx *types.TxData) *types.IssuanceInput { return tx.Inputs[i].TypedInput.(*types.IssuanceInput) }
		m.bytesField(n+"nonce", "input.issuance.nonce", Consensus, i, -1, t.Nonce, false, func(tx *types.TxData, b []byte) { iss(tx).Nonce = b })
		m.u64Field(n+"amount", "input.issuance.amount", Consensus, i, -1, t.Amount, func(tx *types.TxData, v uint64) { iss(tx).Amount = v })
		m.bytesField(n+"assetdefinition", "input.issuance.assetdefinition", Consensus, i, -1, t.AssetDefinition, false, func(tx *types.TxData, b []byte) { iss(tx).AssetDefinition = b })
		m.add(n+"vmversion", "input.issuance.vmversion", "inc", Consensus, i, -1, -1, func(tx *types.TxData) { iss(tx).VMVersion = inc63(t.VMVersion) })
		m.bytesField(n+"program", "input.issuance.program", Consensus, i, -1, t.IssuanceProgram, false, func(tx *types.TxData, b []byte) { iss(tx).IssuanceProgram = b })
		m.listField(n+"arguments", "input.issuance.arguments", Witness, i, -1, t.Arguments, func(tx *types.TxData, l [][]byte) { iss(tx).Arguments = l })
	case *types.CoinbaseInput:
		kind = "coinbase"
		m.bytesField(n+"arbitrary", "input.coinbase.arbitrary", Consensus, i, -1, t.Arbitrary, false, func(tx *types.TxData, b []byte) { tx.Inputs[i].TypedInput.(*types.CoinbaseInput).Arbitrary = b })
	default:
		return
	}
	m.bytesField(n+"commitsuffix", "input."+kind+".commitsuffix", Extension, i, -1, in.CommitmentSuffix, false, func(tx *types.TxData, b []byte) { tx.Inputs[i].CommitmentSuffix = b })
	m.bytesField(n+"witnesssuffix", "input."+kind+".witnesssuffix", Witness, i, -1, in.WitnessSuffix, false, func(tx *types.TxData, b []byte) { tx.Inputs[i].WitnessSuffix = b })
}

func (m *txMut) output(i int) {
	n := fmt.Sprintf("output[%d].", i)
	o := m.orig.Outputs[i]
	kind := "original"
	vote, isVote := o.TypedOutput.(*types.VoteOutput)
	if isVote {
		kind = "vote"
	}
	f := "output." + kind + "."
	a := bc.AssetID(flipHash(m.r, bc.Hash(*o.AssetId)))
	m.add(n+"asset", f+"asset", "flipbit", Consensus, -1, i, -1, func(tx *types.TxData) { id := a; tx.Outputs[i].AssetId = &id })
	m.u64Field(n+"amount", f+"amount", Consensus, -1, i, o.Amount, func(tx *types.TxData, v uint64) { tx.Outputs[i].Amount = v })
	m.add(n+"vmversion", f+"vmversion", "inc", Consensus, -1, i, -1, func(tx *types.TxData) { tx.Outputs[i].VMVersion = o.VMVersion + 1 })
	m.bytesField(n+"program", f+"program", Consensus, -1, i, o.ControlProgram, true, func(tx *types.TxData, b []byte) { tx.Outputs[i].ControlProgram = b })
	m.listField(n+"statedata", f+"statedata", Consensus, -1, i, o.StateData, func(tx *types.TxData, l [][]byte) { tx.Outputs[i].StateData = l })
	if isVote {
		m.bytesField(n+"votekey", f+"votekey", Consensus, -1, i, vote.Vote, false, func(tx *types.TxData, b []byte) { tx.Outputs[i].TypedOutput.(*types.VoteOutput).Vote = b })
		m.add(n+"type", f+"type", "convert", Consensus, -1, i, -1, func(tx *types.TxData) {
			c := tx.Outputs[i]
			nw := types.NewOriginalTxOutput(*c.AssetId, c.Amount, c.ControlProgram, c.StateData)
			nw.VMVersion, nw.CommitmentSuffix = c.VMVersion, c.CommitmentSuffix
			tx.Outputs[i] = nw
		})
	} else {
		key := m.r.Bytes(64)
		m.add(n+"type", f+"type", "convert", Consensus, -1, i, -1, func(tx *types.TxData) {
			c := tx.Outputs[i]
			nw := types.NewVoteOutput(*c.AssetId, c.Amount, c.ControlProgram, key, c.StateData)
			nw.VMVersion, nw.CommitmentSuffix = c.VMVersion, c.CommitmentSuffix
			tx.Outputs[i] = nw
		})
	}
	m.bytesField(n+"commitsuffix", f+"commitsuffix", Extension, -1, i, o.CommitmentSuffix, false, func(tx *types.TxData, b []byte) { tx.Outputs[i].CommitmentSuffix = b })
}

// sameInput / sameOutput compare the consensus-labelled fields only (witness
// and extension fields blanked): exchanging two such equal elements changes no
// consensus content and is therefore not offered as a "swap" mutation.
func sameInput(a, b *types.TxInput) bool {
	strip := func(in *types.TxInput) *types.TxInput {
		c := CloneInput(in)
		c.CommitmentSuffix, c.WitnessSuffix = nil, nil
		switch t := c.TypedInput.(type) {
		case *types.SpendInput:
			t.Arguments, t.SpendCommitmentSuffix = nil, nil
		case *types.VetoInput:
			t.Arguments, t.VetoCommitmentSuffix = nil, nil
		case *types.IssuanceInput:
			t.Arguments = nil
		}
		return c
	}
	return DiffInput(strip(a), strip(b)) == nil
}

func sameOutput(a, b *types.TxOutput) bool {
	ca, cb := CloneOutput(a), CloneOutput(b)
	ca.CommitmentSuffix, cb.CommitmentSuffix = nil, nil
	return DiffOutput(ca, cb) == nil
}

// TxMutations enumerates the single-field mutations of tx: for every input and
// output every field in a few ways (bit flip, append, truncate, increment, list
// element added / dropped / changed / re-split, OP_FAIL prefix toggled, type
// converted), plus version, time range, recorded size, swaps of two different
// inputs / outputs, and dropping or duplicating the last input / output.
// tx itself is not modified; r only chooses positions and filler bytes.
func TxMutations(r *ev.Rand, tx *types.TxData) []TxMutation {
	m := &txMut{r: r, orig: tx}
	m.u64Field("version", "tx.version", Consensus, -1, -1, tx.Version, func(t *types.TxData, v uint64) { t.Version = v })
	m.u64Field("timerange", "tx.timerange", Consensus, -1, -1, tx.TimeRange, func(t *types.TxData, v uint64) { t.TimeRange = v })
	m.add("serializedsize", "tx.serializedsize", "inc", Witness, -1, -1, -1, func(t *types.TxData) { t.SerializedSize += uint64(r.Range(1, 1000)) })
	for i := range tx.Inputs {
		m.input(i)
	}
	for i := range tx.Outputs {
		m.output(i)
	}
	// swaps: every adjacent pair and one random distant pair, when the two differ
	swapIn := func(i, j int) {
		if i != j && !sameInput(tx.Inputs[i], tx.Inputs[j]) {
			m.add(fmt.Sprintf("inputs[%d<->%d]", i, j), "tx.inputs.order", "swap", Consensus, i, -1, j, func(t *types.TxData) { t.Inputs[i], t.Inputs[j] = t.Inputs[j], t.Inputs[i] })
		}
	}
	swapOut := func(i, j int) {
		if i != j && !sameOutput(tx.Outputs[i], tx.Outputs[j]) {
			m.add(fmt.Sprintf("outputs[%d<->%d]", i, j), "tx.outputs.order", "swap", Consensus, -1, i, j, func(t *types.TxData) { t.Outputs[i], t.Outputs[j] = t.Outputs[j], t.Outputs[i] })
		}
	}
	for i := 0; i+1 < len(tx.Inputs); i++ {
		swapIn(i, i+1)
	}
	if n := len(tx.Inputs); n > 2 {
		swapIn(0, n-1)
	}
	for i := 0; i+1 < len(tx.Outputs); i++ {
		swapOut(i, i+1)
	}
	if n := len(tx.Outputs); n > 2 {
		swapOut(0, n-1)
	}
	if n := len(tx.Inputs); n > 0 {
		m.add("inputs", "tx.inputs.count", "drop", Consensus, n-1, -1, -1, func(t *types.TxData) { t.Inputs = t.Inputs[:n-1] })
		m.add("inputs", "tx.inputs.count", "dup", Consensus, n-1, -1, -1, func(t *types.TxData) { t.Inputs = append(t.Inputs, CloneInput(t.Inputs[n-1])) })
	}
	if n := len(tx.Outputs); n > 0 {
		m.add("outputs", "tx.outputs.count", "drop", Consensus, -1, n-1, -1, func(t *types.TxData) { t.Outputs = t.Outputs[:n-1] })
		m.add("outputs", "tx.outputs.count", "dup", Consensus, -1, n-1, -1, func(t *types.TxData) { t.Outputs = append(t.Outputs, CloneOutput(t.Outputs[n-1])) })
	}
	return m.out
}

// HeaderMutation is a deep copy of a header differing in one field.
type HeaderMutation struct {
	Name   string
	Field  string // "header.version", "header.suplinks", ...
	How    string
	Class  Class
	Header *types.BlockHeader
}

// HeaderMutations enumerates single-field mutations of a block header: the five
// hashed fields (consensus) and the block witness and supLinks (witness: link
// added / dropped / swapped, source height / hash changed, one signature set,
// cleared or altered).
func HeaderMutations(r *ev.Rand, bh *types.BlockHeader) []HeaderMutation {
	var out []HeaderMutation
	add := func(field, how string, class Class, apply func(h *types.BlockHeader)) {
		h := CloneHeader(bh)
		apply(h)
		out = append(out, HeaderMutation{Name: field + "/" + how, Field: field, How: how, Class: class, Header: h})
	}
	u64 := func(field string, cur uint64, set func(h *types.BlockHeader, v uint64)) {
		add(field, "inc", Consensus, func(h *types.BlockHeader) { set(h, inc63(cur)) })
		add(field, "hibit", Consensus, func(h *types.BlockHeader) { set(h, hibit(cur)) })
	}
	u64("header.version", bh.Version, func(h *types.BlockHeader, v uint64) { h.Version = v })
	u64("header.height", bh.Height, func(h *types.BlockHeader, v uint64) { h.Height = v })
	u64("header.timestamp", bh.Timestamp, func(h *types.BlockHeader, v uint64) { h.Timestamp = v })
	ph := flipHash(r, bh.PreviousBlockHash)
	add("header.previousblockhash", "flipbit", Consensus, func(h *types.BlockHeader) { h.PreviousBlockHash = ph })
	mr := flipHash(r, bh.TransactionsMerkleRoot)
	add("header.merkleroot", "flipbit", Consensus, func(h *types.BlockHeader) { h.TransactionsMerkleRoot = mr })
	// exchanging two hashed fields must matter as well
	if bh.PreviousBlockHash != bh.TransactionsMerkleRoot {
		add("header.previousblockhash<->merkleroot", "swap", Consensus, func(h *types.BlockHeader) {
			h.PreviousBlockHash, h.TransactionsMerkleRoot = h.TransactionsMerkleRoot, h.PreviousBlockHash
		})
	}
	if bh.Height != bh.Timestamp {
		add("header.height<->timestamp", "swap", Consensus, func(h *types.BlockHeader) { h.Height, h.Timestamp = h.Timestamp, h.Height })
	}

	vs := byteVariants(r, bh.BlockWitness, false)
	for _, how := range byteHows {
		if b, ok := vs[how]; ok {
			b := b
			add("header.blockwitness", how, Witness, func(h *types.BlockHeader) { h.BlockWitness = b })
		}
	}
	nl := SupLink(r)
	add("header.suplinks", "append-link", Witness, func(h *types.BlockHeader) { h.SupLinks = append(h.SupLinks, nl) })
	if n := len(bh.SupLinks); n > 0 {
		add("header.suplinks", "drop-link", Witness, func(h *types.BlockHeader) { h.SupLinks = h.SupLinks[:n-1] })
		k := r.Intn(n)
		add("header.suplinks", "sourceheight", Witness, func(h *types.BlockHeader) { h.SupLinks[k].SourceHeight = inc63(h.SupLinks[k].SourceHeight) })
		sh := flipHash(r, bh.SupLinks[k].SourceHash)
		add("header.suplinks", "sourcehash", Witness, func(h *types.BlockHeader) { h.SupLinks[k].SourceHash = sh })
		slot := r.Intn(len(bh.SupLinks[k].Signatures))
		sig := r.Bytes(64)
		if len(bh.SupLinks[k].Signatures[slot]) > 0 {
			add("header.suplinks", "clear-signature", Witness, func(h *types.BlockHeader) { h.SupLinks[k].Signatures[slot] = nil })
		}
		add("header.suplinks", "set-signature", Witness, func(h *types.BlockHeader) { h.SupLinks[k].Signatures[slot] = sig })
		if n > 1 && DiffHeader(&types.BlockHeader{SupLinks: types.SupLinks{bh.SupLinks[0]}}, &types.BlockHeader{SupLinks: types.SupLinks{bh.SupLinks[n-1]}}) != nil {
			add("header.suplinks", "swap-links", Witness, func(h *types.BlockHeader) { h.SupLinks[0], h.SupLinks[n-1] = h.SupLinks[n-1], h.SupLinks[0] })
		}
	}
	return out
}

// BlockMutation is a deep copy of a block differing in one structural step of
// its transaction list; the copy is re-sealed (merkle root recomputed), as a
// proposer building the mutated block would do.
type BlockMutation struct {
	Name  string
	Field string // "block.transactions.order", "block.transactions.count", "block.transactions[i]"
	How   string
	Block *types.Block
}

// ReplaceTx returns a sealed deep copy of b whose i-th transaction is tx.
func ReplaceTx(b *types.Block, i int, tx *types.TxData) *types.Block {
	c := CloneBlock(b)
	c.Transactions[i] = types.NewTx(*CloneTxData(tx))
	Seal(c)
	return c
}

// BlockMutations enumerates the structural mutations of the transaction list of
// a block: swaps of two transactions with different IDs (adjacent pairs and
// first<->last), dropping the last transaction, duplicating the last one, and
// appending a fresh one.  Header-field mutations come from HeaderMutations;
// single-transaction changes are composed by the caller with TxMutations and
// ReplaceTx.
func BlockMutations(r *ev.Rand, b *types.Block) []BlockMutation {
	var out []BlockMutation
	add := func(name, field, how string, apply func(c *types.Block)) {
		c := CloneBlock(b)
		apply(c)
		Seal(c)
		out = append(out, BlockMutation{Name: name + "/" + how, Field: field, How: how, Block: c})
	}
	n := len(b.Transactions)
	swap := func(i, j int) {
		if i != j && b.Transactions[i].ID != b.Transactions[j].ID {
			add(fmt.Sprintf("transactions[%d<->%d]", i, j), "block.transactions.order", "swap", func(c *types.Block) {
				c.Transactions[i], c.Transactions[j] = c.Transactions[j], c.Transactions[i]
			})
		}
	}
	for i := 0; i+1 < n; i++ {
		swap(i, i+1)
	}
	if n > 2 {
		swap(0, n-1)
	}
	if n > 0 {
		add("transactions", "block.transactions.count", "drop", func(c *types.Block) { c.Transactions = c.Transactions[:n-1] })
		add("transactions", "block.transactions.count", "dup", func(c *types.Block) { c.Transactions = append(c.Transactions, c.Transactions[n-1]) })
	}
	fresh := types.NewTx(*TxDataN(r, r.Range(0, 2), r.Range(1, 2)))
	add("transactions", "block.transactions.count", "append", func(c *types.Block) { c.Transactions = append(c.Transactions, fresh) })
	return out
}
