#!/bin/bash
# usage: seed2eval.sh <id> <demo dest> <pkg> <run>  — duplicate check vs stored seeds, confirm, scratch evaluation
id=$1
b=$(grep '^[+-]' /tmp/seed/out/$id/patch.diff | grep -v '^+++\|^---' | sort | md5sum | cut -c1-8)
for d in seeded/${id} seeded/${id}b seeded/${id}c seeded/${id}d; do
  [ -f $d/patch.diff ] || continue
  a=$(grep '^[+-]' $d/patch.diff | grep -v '^+++\|^---' | sort | md5sum | cut -c1-8)
  if [ "$a" = "$b" ]; then echo "$id DUPLICATE of $d"; exit 0; fi
done
./seedconfirm.sh "$@"
./seedtry.sh /tmp/seed/out/$id/patch.diff $id 2>&1 | cut -c1-280
