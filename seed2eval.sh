#!/bin/bash
# usage: seed2eval.sh <id> <demo dest> <pkg> <run>  — duplicate check vs round 1, confirm, scratch evaluation
id=$1
a=$(grep '^[+-]' seeded/$id/patch.diff | grep -v '^+++\|^---' | sort | md5sum | cut -c1-8); b=$(grep '^[+-]' /tmp/seed/out/$id/patch.diff | grep -v '^+++\|^---' | sort | md5sum | cut -c1-8)
if [ "$a" = "$b" ]; then echo "$id DUPLICATE of round 1"; exit 0; fi
./seedconfirm.sh "$@"
./seedtry.sh /tmp/seed/out/$id/patch.diff $id 2>&1 | cut -c1-280
