#!/usr/bin/env python3
"""Regenerates MANIFEST.json from checks.json (claimed checks) and not_applicable.json."""
import json, os, subprocess
R = os.path.dirname(os.path.abspath(__file__))
import glob
checks = {}
for p in sorted(glob.glob(os.path.join(R, "harness", "p*", "check.json"))):
    checks.update(json.load(open(p)))
# only checks the coordinator has reviewed and accepted are claimed
accepted = set(open(os.path.join(R, "accepted.txt")).read().split())
checks = {k: v for k, v in checks.items() if k in accepted}
props = [json.loads(l)["id"] for l in open(os.path.join(R, "properties.jsonl")) if l.strip()]
na_path = os.path.join(R, "not_applicable.json")
na_reasons = json.load(open(na_path)) if os.path.exists(na_path) else {}
hook_commits = []
try:
    out = subprocess.run(["git", "-C", "/repo", "log", "--format=%h %s"], stdout=subprocess.PIPE, text=True).stdout
    hook_commits = [l.split()[0] for l in out.splitlines() if l.split(" ", 1)[1].startswith("verif hook:")]
except Exception:
    pass
MODS = [".", "lib/github.com/tendermint/ed25519", "lib/golang.org/x/crypto", "lib/golang.org/x/net"]
baseline = "export GOFLAGS=-mod=mod GOPROXY=off GOSUMDB=off GOTOOLCHAIN=local; for m in %s; do (cd /repo/$m && go test -mod=mod -json -vet=off -count=1 -timeout 25m ./...); done" % " ".join(MODS)
m = {
 "version": 1,
 "setup_cmd": "./setup.sh",
 "hooks": {"guard": "verif", "enable": "go test -tags verif (the harness module in /verif/harness replaces github.com/bytom/bytom by /repo and always builds it with -tags verif)",
           "baseline_off_cmd": baseline, "source_commits": hook_commits, "add_only": True},
 "engines": [{"name": "harness", "path": "harness", "serves_properties": sorted(checks.keys()),
              "kind_free_text": "Go test binaries (one package per property) that drive the real code of /repo under hostile workloads and observe it with runtime monitors (reference-model oracles, invariant hooks, history checkers, the Go race detector); ./check is the driver that shards, watches, merges and reports"}],
 "checks": [],
 "not_applicable": [],
 "notes": "All verdicts come from observed executions of /repo's current working tree (runtime monitoring). Exit 0 held / 1 VIOLATION / 2 INCONCLUSIVE. known_findings.json lists recorded and fixed defects.",
}
for pid in props:
    if pid in checks:
        c = checks[pid]
        m["checks"].append({
            "property_id": pid,
            "quick_cmd": "./check %s --tier quick" % pid,
            "thorough_cmd": "./check %s --tier thorough" % pid,
            "evidence_file": "evidence/%s.json" % pid,
            "replay_cmd_template": "./check %s --replay {path}" % pid,
            "engine": "harness",
            "level_claimed": {"category": c["level"], "text": c["text"], "design_ref": c.get("design_ref", "DESIGN.md §4 " + pid)},
            "level_note": c["note"],
            "technique": c["technique"],
        })
    else:
        m["not_applicable"].append({"property_id": pid, "reason": na_reasons.get(pid, "monitor not built yet in this session; the design (DESIGN.md §4) applies runtime monitoring to it, nothing is claimed until the check exists")})
json.dump(m, open(os.path.join(R, "MANIFEST.json"), "w"), indent=1)
print("checks:", len(m["checks"]), "not_applicable:", len(m["not_applicable"]))
