#!/bin/bash
# usage: seedtry.sh <patch.diff> <Cxx> [more ids] — PRELIMINARY evaluation of a seeded change without touching /repo
# (a scratch worktree of /repo HEAD with the patch + a scratch copy of the harness whose go.mod points at it).
# The result that is recorded in seeded/<id>/meta.json always comes from seedrun.sh (patch applied to /repo itself).
set -u
patch=$(readlink -f "$1"); shift
tag=$(basename $(dirname "$patch"))-$$
w=/tmp/seedtry/$tag
mkdir -p /tmp/seedtry
git -C /repo worktree add -q --detach $w/repo HEAD || exit 3
trap 'cd /; git -C /repo worktree remove --force '$w'/repo; rm -rf '$w EXIT
git -C $w/repo apply "$patch" || { echo "patch does not apply"; exit 3; }
mkdir -p $w/verif
rsync -a --exclude .work --exclude .git --exclude replay --exclude evidence --exclude seeded /verif/ $w/verif/
sed -i "s#=> /repo#=> $w/repo#" $w/verif/harness/go.mod
cd $w/verif
for c in "$@"; do
  out=$(./check $c 2>&1); rc=$?
  echo "[$c] rc=$rc $(echo "$out" | head -1 | cut -c1-160)"
  echo "$out" | grep -E "^(VIOLATION|INCONCLUSIVE)" | sed "s#$w/verif#(scratch)#" | cut -c1-260 | head -4 | sed 's/^/    /'
done
